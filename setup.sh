#!/bin/sh
# Build the two extractors offline and pre-check the workspace's dependencies into /verif/.cache/target.
set -e
cd "$(dirname "$0")"
export CARGO_NET_OFFLINE=true
(cd tools/wirex && cargo build --release --offline)
(cd tools/mirx && cargo +nightly build --release --offline)
mkdir -p .cache
# warm the dependency artefacts (the workspace members are always re-checked through the wrapper)
SYSROOT=$(rustc +nightly --print sysroot)
(cd "${VERIF_REPO:-/repo}" && LD_LIBRARY_PATH="$SYSROOT/lib" RUSTFLAGS="-Zmir-opt-level=0 -Awarnings" \
   RUSTC_WORKSPACE_WRAPPER="/verif/tools/mirx/target/release/mirx" MIRX_CRATES="" MIRX_OUT=/dev/null \
   CARGO_TARGET_DIR=/verif/.cache/target cargo +nightly check --offline -p insim -p insim_core -p insim_pth -p insim_smx >/dev/null 2>&1 || true)
echo "setup ok"
