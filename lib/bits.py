"""A5 bit provenance: symbolic bit-vector evaluation of origin trees built from << >> & | ! with constants and casts.
A value is a list of bits (LSB first); a bit is 0, 1, ('f', name, i) for bit i of a source named `name`, or '?'."""
import re

WIDTH = {"u8": 8, "i8": 8, "u16": 16, "i16": 16, "u32": 32, "i32": 32, "u64": 64, "i64": 64, "usize": 64, "isize": 64, "bool": 1, "char": 32, "u128": 128}


def const_bits(v, w):
    return [(v >> i) & 1 for i in range(w)]


def bit_and(a, b):
    if a == 0 or b == 0:
        return 0
    if a == 1:
        return b
    if b == 1:
        return a
    return a if a == b else "?"


def bit_or(a, b):
    if a == 1 or b == 1:
        return 1
    if a == 0:
        return b
    if b == 0:
        return a
    return a if a == b else "?"


def bit_not(a):
    if a in (0, 1):
        return 1 - a
    return "?"


def evaluate(o, width, leaf):
    """leaf(origin) -> (name, width) for a source value, or None"""
    k = o[0]
    if k == "const" and o[1] is not None:
        return const_bits(o[1], width)
    if k == "field" and o[2] == 0 and o[1][0] == "bin" and o[1][1].endswith("WithOverflow"):
        return evaluate(o[1], width, leaf)
    src = leaf(o)
    if src is not None:
        name, w = src
        return [("f", name, i) if i < w else 0 for i in range(width)]
    if k in ("ref", "deref"):
        return evaluate(o[1], width, leaf)
    if k == "cast":
        fw = WIDTH.get(o[2], width)
        inner = evaluate(o[4], fw, leaf)
        return (inner + [0] * width)[:width]
    if k == "un" and o[1] == "Not":
        return [bit_not(b) for b in evaluate(o[2], width, leaf)]
    if k == "bin":
        op = o[1]
        w = WIDTH.get(o[4], width) if len(o) > 4 and o[4] else width
        if op in ("Shl", "Shr", "ShlUnchecked", "ShrUnchecked") and o[3][0] == "const" and o[3][1] is not None:
            a = evaluate(o[2], w, leaf)
            n = o[3][1]
            if op.startswith("Shl"):
                r = ([0] * n + a)[:w]
            else:
                r = (a[n:] + [0] * n)[:w]
            return (r + [0] * width)[:width]
        if op in ("Mul", "MulWithOverflow", "MulUnchecked", "Div") and o[3][0] == "const" and o[3][1] and (o[3][1] & (o[3][1] - 1)) == 0:
            # multiplication / division by a power of two = shift (overflow of a checked multiply panics, it does not wrap)
            a = evaluate(o[2], w, leaf)
            n = o[3][1].bit_length() - 1
            if op == "Div":
                r = (a[n:] + [0] * n)[:w]
            else:
                r = ([0] * n + a)[:w]
                if op == "MulWithOverflow" and any(x != 0 for x in a[w - n:]):
                    r = r  # the dropped bits make the accompanying assert fire; the surviving value is still the shift
            return (r + [0] * width)[:width]
        if op in ("BitAnd", "BitOr"):
            a, b = evaluate(o[2], w, leaf), evaluate(o[3], w, leaf)
            f = bit_and if op == "BitAnd" else bit_or
            r = [f(x, y) for x, y in zip(a, b)]
            return (r + [0] * width)[:width]
    if k == "field" and o[2] == 0 and o[1][0] == "bin" and o[1][1].endswith("WithOverflow"):
        return evaluate(o[1], width, leaf)
    return ["?"] * width


def substitute(bits, env):
    """replace ('f', name, i) by env[name][i] where name is in env"""
    out = []
    for b in bits:
        if isinstance(b, tuple) and b[1] in env:
            v = env[b[1]]
            out.append(v[b[2]] if b[2] < len(v) else 0)
        else:
            out.append(b)
    return out
