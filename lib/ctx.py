"""Per-run context: lazily built fact views shared by the rule modules."""
import core
from astq import Ast
from mirq import Mir
from spec import Spec
from wire import Wire


class Ctx:
    def __init__(self, config, rep):
        self.config = config
        self.rep = rep
        self.facts = core.Facts(config)
        self._ast = self._mir = self._wire = self._spec = None

    @property
    def ast(self):
        if self._ast is None:
            self._ast = Ast(self.facts)
        return self._ast

    def _link_ast(self):
        import absint
        absint.AST = self.ast          # the interval analysis reads the values of named constant structs from the syntax tree

    @property
    def mir(self):
        if self._mir is None:
            self._mir = Mir(self.facts)
            self._link_ast()
        return self._mir

    @property
    def wire(self):
        if self._wire is None:
            self._wire = Wire(self.ast, self.mir)
        return self._wire

    @property
    def spec(self):
        if self._spec is None:
            self._spec = Spec()
        return self._spec

    def loc(self, ent, ln=None):
        """file:line of an AST entity tuple (crate, modpath, file, item)"""
        f = ent[2] or "?"
        if f.startswith(core.REPO + "/"):
            f = f[len(core.REPO) + 1:]
        return "%s:%s" % (f, ln if ln is not None else ent[3].get("ln"))

    def const_loc(self, tyname, cname, fallback=None):
        """source location of `const CNAME` inside bitflags! { struct tyname } or impl tyname"""
        ent = self.ast.one(tyname, kinds=("Bitflags",))
        if ent is not None:
            for f in ent[3]["flags"]:
                if f["name"] == cname:
                    return self.loc(ent, f["ln"])
            return self.loc(ent)
        for e in self.ast.impls(tyname):
            for it in e[3]["items"]:
                if it["k"] == "Const" and it["name"] == cname:
                    return self.loc(e, it["ln"])
        return fallback
