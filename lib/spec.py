"""Parser for spec/insim_v9.spec (see the header of that file for the grammar)."""
import os
import re

from core import VERIF


class Spec:
    def __init__(self, path=None):
        path = path or os.path.join(VERIF, "spec", "insim_v9.spec")
        self.structs, self.packets, self.enums, self.flags, self.lights = {}, {}, {}, {}, {}
        self.bind = {"enum": {}, "flags": {}, "packet": {}}
        self.unconfirmed_flags = set()
        self.smallunit = {}
        self.extra_enum = {}
        with open(path) as fh:
            for raw in fh:
                line = raw.split("#")[0].strip()
                if not line:
                    continue
                w = line.split()
                if w[0] == "struct":
                    self.structs[w[1]] = {"size": int(w[2]), "tokens": w[4:]}
                elif w[0] == "packet":
                    i = w.index(":")
                    head = w[1:i]
                    mx = None
                    for h in head[3:]:
                        if h.startswith("max="):
                            mx = int(h[4:])
                    self.packets[head[0]] = {"type": int(head[1]), "size": head[2], "max": mx, "tokens": w[i + 1:]}
                elif w[0] == "enum":
                    self.enums[w[1]] = {k: int(v) for k, v in (x.split("=") for x in w[3:])}
                elif w[0] == "flags":
                    i = w.index(":")
                    if "?" in w[:i]:
                        self.unconfirmed_flags.add(w[1])
                    self.flags[w[1]] = {"bytes": int(w[2]), "values": {k: int(v) for k, v in (x.split("=") for x in w[i + 1:])}}
                elif w[0] == "lights":
                    self.lights[w[1]] = {k: tuple(int(z) for z in v.split(",")) for k, v in (x.split("=") for x in w[3:])}
                elif w[0] == "smallunit":
                    for x in w[1:]:
                        k, v = x.split("=")
                        self.smallunit[k] = v
                elif w[0] == "extra":
                    # extra enum <CodeEnum> Name=value : a code-only variant outside the spec's table (reviewed)
                    self.extra_enum.setdefault(w[2], {}).update({k: int(v) for k, v in (x.split("=") for x in w[3:])})
                elif w[0] == "bind":
                    for x in w[2:]:
                        k, v = x.split("=")
                        self.bind[w[1]][k] = v
                else:
                    raise ValueError("spec line not understood: " + line)

    def segs(self, tokens):
        """expand tokens into [(name, width|None, cls, extra)]; cls in u i f s b Z t:ms t:cs tail count"""
        out = []
        for t in tokens:
            m = re.match(r"^Z(\d+)$", t)
            if m:
                out.append(("Z", int(m.group(1)), "Z", {}))
                continue
            m = re.match(r"^A(\d+)$", t)
            if m:
                out.append(("A", None, "align", {"align": int(m.group(1))}))
                continue
            bindto = None
            if "=" in t:
                t, bindto = t.split("=")
            parts = t.split(":")
            name = parts[0]
            extra = {"bind": bindto}
            if len(parts) == 1:
                out.append((name, 1, "u", extra))
                continue
            sp = parts[1]
            if len(parts) == 3:
                unit = parts[2]
                if unit.endswith("?"):
                    extra["unconfirmed"] = True
                    unit = unit[:-1]
                out.append((name, int(sp), "t:" + unit, extra))
                continue
            m = re.match(r"^(\d+)$", sp)
            if m:
                out.append((name, int(sp), "u", extra))
                continue
            m = re.match(r"^([ifbs])(\d+)$", sp)
            if m:
                out.append((name, int(m.group(2)), m.group(1), extra))
                continue
            m = re.match(r"^s~(\d+)$", sp)
            if m:
                extra["max"] = int(m.group(1))
                out.append((name, None, "tail", extra))
                continue
            m = re.match(r"^@(\w+)$", sp)
            if m:
                for (n2, w2, c2, e2) in self.segs(self.structs[m.group(1)]["tokens"]):
                    out.append((name + "." + n2, w2, c2, e2))
                continue
            m = re.match(r"^(\d+)X@(\w+)$", sp)
            if m:
                for i in range(int(m.group(1))):
                    for (n2, w2, c2, e2) in self.segs(self.structs[m.group(2)]["tokens"]):
                        out.append(("%s[%d].%s" % (name, i, n2), w2, c2, e2))
                continue
            m = re.match(r"^(\w+)\*@(\w+)$", sp)
            if m:
                extra["count"] = m.group(1)
                extra["elem"] = self.segs(self.structs[m.group(2)]["tokens"])
                extra["elem_size"] = self.structs[m.group(2)]["size"]
                out.append((name, None, "count", extra))
                continue
            m = re.match(r"^(\w+)\*(\d+)$", sp)
            if m:
                extra["count"] = m.group(1)
                extra["elem"] = [("", int(m.group(2)), "u", {})]
                extra["elem_size"] = int(m.group(2))
                out.append((name, None, "count", extra))
                continue
            raise ValueError("spec token not understood: " + t)
        return out
