"""C17 R17.4 — MIR rules for the PTH / SMX parse entry points."""
import panics
from mirq import callee, origin_calls


def run(ctx, rep):
    roots = ["<insim_pth::Pth as binrw::binread::BinRead>::read_options", "insim_pth::Pth::from_file", "insim_pth::Pth::from_pathbuf",
             "<insim_smx::Smx as binrw::binread::BinRead>::read_options", "insim_smx::Smx::from_file", "insim_smx::Smx::from_pathbuf"]
    present = [r for r in roots if ctx.mir.body(r) is not None]
    rep.check("R17.4", "roots", len(present) == len(roots), "parse entry points missing: %s" % sorted(set(roots) - set(present)), None, nontrivial=False)
    # every panic site (this includes any with_capacity/reserve/resize whose size is not a constant or the length of
    # in-memory data, i.e. an allocation sized by a value read from the file)
    panics.check_paths(ctx, rep, "R17.4", present, label="file parse")
    # the entry points hand the file to the generated reader and return its error
    for r in ("insim_pth::Pth::from_file", "insim_smx::Smx::from_file", "insim_pth::Pth::from_pathbuf", "insim_smx::Smx::from_pathbuf"):
        b = ctx.mir.body(r)
        if b is None:
            continue
        rep.fn(r)
        reads = b.calls_to(r"binrw::binread::BinRead::read$") + [x for x in b.calls() if (callee(x[1])[0] or "").endswith("::from_file")]
        ok = len(reads) >= 1
        # the result is mapped/propagated, never unwrapped or defaulted
        bad = b.calls_to(r"Result::<T, E>::(unwrap|expect|unwrap_or|unwrap_or_default|unwrap_or_else|ok)$")
        rep.check("R17.4", "%s:propagates" % r.split("::", 1)[1], ok and not bad, "%s must return the parser's result (reads %d, swallowing calls %s)" % (r, len(reads), [callee(t)[0] for _b, t in bad]), b.loc(),
                  sample={"entry": r, "reader_calls": len(reads)})
    rep.floor("R17.4", 6)
