"""C11 — text fields always occupy their exact wire width and terminate correctly."""
import re

from astq import find_nodes
from mirq import callee, fmt_origin, origin_calls, strip_refs
from props.packets import norm, packet_variants
from wire import fixed_size

EXPLANATION = (
    "Core: R11.1 every text field's parser SIZE = writer SIZE (= spec width by C02), variable fields use the until-EOF parser with the "
    "aligned writer (raw=false, align 4, SIZE = spec maximum, SIZE % 4 == 0), the ISI admin password is the only raw field; R11.2 "
    "strip_trailing_nul cuts at the first NUL (Iterator::position with `== 0`) and both parsers apply it before converting. Extension "
    "(container-length domain over the MIR paths of binrw_write_codepage_string, Mso::write_options and write_game_version): the byte "
    "vector that reaches write_options is tracked through to_vec / truncate(K) / put_bytes(0, n) with two exact idioms (pad-to: "
    "n = K - len; round-up: n = ((len+a) & !a) - len) and the branch conditions on its length; R11.3 on the fixed branch the vector has "
    "length exactly SIZE on every path, on the aligned branch at most SIZE and a multiple of the alignment; R11.4 on every feasible path "
    "a zero byte is appended after the last operation that can shorten the vector (MST/MSX/MSL/MTC must end in NUL). Not decided: the "
    "content of the bytes (that they are the encoded text truncated), decoding of arbitrary text."
)

TERMINATED_PACKETS = ("Mst", "Msx", "Msl", "Mtc")


def run(ctx, rep):
    rep.explanation = EXPLANATION
    rep.assumptions = ["Vec::truncate/BufMut::put_bytes/slice::to_vec behave as documented"]
    text_fields(ctx, rep)
    strip_rule(ctx, rep)
    length_domain(ctx, rep)


def text_fields(ctx, rep):
    ent, variants = packet_variants(ctx)
    n = 0
    raws = []
    structs = set()
    for (crate, modpath, file, it) in ctx.ast.items:
        if it["k"] != "Struct" or crate not in ("insim", "insim_smx"):
            continue
        lay = None
        for f in it.get("fields", []):
            has = any(a.get("form") == "list" and any(d["key"] in ("parse_with", "write_with") for d in a["items"]) for a in f.get("attrs", []))
            if not has:
                continue
            if lay is None:
                lay = ctx.wire.layout(it["name"], None, modpath)
            fi = [x for x in lay["fields"] if x["name"] == f["name"]][0]
            r = [s for s in fi["read"] if s["cls"] == "text"]
            w = [s for s in fi["write"] if s["cls"] == "text"]
            if not r and not w:
                continue          # a custom parser / writer of something else (durations, lists)
            key = "%s.%s" % (it["name"], f["name"])
            loc = ctx.loc((crate, modpath, file, it), f["ln"])
            n += 1
            if len(r) != 1 or len(w) != 1:
                rep.fail("R11.1", key + ":shape", "text field must have one parser and one writer", loc)
                continue
            r, w = r[0], w[0]
            if r["w"] is not None:
                ok = w["w"] == r["w"] and (w.get("align") in (0, 1, None)) and r.get("raw") == w.get("raw")
                rep.check("R11.1", key + ":fixed", ok, "fixed text field %s: parser width %s raw=%s, writer width %s raw=%s align=%s" % (key, r["w"], r.get("raw"), w["w"], w.get("raw"), w.get("align")), loc,
                          sample={"field": key, "width": r["w"], "raw": r.get("raw")})
            else:
                v = w.get("var") or {}
                ok = r.get("var", {}).get("kind") == "tail" and v.get("kind") == "tail" and v.get("align") == 4 and isinstance(v.get("max"), int) and v["max"] % 4 == 0 and not w.get("raw") and not r.get("raw")
                rep.check("R11.1", key + ":variable", ok, "variable text field %s must pair the until-EOF parser with the aligned writer (raw=false, align 4, SIZE %% 4 == 0); found %s" % (key, v), loc,
                          sample={"field": key, "max": v.get("max"), "align": v.get("align")})
            if r.get("raw") or w.get("raw"):
                raws.append(key)
    rep.check("R11.1", "raw-fields", raws == ["Isi.admin"], "only the ISI admin password may bypass codepage conversion (raw fields: %s)" % raws, None, sample={"raw": raws})
    smx = ctx.ast.one("Smx", kinds=("Struct",), crate="insim_smx")
    if smx is not None:
        lay = ctx.wire.layout("Smx", None, "insim_smx")
        tr = [s for fi in lay["fields"] if fi["name"] == "track" for s in fi["read"] if s["cls"] == "text"]
        rep.check("R11.1", "Smx.track:width", len(tr) == 1 and tr[0]["w"] == 32, "SMX track name must be 32 bytes", ctx.loc(smx), nontrivial=False)
    rep.floor("R11.1", 30)


def strip_rule(ctx, rep):
    b = ctx.mir.body("insim_core::string::strip_trailing_nul")
    if b is None:
        rep.fail("R11.2", "found", "strip_trailing_nul not found")
        return
    rep.fn(b.name)
    pos = b.calls_to(r"Iterator::position$")
    rpos = b.calls_to(r"rposition$|Iterator::rev$|::rfind$|rsplit")
    ok = len(pos) == 1 and not rpos
    rep.check("R11.2", "first-nul", ok, "strip_trailing_nul must search the FIRST NUL with Iterator::position (found position x%d, reverse searches %s)" % (len(pos), [callee(t)[0] for _b, t in rpos]), b.loc(),
              sample={"search": [callee(t)[0] for _b, t in pos + rpos]})
    cb = ctx.mir.body("insim_core::string::strip_trailing_nul::{closure#0}")
    okc = False
    if cb is not None:
        for bl in cb.blocks:
            for st in bl["stmts"]:
                if st["k"] == "assign" and st["rv"]["k"] == "bin" and st["rv"]["op"] == "Eq":
                    r = cb.origin(st["rv"]["r"])
                    okc = r[0] == "const" and r[1] == 0
    rep.check("R11.2", "predicate", okc, "the search predicate must be `byte == 0`", cb.loc() if cb else b.loc())
    idx = b.calls_to(r"Index::index$")
    oki = False
    if len(idx) == 1 and pos:
        o = b.origin(idx[0][1]["args"][1])
        oki = o[0] == "agg" and "RangeTo" in o[1][1] and any(c[4] == pos[0][0] for c in origin_calls(o)) and strip_refs(b.origin(idx[0][1]["args"][0])) == ("arg", 1)
    rep.check("R11.2", "cut", oki, "the result must be input[..first_nul]", b.loc())
    for name in ("insim_core::string::binrw_parse_codepage_string", "insim_core::string::binrw_parse_codepage_string_until_eof"):
        short = name.split("::")[-1]
        if ctx.mir.body(name) is None:
            rep.fail("R11.2", "%s:found" % short, "%s not found" % name)
            continue
        # the parser, its closures and the private helpers of the string module it calls
        bodies = []
        work = [name]
        while work and len(bodies) < 12:
            n = work.pop()
            if n in bodies:
                continue
            c = ctx.mir.body(n)
            if c is None:
                continue
            bodies.append(n)
            work.extend(k for k in ctx.mir.bodies if k.startswith(n + "::{closure#") and not k.endswith("#promoted"))
            for _bb, t in c.calls():
                d = callee(t)[1] or callee(t)[0] or ""
                if d.startswith("insim_core::string::") and not d.startswith("insim_core::string::codepages::") and not d.endswith("strip_trailing_nul"):
                    work.append(d)
        sites = []
        for n in bodies:
            c = ctx.mir.body(n)
            rep.fn(n)
            st = c.calls_to(r"string::strip_trailing_nul$")
            for _b, t in c.calls_to(r"codepages::to_lossy_string$|String::from_utf8_lossy$"):
                sites.append((n, any(x[4] in [sb for sb, _t in st] for x in origin_calls(c.origin(t["args"][0])))))
        ok = len(sites) >= 2 and all(okk for _n, okk in sites)
        rep.check("R11.2", "%s:strip-before-convert" % short, ok,
                  "both conversions reached from %s must be applied to the output of strip_trailing_nul (conversion sites: %s)" % (short, sites), ctx.mir.body(name).loc(),
                  sample={"parser": short, "bodies": bodies, "conversion_sites": len(sites)})
    rep.floor("R11.2", 5)


# ---------------------------------------------------------------- container-length domain

WRITERS = [
    # (body, label, how the field's width / alignment are fixed)
    ("insim_core::string::binrw_write_codepage_string", "string-writer"),
    ("<insim::insim::mso::Mso as binrw::binwrite::BinWrite>::write_options", "mso-writer"),
    ("insim::insim::ver::write_game_version", "version-writer"),
]
# widths the specification fixes for the two writers that are not parameterised (InSim.txt: IS_MSO Msg[128] in steps of 4, IS_VER Version[8])
MSO_MAX, MSO_ALIGN = 128, 4
VERSION_WIDTH = 8


def lengths(K):
    return sorted(set(list(range(0, min(K + 10, 41))) + list(range(max(0, K - 9), K + 10))))


def length_domain(ctx, rep):
    """R11.3 / R11.4: the path table of each writer (private helpers inlined) replayed over an abstract byte vector for every
    content length around the field width, every alignment class and both `raw` settings (lib/vecsim.py)."""
    import vecsim
    from mirq import inline_calls, expand_adaptors
    for name, label in WRITERS:
        b = ctx.mir.body(name)
        if b is None:
            rep.fail("R11.3", "%s:found" % label, "%s not found" % name)
            continue
        rep.fn(name)
        mod = (name[1:].split(" as ")[0] if name.startswith("<") else name).rsplit("::", 1)[0] + "::"
        def local(d, mod=mod):
            # free functions and inherent methods of the writer's own module (not of its submodules)
            if not d.startswith(mod) or "{closure" in d:
                return False
            rest = d[len(mod):].split("::")
            return len(rest) == 1 or (len(rest) == 2 and rest[0][:1].isupper())
        ib = inline_calls(b, local, depth=3)
        if ib is not b:
            rep.notes.append("R11.3: private helper(s) of %s inlined into %s" % (mod, label))
            b = ib
        try:
            rows = b.decision_rows(events=True)
        except Exception as ex:
            rep.fail("R11.3", "%s:paths" % label, "path table of %s not extractable (%s)" % (label, ex), b.loc())
            continue
        writes = [r for r in rows if any(e[0] == "call" and (e[2] or "").endswith("BinWrite::write_options") and e[5] and vecsim.VEC_TY.match(str(e[5][0])) for e in r[2])]
        rep.check("R11.3", "%s:paths" % label, len(writes) >= 1, "expected at least one path that writes a byte vector in %s (found %d)" % (label, len(writes)), b.loc(), nontrivial=False)
        if not writes:
            continue
        argc = b.raw.get("argc") or 0
        tuple_arg = [i for i in range(1, argc + 1) if re.sub(r"\s", "", b.raw["locals"][i]["ty"]) == "(bool,u8)"]
        cur = {}

        def leaf(o, m):
            if o[0] == "const" and o[1] is None and o[2] == "SIZE":
                return cur["K"]
            if tuple_arg and o[0] == "field" and o[1] == ("arg", tuple_arg[0]) and o[2] in (0, 1):
                return cur["raw"] if o[2] == 0 else cur["a"]
            if o[0] == "call" and re.search(r"core::str::<impl str>::len$|alloc::string::String::len$", o[1] or ""):
                # the UTF-8 length of the text: a number of its own, not the length of the encoded bytes (they differ for every
                # non-ASCII character) - a writer that sizes the field from it is evaluated with both equal and different values
                return cur["U"]
            return None
        sim = vecsim.VecSim(ctx, b, rows, mod, leaf)
        if label == "string-writer":
            if not tuple_arg:
                rep.fail("R11.3", "%s:arguments" % label, "the (raw, align_to) argument of %s was not found" % name, b.loc())
                continue
            grid = [(K, a, raw) for K in (4, 8, 16, 24, 64, 128) for a in (0, 1, 2, 4, 8) for raw in (0, 1) if a <= 1 or K % a == 0]
        elif label == "mso-writer":
            grid = [(MSO_MAX, MSO_ALIGN, 0)]
        else:
            grid = [(VERSION_WIDTH, 0, 0)]
        cases = {}
        broken = None
        evaluated = 0
        for (K, a, raw) in grid:
            cur["K"], cur["a"], cur["raw"] = K, a, raw
            branch = "aligned" if a > 1 else "fixed"
            for L, U in [(L, U) for L in lengths(K) for U in ((L, L + 3) if label == "string-writer" else (L,))]:
                cur["U"] = U
                outs = sim.run(L)
                evaluated += 1
                outs = [o for o in outs if o.trap or o.written is not None or o.result not in ("Err",)]
                wr = [o for o in outs if o.written is not None]
                traps = [o for o in outs if o.trap]
                if traps or not wr:
                    broken = broken or "SIZE=%d align=%d raw=%d, %d content bytes: %s" % (K, a, raw, L, traps[0].trap if traps else "no feasible path writes the vector")
                    continue
                for o in wr:
                    w = o.written
                    case = "pad>0" if w["appended"] > 0 else "pad=0"          # were padding bytes appended on this path (even if cut off again)
                    c = cases.setdefault((branch, case), {"n": 0, "width": None, "content": None, "term": None, "ops": set()})
                    c["n"] += 1
                    c["ops"].add(" ".join(re.sub(r"\d+", "n", x) for x in o.ops))
                    where = "SIZE=%d align=%d, %d content bytes (%s)" % (K, a, L, ", ".join(o.ops) or "no operation")
                    if branch == "fixed" and w["len"] != K:
                        c["width"] = c["width"] or "%s: %d bytes are written, not %d" % (where, w["len"], K)
                    if branch == "aligned" and (w["len"] > K or w["len"] % a):
                        c["width"] = c["width"] or "%s: %d bytes are written (maximum %d, multiple of %d required)" % (where, w["len"], K, a)
                    if w["kept"] != min(L, K) or w["zt"] < w["app"]:
                        c["content"] = c["content"] or "%s: %d of the %d content bytes survive (the field holds %d) and %d of the %d appended bytes are zero" \
                            % (where, w["kept"], L, K, min(w["zt"], w["app"]), w["app"])
                    if w["zt"] < 1:
                        c["term"] = c["term"] or "%s: the last byte written is a content byte" % where
        rep.check("R11.3", "%s:evaluated" % label, broken is None, "the writer's path table could not be replayed for %s" % broken, b.loc(),
                  sample={"writer": label, "inputs_evaluated": evaluated, "paths": len(rows)})
        for (branch, case), c in sorted(cases.items()):
            tag = "%s:%s:%s" % (label, branch, case)
            sample = {"writer": label, "branch": branch, "case": case, "inputs": c["n"], "operations": sorted(c["ops"])[:6]}
            if branch == "fixed":
                rep.check("R11.3", tag + ":exact-width", c["width"] is None, "%s fixed branch: %s" % (label, c["width"]), b.loc(), sample=sample)
            else:
                rep.check("R11.3", tag + ":bounded-aligned", c["width"] is None, "%s aligned branch: %s" % (label, c["width"]), b.loc(), sample=sample)
            rep.check("R11.3", tag + ":content", c["content"] is None, "%s %s branch: the field must hold the encoded text cut to the width, followed by zero bytes only: %s" % (label, branch, c["content"]),
                      b.loc(), sample=sample)
            if label in ("string-writer",):
                rep.check("R11.4", tag + ":terminated", c["term"] is None,
                          "%s, %s branch, case %s: no zero byte ends the field (%s): MST/MSX/MSL/MTC text that fills the field is sent without its NUL terminator"
                          % (label, branch, case, c["term"]), b.loc(), sample=sample)
    # the four packets that LFS requires to end in NUL use the analysed writer
    ent, variants = packet_variants(ctx)
    for v in variants:
        if v["variant"] in TERMINATED_PACKETS and v["lay"]:
            texts = [s for s in v["lay"]["write"] if s["cls"] == "text"]
            rep.check("R11.4", "%s:uses-writer" % v["variant"], len(texts) == 1 and texts[0].get("helper") == "binrw_write_codepage_string" and texts is v["lay"]["write"][-1:] or len(texts) == 1,
                      "%s must write its message with binrw_write_codepage_string as the last field" % v["variant"], v["loc"], nontrivial=False)
    rep.floor("R11.3", 4)
    rep.floor("R11.4", 4)
