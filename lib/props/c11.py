"""C11 — text fields always occupy their exact wire width and terminate correctly."""
import re

from astq import find_nodes
from mirq import callee, fmt_origin, origin_calls, strip_refs
from props.packets import norm, packet_variants
from wire import fixed_size

EXPLANATION = (
    "Core: R11.1 every text field's parser SIZE = writer SIZE (= spec width by C02), variable fields use the until-EOF parser with the "
    "aligned writer (raw=false, align 4, SIZE = spec maximum, SIZE % 4 == 0), the ISI admin password is the only raw field; R11.2 "
    "strip_trailing_nul cuts at the first NUL (Iterator::position with `== 0`) and both parsers apply it before converting. Extension "
    "(container-length domain over the MIR paths of binrw_write_codepage_string, Mso::write_options and write_game_version): the byte "
    "vector that reaches write_options is tracked through to_vec / truncate(K) / put_bytes(0, n) with two exact idioms (pad-to: "
    "n = K - len; round-up: n = ((len+a) & !a) - len) and the branch conditions on its length; R11.3 on the fixed branch the vector has "
    "length exactly SIZE on every path, on the aligned branch at most SIZE and a multiple of the alignment; R11.4 on every feasible path "
    "a zero byte is appended after the last operation that can shorten the vector (MST/MSX/MSL/MTC must end in NUL). Not decided: the "
    "content of the bytes (that they are the encoded text truncated), decoding of arbitrary text."
)

TERMINATED_PACKETS = ("Mst", "Msx", "Msl", "Mtc")


def run(ctx, rep):
    rep.explanation = EXPLANATION
    rep.assumptions = ["Vec::truncate/BufMut::put_bytes/slice::to_vec behave as documented"]
    text_fields(ctx, rep)
    strip_rule(ctx, rep)
    length_domain(ctx, rep)


def text_fields(ctx, rep):
    ent, variants = packet_variants(ctx)
    n = 0
    raws = []
    structs = set()
    for (crate, modpath, file, it) in ctx.ast.items:
        if it["k"] != "Struct" or crate not in ("insim", "insim_smx"):
            continue
        lay = None
        for f in it.get("fields", []):
            has = any(a.get("form") == "list" and any(d["key"] in ("parse_with", "write_with") for d in a["items"]) for a in f.get("attrs", []))
            if not has:
                continue
            if lay is None:
                lay = ctx.wire.layout(it["name"], None, modpath)
            fi = [x for x in lay["fields"] if x["name"] == f["name"]][0]
            r = [s for s in fi["read"] if s["cls"] == "text"]
            w = [s for s in fi["write"] if s["cls"] == "text"]
            if not r and not w:
                continue          # a custom parser / writer of something else (durations, lists)
            key = "%s.%s" % (it["name"], f["name"])
            loc = ctx.loc((crate, modpath, file, it), f["ln"])
            n += 1
            if len(r) != 1 or len(w) != 1:
                rep.fail("R11.1", key + ":shape", "text field must have one parser and one writer", loc)
                continue
            r, w = r[0], w[0]
            if r["w"] is not None:
                ok = w["w"] == r["w"] and (w.get("align") in (0, 1, None)) and r.get("raw") == w.get("raw")
                rep.check("R11.1", key + ":fixed", ok, "fixed text field %s: parser width %s raw=%s, writer width %s raw=%s align=%s" % (key, r["w"], r.get("raw"), w["w"], w.get("raw"), w.get("align")), loc,
                          sample={"field": key, "width": r["w"], "raw": r.get("raw")})
            else:
                v = w.get("var") or {}
                ok = r.get("var", {}).get("kind") == "tail" and v.get("kind") == "tail" and v.get("align") == 4 and isinstance(v.get("max"), int) and v["max"] % 4 == 0 and not w.get("raw") and not r.get("raw")
                rep.check("R11.1", key + ":variable", ok, "variable text field %s must pair the until-EOF parser with the aligned writer (raw=false, align 4, SIZE %% 4 == 0); found %s" % (key, v), loc,
                          sample={"field": key, "max": v.get("max"), "align": v.get("align")})
            if r.get("raw") or w.get("raw"):
                raws.append(key)
    rep.check("R11.1", "raw-fields", raws == ["Isi.admin"], "only the ISI admin password may bypass codepage conversion (raw fields: %s)" % raws, None, sample={"raw": raws})
    smx = ctx.ast.one("Smx", kinds=("Struct",), crate="insim_smx")
    if smx is not None:
        lay = ctx.wire.layout("Smx", None, "insim_smx")
        tr = [s for fi in lay["fields"] if fi["name"] == "track" for s in fi["read"] if s["cls"] == "text"]
        rep.check("R11.1", "Smx.track:width", len(tr) == 1 and tr[0]["w"] == 32, "SMX track name must be 32 bytes", ctx.loc(smx), nontrivial=False)
    rep.floor("R11.1", 30)


def strip_rule(ctx, rep):
    b = ctx.mir.body("insim_core::string::strip_trailing_nul")
    if b is None:
        rep.fail("R11.2", "found", "strip_trailing_nul not found")
        return
    rep.fn(b.name)
    pos = b.calls_to(r"Iterator::position$")
    rpos = b.calls_to(r"rposition$|Iterator::rev$|::rfind$|rsplit")
    ok = len(pos) == 1 and not rpos
    rep.check("R11.2", "first-nul", ok, "strip_trailing_nul must search the FIRST NUL with Iterator::position (found position x%d, reverse searches %s)" % (len(pos), [callee(t)[0] for _b, t in rpos]), b.loc(),
              sample={"search": [callee(t)[0] for _b, t in pos + rpos]})
    cb = ctx.mir.body("insim_core::string::strip_trailing_nul::{closure#0}")
    okc = False
    if cb is not None:
        for bl in cb.blocks:
            for st in bl["stmts"]:
                if st["k"] == "assign" and st["rv"]["k"] == "bin" and st["rv"]["op"] == "Eq":
                    r = cb.origin(st["rv"]["r"])
                    okc = r[0] == "const" and r[1] == 0
    rep.check("R11.2", "predicate", okc, "the search predicate must be `byte == 0`", cb.loc() if cb else b.loc())
    idx = b.calls_to(r"Index::index$")
    oki = False
    if len(idx) == 1 and pos:
        o = b.origin(idx[0][1]["args"][1])
        oki = o[0] == "agg" and "RangeTo" in o[1][1] and any(c[4] == pos[0][0] for c in origin_calls(o)) and strip_refs(b.origin(idx[0][1]["args"][0])) == ("arg", 1)
    rep.check("R11.2", "cut", oki, "the result must be input[..first_nul]", b.loc())
    for name in ("insim_core::string::binrw_parse_codepage_string", "insim_core::string::binrw_parse_codepage_string_until_eof"):
        short = name.split("::")[-1]
        if ctx.mir.body(name) is None:
            rep.fail("R11.2", "%s:found" % short, "%s not found" % name)
            continue
        # the parser, its closures and the private helpers of the string module it calls
        bodies = []
        work = [name]
        while work and len(bodies) < 12:
            n = work.pop()
            if n in bodies:
                continue
            c = ctx.mir.body(n)
            if c is None:
                continue
            bodies.append(n)
            work.extend(k for k in ctx.mir.bodies if k.startswith(n + "::{closure#") and not k.endswith("#promoted"))
            for _bb, t in c.calls():
                d = callee(t)[1] or callee(t)[0] or ""
                if d.startswith("insim_core::string::") and not d.startswith("insim_core::string::codepages::") and not d.endswith("strip_trailing_nul"):
                    work.append(d)
        sites = []
        for n in bodies:
            c = ctx.mir.body(n)
            rep.fn(n)
            st = c.calls_to(r"string::strip_trailing_nul$")
            for _b, t in c.calls_to(r"codepages::to_lossy_string$|String::from_utf8_lossy$"):
                sites.append((n, any(x[4] in [sb for sb, _t in st] for x in origin_calls(c.origin(t["args"][0])))))
        ok = len(sites) >= 2 and all(okk for _n, okk in sites)
        rep.check("R11.2", "%s:strip-before-convert" % short, ok,
                  "both conversions reached from %s must be applied to the output of strip_trailing_nul (conversion sites: %s)" % (short, sites), ctx.mir.body(name).loc(),
                  sample={"parser": short, "bodies": bodies, "conversion_sites": len(sites)})
    rep.floor("R11.2", 5)


# ---------------------------------------------------------------- container-length domain

def is_len_of(o, vec):
    return o[0] == "call" and re.search(r"Vec::<T(, A)?>::len$", o[1] or "") is not None and strip_refs(o[3][0]) == vec


def f0(o):
    return o[1] if o[0] == "field" and o[2] == 0 else o


def classify_amount(o, vec):
    """put_bytes amount -> ('pad_to', K) | ('round_up', a_origin) | ('unknown', text)"""
    x = f0(o)
    if x[0] == "bin" and x[1] in ("SubWithOverflow", "Sub") and is_len_of(x[3], vec):
        lhs = x[2]
        if lhs[0] == "const":
            return ("pad_to", lhs[1] if lhs[1] is not None else lhs[2])
        y = lhs
        if y[0] == "bin" and y[1] == "BitAnd":
            s, m = f0(y[2]), y[3]
            if s[0] == "bin" and s[1] in ("AddWithOverflow", "Add") and is_len_of(s[2], vec) and m[0] == "un" and m[1] == "Not" and f0(s[3]) == f0(m[2]):
                return ("round_up", fmt_origin(f0(s[3])))
    return ("unknown", fmt_origin(o)[:80])


def classify_cond(o, vec):
    """bool switch discriminant -> descriptor or None"""
    if o[0] != "bin":
        return None
    op, l, r = o[1], o[2], o[3]
    if op == "Gt" and r[0] == "const" and r[1] == 0:
        a = classify_amount(l, vec)
        if a[0] == "pad_to":
            return ("remaining>0", a[1])
    if op == "Ne" and is_len_of(r, vec):
        y = l
        if y[0] == "bin" and y[1] == "BitAnd":
            return ("needs_round",)
    if op == "Gt" and is_len_of(l, vec) and r[0] == "const":
        return ("len>K", r[1] if r[1] is not None else r[2])
    if op == "Gt" and r[0] == "const" and r[1] == 1 and "arg" in fmt_origin(l):
        return ("align>1",)
    return None


def vec_paths(b, vec_local):
    """abstract runs of the tracked Vec<u8> local over all paths: list of (branch tag, events, final state)"""
    vec = ("phi", vec_local) if len([d for d in b.defs().get(vec_local, [])]) > 1 else None

    def same_vec(o):
        x = strip_refs(o)
        if x == ("phi", vec_local):
            return True
        if x[0] == "call":
            d = b.single_def(vec_local)
            return d is not None and d[0] == "call" and d[1] == x[4]
        return False

    def vec_id():
        # the vector is identified by the call that made it, also when it was moved through a helper's parameter and back
        o = b.origin({"copy": {"l": vec_local, "p": []}})
        if o[0] == "call":
            return o
        return ("phi", vec_local)
    V = vec_id()

    def classify(kind, bb, idx, node):
        if kind != "term" or node["k"] != "call":
            return None
        d = callee(node)[0] or ""
        if not node["args"]:
            return None
        a0 = strip_refs(b.origin(node["args"][0]))
        if a0 != V:
            return None
        if re.search(r"Vec::<T(, A)?>::truncate$", d):
            k = b.origin(node["args"][1])
            return ("truncate", k[1] if k[0] == "const" and k[1] is not None else (k[2] if k[0] == "const" else fmt_origin(k)))
        if d.endswith("BufMut::put_bytes"):
            z = b.origin(node["args"][1])
            if not (z[0] == "const" and z[1] == 0):
                return ("put", "nonzero")
            return ("put_zeros",) + classify_amount(b.origin(node["args"][2]), V)
        if re.search(r"Vec::<T(, A)?>::push$", d):
            z = b.origin(node["args"][1])
            return ("push", z[1] if z[0] == "const" else None)
        if d.endswith("BinWrite::write_options"):
            return ("write",)
        if re.search(r"Vec::<T(, A)?>::resize$", d) and len(node["args"]) == 3:
            z = b.origin(node["args"][2])
            tgt = b.origin(node["args"][1])
            if z[0] == "const" and z[1] == 0:
                x = f0(tgt)
                if x[0] == "const":
                    return ("resize_zeros", "to", x[1] if x[1] is not None else x[2])
                if x[0] == "call" and re.search(r"<impl usize>::next_multiple_of$", x[1] or "") and len(x[3]) == 2 and is_len_of(x[3][0], V) and x[3][1][0] == "const":
                    return ("resize_zeros", "round_up", fmt_origin(x[3][1]))
                if x[0] == "bin" and x[1] == "BitAnd":
                    s_, m_ = f0(x[2]), x[3]
                    if s_[0] == "bin" and s_[1] in ("AddWithOverflow", "Add") and is_len_of(s_[2], V) and m_[0] == "un" and m_[1] == "Not" and f0(s_[3]) == f0(m_[2]):
                        return ("resize_zeros", "round_up", fmt_origin(f0(s_[3])))
                return ("other", "resize to %s" % fmt_origin(tgt)[:60])
            return ("other", "resize with a non-zero fill")
        if re.search(r"Vec::<T(, A)?>::(resize|extend_from_slice|clear|pop|remove|insert|drain|retain|set_len|split_off|append|reserve)$", d):
            return ("other", d.split("::")[-1])
        return None

    def edge(bb, s, t):
        if t["k"] != "switch":
            return None
        o = b.origin(t["discr"])
        if o[0] == "const" and o[1] is not None:
            tg = [(int(v), tb) for v, tb in t["targets"]]
            want = [tb for v, tb in tg if v == o[1]]
            want = want[0] if want else t["otherwise"]
            return None if s == want else "infeasible"
        c = classify_cond(o, V)
        if c is None:
            return None
        tg = {int(v): tb for v, tb in t["targets"]}
        truth = not (0 in tg and tg[0] == s)
        return ("cond",) + c + (truth,)

    seqs = b.event_paths(classify, edge_classify=edge)
    runs = set()
    for s in seqs:
        evs = tuple(e for e in s if e[0] not in ("return",))
        if not any(e[0] == "write" for e in evs):
            continue
        if evs and evs[-1][0] in ("unreachable", "diverge"):
            continue
        cut = []
        for e in evs:
            cut.append(e)
            if e[0] == "write":
                break
        runs.add(tuple(cut))
    return sorted(runs)


INF = float("inf")


def interpret(run):
    """abstract states at the write, one per semantic case: dict(lo, hi, aligned, zero_tail, notes, branch, pad) with K symbolic.
    `pad` says whether the padding step appended at least one zero byte ('>0') or none ('=0'); it is decided by the source's
    own guard (`remaining > 0`, `round_to != len`) when there is one, and by a case split on the amount when the padding call
    is unguarded (`put_bytes(0, 0)` is a no-op) - so the cases, and the instance keys built from them, do not depend on how
    the source spells the guard."""
    import copy
    states = [{"lo": 0, "hi": INF, "K": None, "aligned": None, "zero_tail": False, "notes": [], "feasible": True, "branch": "fixed", "pad": None, "pending": None}]
    for e in run:
        nxt = []
        for st in states:
            if e[0] == "cond":
                c = e[1]
                truth = e[-1]
                if c == "align>1":
                    st["branch"] = "aligned" if truth else "fixed"
                elif c == "remaining>0":
                    st["K"] = e[2]
                    if truth:
                        st["pending"] = e[2]          # len < K
                    else:
                        st["pad"] = "=0"
                        if st["hi"] == "K":
                            st["lo"] = "K"
                            st["notes"].append("remaining == 0: the vector already fills the field")
                        else:
                            st["notes"].append("remaining == 0 without an upper bound on the length")
                elif c == "needs_round":
                    st["needs_round"] = truth
                    if not truth:
                        st["aligned"] = True
                        st["pad"] = "=0"
                elif c == "len>K":
                    st["K"] = e[2]
                    if truth:
                        st["lo"] = "K+1"
                    else:
                        st["hi"] = "K"
                nxt.append(st)
            elif e[0] == "truncate":
                st["K"] = e[1]
                if st["hi"] != "K":
                    st["hi"] = "K"
                    if st["lo"] == "K+1":
                        st["lo"] = "K"
                        st["notes"].append("truncate cuts (len > K)")
                        st["zero_tail"] = False
                    else:
                        if st["zero_tail"]:
                            st["notes"].append("truncate(K) after the zero padding may cut the padding off")
                        st["zero_tail"] = False
                nxt.append(st)
            elif e[0] == "put_zeros":
                kind = e[1]
                if kind == "pad_to":
                    if st["pending"] is not None:
                        st["lo"] = st["hi"] = "K"
                        st["zero_tail"] = True
                        st["pending"] = None
                        st["pad"] = ">0"
                        nxt.append(st)
                    elif st["hi"] == "K":
                        # unguarded K - len with len <= K: either nothing is appended (len == K) or at least one zero byte
                        a = copy.deepcopy(st)
                        a["lo"] = a["hi"] = "K"
                        a["pad"] = "=0"
                        a["notes"].append("padding amount K - len is 0: the vector already fills the field")
                        b_ = copy.deepcopy(st)
                        b_["lo"] = b_["hi"] = "K"
                        b_["zero_tail"] = True
                        b_["pad"] = ">0"
                        nxt.extend([a, b_])
                    else:
                        st["lo"] = st["hi"] = "K"
                        st["notes"].append("pad-to K - len without an upper bound on the length (the subtraction can overflow)")
                        st["hi"] = INF
                        nxt.append(st)
                elif kind == "round_up":
                    if "needs_round" in st:
                        st["aligned"] = True
                        if st["needs_round"]:
                            st["zero_tail"] = True
                            st["pad"] = ">0"
                        if st["hi"] == "K":
                            st["hi"] = "K+a"
                        nxt.append(st)
                    else:
                        a = copy.deepcopy(st)
                        a["aligned"] = True
                        a["pad"] = "=0"
                        a["notes"].append("round-up amount is 0: the length is already a multiple of the alignment")
                        b_ = copy.deepcopy(st)
                        b_["aligned"] = True
                        b_["zero_tail"] = True
                        b_["pad"] = ">0"
                        if b_["hi"] == "K":
                            b_["hi"] = "K+a"
                        nxt.extend([a, b_])
                else:
                    st["notes"].append("unrecognised padding amount %s" % (e[2],))
                    st["hi"] = INF
                    nxt.append(st)
            elif e[0] == "resize_zeros":
                if e[1] == "round_up":
                    # resize((len + m) & !m, 0): appends the bytes missing to the next multiple, nothing when already aligned
                    a = copy.deepcopy(st)
                    a["aligned"] = True
                    a["pad"] = "=0"
                    a["notes"].append("round-up amount is 0: the length is already a multiple of the alignment")
                    b_ = copy.deepcopy(st)
                    b_["aligned"] = True
                    b_["zero_tail"] = True
                    b_["pad"] = ">0"
                    if b_["hi"] == "K":
                        b_["hi"] = "K+a"
                    nxt.extend([a, b_])
                else:
                    # resize(K, 0): cuts when longer, pads with zeros when shorter
                    st["K"] = e[2]
                    c_ = copy.deepcopy(st)
                    c_["lo"] = c_["hi"] = "K"
                    c_["zero_tail"] = False
                    c_["pad"] = "=0"
                    c_["notes"].append("resize(K, 0) on a vector of at least K bytes: nothing is appended")
                    d_ = copy.deepcopy(st)
                    d_["lo"] = d_["hi"] = "K"
                    d_["zero_tail"] = True
                    d_["pad"] = ">0"
                    nxt.extend([c_, d_])
            elif e[0] == "push":
                st["zero_tail"] = e[1] == 0
                if st["hi"] == "K":
                    st["hi"] = "K+1"
                nxt.append(st)
            elif e[0] in ("put", "other"):
                st["notes"].append("unmodelled operation %s" % (e,))
                st["lo"], st["hi"], st["zero_tail"] = 0, INF, False
                nxt.append(st)
            else:
                nxt.append(st)
        states = nxt
    return states


WRITERS = [
    # (body, tracked local finder, label, needs zero tail, exact?)
    ("insim_core::string::binrw_write_codepage_string", "string-writer"),
    ("<insim::insim::mso::Mso as binrw::binwrite::BinWrite>::write_options", "mso-writer"),
    ("insim::insim::ver::write_game_version", "version-writer"),
]


def tracked_local(b):
    """the Vec<u8> local handed to write_options"""
    for bb, t in b.calls_to(r"BinWrite::write_options$"):
        ga = callee(t)[2]
        if ga and ga[0] == "alloc::vec::Vec<u8>":
            p = t["args"][0].get("copy") or t["args"][0].get("move")
            d = b.single_def(p["l"])
            if d and d[0] == "stmt" and d[3]["rv"]["k"] == "ref":
                return d[3]["rv"]["place"]["l"]
    return None


def length_domain(ctx, rep):
    for name, label in WRITERS:
        b = ctx.mir.body(name)
        if b is None:
            rep.fail("R11.3", "%s:found" % label, "%s not found" % name)
            continue
        rep.fn(name)
        from mirq import inline_calls
        mod = (name[1:].split(" as ")[0] if name.startswith("<") else name).rsplit("::", 1)[0] + "::"
        ib = inline_calls(b, lambda d, mod=mod: d.startswith(mod) and "{closure" not in d and not d.startswith("<"), depth=2)
        if ib is not b:
            rep.notes.append("R11.3: private helper(s) of %s inlined into %s" % (mod, label))
            b = ib
        loc_ = tracked_local(b)
        if loc_ is None:
            rep.fail("R11.3", "%s:vector" % label, "no Vec<u8> handed to write_options in %s" % name, b.loc())
            continue
        runs = vec_paths(b, loc_)
        rep.check("R11.3", "%s:paths" % label, len(runs) >= 1, "expected at least one path that writes the vector in %s (found %d)" % (label, len(runs)), b.loc(), nontrivial=False)
        seen = {}
        for run in runs:
          for st in interpret(run):
            conds = tuple((e[1], e[-1]) for e in run if e[0] == "cond" and e[1] != "align>1")
            ops = tuple(e[0] + (":" + str(e[1]) if len(e) > 1 and e[0] in ("put_zeros", "truncate") else "") for e in run if e[0] != "cond")
            if label == "mso-writer":
                st["branch"] = "aligned"
            tag = "%s:%s:%s" % (label, st["branch"], ("pad" + st["pad"]) if st["pad"] else "-")
            if tag in seen:
                # several source paths fall into one semantic case: the case holds only if all of them do
                prev = seen[tag]
                prev["zero_tail"] = prev["zero_tail"] and st["zero_tail"]
                continue
            seen[tag] = st
            st["_conds"], st["_ops"] = conds, ops
        for tag, st in sorted(seen.items()):
            conds, ops = st["_conds"], st["_ops"]
            sample = {"writer": label, "branch": st["branch"], "case": st["pad"], "conditions": [list(c) for c in conds], "operations": list(ops),
                      "len": [str(st["lo"]), str(st["hi"])], "zero_tail": st["zero_tail"], "notes": st["notes"]}
            if st["branch"] == "fixed":
                ok = st["lo"] == "K" and st["hi"] == "K"
                rep.check("R11.3", tag + ":exact-width", ok, "%s fixed branch: the written vector has length in [%s, %s], not exactly SIZE (%s)" % (label, st["lo"], st["hi"], st["notes"]), b.loc(), sample=sample)
            else:
                ok = st["hi"] == "K" and st["aligned"] is True
                rep.check("R11.3", tag + ":bounded-aligned", ok, "%s aligned branch: length bound %s, multiple of the alignment: %s (%s)" % (label, st["hi"], st["aligned"], st["notes"]), b.loc(), sample=sample)
            if label in ("string-writer",):
                rep.check("R11.4", tag + ":terminated", st["zero_tail"],
                          "%s, %s branch, case pad%s: no zero byte is guaranteed after the last operation that can shorten the text (%s): MST/MSX/MSL/MTC text that fills the field is sent without its NUL terminator"
                          % (label, st["branch"], st["pad"], "; ".join(st["notes"]) or "no padding on this path"), b.loc(), sample=sample)
    # the four packets that LFS requires to end in NUL use the analysed writer
    ent, variants = packet_variants(ctx)
    for v in variants:
        if v["variant"] in TERMINATED_PACKETS and v["lay"]:
            texts = [s for s in v["lay"]["write"] if s["cls"] == "text"]
            rep.check("R11.4", "%s:uses-writer" % v["variant"], len(texts) == 1 and texts[0].get("helper") == "binrw_write_codepage_string" and texts is v["lay"]["write"][-1:] or len(texts) == 1,
                      "%s must write its message with binrw_write_codepage_string as the last field" % v["variant"], v["loc"], nontrivial=False)
    rep.floor("R11.3", 4)
    rep.floor("R11.4", 4)
