"""C02 — wire layout conforms to the InSim v9 / relay specification.

Decides (structure only): per packet kind and per direction (read directives, write directives): type
number, field order, widths, signedness class, pad positions, fixed size, variable-tail form, count-byte
position; protocol-wide little-endian selection; every enumerant and flag constant value (resolved by
rustc's const evaluation) against the transcription in spec/insim_v9.spec; the unit of every time field.
"""
import re

from astq import attr_directives, find_nodes
from props.packets import basename, norm, packet_variants, show

EXPLANATION = (
    "Static comparison of the extracted wire model (binrw attribute directives via the syn syntax tree; hand-written "
    "BinRead/BinWrite impls and helper parsers via the resolved read/write call sequence on every MIR path; enumerant and "
    "flag values via rustc const evaluation) with an independent transcription of InSim.txt v9 / InSim-Relay. Decided: "
    "type numbers, field order, widths, int/float/text/pad class, pad positions, fixed size, tail/count form, endianness "
    "directive, enumerant values, flag bit values, time units. Not decided: that binrw implements its directives as "
    "documented; value-level behaviour of helper functions (C10/C11/C15)."
)


def nkey(s):
    return re.sub(r"[^a-z0-9]", "", s.lower())


def compare_seq(code, spec_segs, ctxname, side_read_ok=False):
    """first structural difference between normalised code segments and spec segments, or None"""
    # merge adjacent spec pads as well
    sp = []
    for x in spec_segs:
        if x[2] == "Z" and sp and sp[-1][2] == "Z":
            sp[-1] = ("Z", sp[-1][1] + x[1], "Z", {})
        else:
            sp.append(x)
    off = 2
    for i in range(max(len(code), len(sp))):
        if i >= len(code) and sp[i][2] == "align" and side_read_ok:
            continue  # the reader does not consume the trailing alignment pad
        if i >= len(code):
            return "offset %s: code ends, spec continues with %s" % (off, show(sp[i:i + 2]))
        if i >= len(sp):
            return "offset %s: spec ends, code continues with %s" % (off, show(code[i:i + 2]))
        c, s = code[i], sp[i]
        if c[2] == "?":
            return "offset %s: code segment %s undecidable (%s)" % (off, c[0], c[3].get("why"))
        if s[2] == "align" or c[2] == "align":
            if (c[2], c[3].get("align")) != (s[2], s[3].get("align")):
                return "offset %s: alignment pad: code %s vs spec %s" % (off, show([c]), show([s]))
            continue
        if s[2] == "count":
            if c[2] != "count":
                return "offset %s: spec has counted vector %s, code has %s" % (off, s[0], show([c]))
            d = compare_seq(c[3]["elem"], s[3]["elem"], ctxname)
            if d:
                return "element of %s: %s" % (s[0], d)
            continue
        if c[2] == "vec" and s[2] in ("b", "s") and c[3]["elem"] and c[3]["elem"][0][1] == 1:
            # a byte vector written where the spec has N bytes: the length is value-level (decided by the
            # container-length rules of C11/C16), the position and class are right
            off = off + s[1]
            continue
        if s[2] == "tail":
            if c[2] not in ("tail", "vec"):
                return "offset %s: spec has variable text %s, code has %s" % (off, s[0], show([c]))
            continue
        ccls, scls = c[2], s[2]
        if (c[1], ccls) != (s[1], scls):
            # unconfirmed time unit: only width/class family
            if scls.startswith("t:") and ccls.startswith("t:") and s[3].get("unconfirmed") and c[1] == s[1]:
                pass
            else:
                return "offset %s: code %s vs spec %s" % (off, show([c]), show([s]))
        off = off + (c[1] or 0) if off is not None else None
    return None


def run(ctx, rep):
    rep.explanation = EXPLANATION
    rep.assumptions = [
        "binrw implements pad_before/pad_after/magic/count/calc/parse_with/write_with/map/repr/little as documented",
        "spec/insim_v9.spec is a faithful transcription of InSim.txt (version 9) and the InSim-Relay document",
        "rustc's const evaluation and MIR construction are correct",
    ]
    spec = ctx.spec
    wire = ctx.wire
    ent, variants = packet_variants(ctx)
    if ent is None:
        rep.fail("R2.1", "Packet", "enum insim::packet::Packet not found (anchor lost)")
        return
    rep.fn("insim::packet::Packet")

    # ---- R2.4 endianness
    pdirs = attr_directives(ent[3], ("brw", "br", "bw"))
    little = [d for d in pdirs if d["key"] == "little"]
    sides = set()
    for d in little:
        sides |= set(wire.sides(d))
    rep.check("R2.4", "Packet:little", sides == {"read", "write"},
              "Packet enum must select little-endian for both directions (found directives: %s)" % [d["raw"] for d in pdirs],
              ctx.loc(ent), sample={"directives": [d["raw"] for d in pdirs]})
    n_end = 0
    for (crate, modpath, file, it) in ctx.ast.items:
        if crate != "insim" or it["k"] not in ("Struct", "Enum", "Bitflags"):
            continue
        cands = [(it, "")] + [(f, "." + f["name"]) for f in it.get("fields", [])] + [(v, "::" + v["name"]) for v in it.get("variants", [])]
        for (node, suffix) in cands:
            for d in attr_directives(node, ("brw", "br", "bw")):
                if d["key"] in ("big", "little", "is_big", "is_little") and not (it["name"] == "Packet" and suffix == ""):
                    n_end += 1
                    rep.fail("R2.4", "%s%s:%s" % (it["name"], suffix, d["key"]),
                             "endianness override `%s` inside the protocol" % d["raw"], ctx.loc((crate, modpath, file, node)))
    rep.floor("R2.4", 1)

    # ---- R2.1 type numbers / R2.2 layout
    bound = set()
    for v in variants:
        key = v["variant"]
        sname = spec.bind["packet"].get(key)
        rep.check("R2.1", "%s:bound" % key, sname is not None, "Packet variant %s has no specification entry" % key, v["loc"])
        if sname is None:
            continue
        bound.add(sname)
        sp = spec.packets[sname]
        rep.check("R2.1", "%s:magic" % key, v["magic"] == sp["type"] and v["magic_w"] == 1 and v["magic_sides"] == {"read", "write"},
                  "type number: code magic=%s (%s byte(s), sides %s) vs spec IS_%s=%d" % (v["magic"], v["magic_w"], sorted(v["magic_sides"]), sname, sp["type"]),
                  v["loc"], sample={"variant": key, "magic": v["magic"], "spec": sp["type"]})
        rep.check("R2.1", "%s:shape" % key, v["nfields"] == 1 and v["lay"] is not None,
                  "variant must wrap exactly one payload struct", v["loc"])
        if v["lay"] is None:
            continue
        for extra in [d for d in v["dirs"] if d["key"] not in ("magic",)]:
            rep.fail("R2.1", "%s:directive:%s" % (key, extra["key"]), "unexpected directive %s on Packet variant" % extra["raw"], v["loc"])
        sseg = spec.segs(sp["tokens"])
        lay = v["lay"]
        loc = ctx.loc(lay["ent"]) if lay.get("ent") else v["loc"]
        for side in ("read", "write"):
            code = norm(lay[side], side, wire)
            diff = compare_seq(code, sseg, key, side == "read")
            rep.check("R2.2", "%s:%s" % (key, side), diff is None,
                      "IS_%s %s-side layout differs from spec: %s | code: %s | spec: %s" % (sname, side, diff, show(code), show(sseg)),
                      loc, sample={"packet": sname, "side": side, "code": show(code), "spec": show(sseg)})
            # ---- R2.10 request id is the first payload byte
            first = code[0] if code else None
            rep.check("R2.10", "%s:%s" % (key, side), first is not None and first[1] == 1 and first[2] == "u",
                      "first payload byte (frame byte 2) must be the 1-byte request id; found %s" % (show([first]) if first else None), loc,
                      nontrivial=False)
            # ---- R2.3 known names must sit at the spec's position
            cn = [basename(x[0]) for x in code if x[2] not in ("Z",)]
            sn = [nkey(x[0].split(".")[0].split("[")[0]) for x in sseg if x[2] != "Z"]
            if side == "read":
                sn = [nkey(x[0].split(".")[0].split("[")[0]) for x in sseg if x[2] not in ("Z", "align")]
            if diff is None and len(cn) == len(sn):
                # collapse repeated base names (nested structs)
                for i, (a, b) in enumerate(zip(cn, sn)):
                    a = nkey(a)
                    if a != b and a in sn and b in [nkey(x) for x in cn]:
                        rep.fail("R2.3", "%s:%s:%s" % (key, side, a),
                                 "field `%s` sits where the spec has `%s` (fields transposed)" % (a, b), loc)
            rep.check("R2.3", "%s:%s" % (key, side), True, "", loc, nontrivial=False)
            # ---- count byte position
            for idx, s in enumerate(sseg):
                if s[2] == "count" and diff is None:
                    cnt_spec = nkey(s[3]["count"])
                    sidx = [i for i, x in enumerate(sseg) if nkey(x[0]) == cnt_spec]
                    # the code's vector segment sits at the same index after pad merging
                    cseg = [x for x in code if x[2] == "count"]
                    cname = cseg[0][3].get("count") if cseg else None
                    if side == "read":
                        cidx = [i for i, x in enumerate(code) if cname and basename(x[0]) == cname.lower()]
                        # compare positions in pad-merged sequences
                        msp = []
                        for x in sseg:
                            if x[2] == "Z" and msp and msp[-1][2] == "Z":
                                continue
                            msp.append(x)
                        sidx = [i for i, x in enumerate(msp) if nkey(x[0]) == cnt_spec]
                        rep.check("R2.2c", "%s:count" % key, cidx == sidx and len(cidx) == 1,
                                  "element count is taken from `%s` (position %s) but the spec's count byte %s is at position %s"
                                  % (cname, cidx, s[3]["count"], sidx), loc, sample={"count": cname})
        for (where, what) in wire.undecidable:
            pass
    for sname in spec.packets:
        rep.check("R2.1", "spec:%s" % sname, sname in bound, "specification packet IS_%s has no Packet variant" % sname, ctx.loc(ent), nontrivial=False)
    rep.floor("R2.1", 73 * 3)
    rep.floor("R2.2", 73 * 2)
    for (where, what) in sorted(set(wire.undecidable)):
        rep.fail("R2.0", "undecidable:%s:%s" % (where, what), "wire model could not decide: %s at %s" % (what, where))

    # ---- R2.5 enumerations
    enum_vals = {}
    for path, e in ctx.mir.enums.items():
        enum_vals.setdefault(path.split("::")[-1], []).append((path, e))
    for cname, sid in sorted(spec.bind["enum"].items()):
        if cname in ("SmallType", "CimMode"):
            continue  # hand-written discriminant tables: R2.9
        cands = enum_vals.get(cname, [])
        if len(cands) != 1:
            rep.fail("R2.5", "%s:found" % cname, "enum %s resolves to %d definitions" % (cname, len(cands)))
            continue
        path, e = cands[0]
        code = {v["name"]: int(v["discr"]) for v in e["variants"]}
        sp = spec.enums[sid]
        loc = "%s:%s" % (e["at"]["file"], e["at"]["line"])
        spn = {nkey(k): (k, v) for k, v in sp.items()}
        matched = 0
        for name, val in code.items():
            if nkey(name) in spn:
                matched += 1
                rep.check("R2.5", "%s::%s" % (cname, name), spn[nkey(name)][1] == val,
                          "enumerant %s::%s = %d, spec %s_%s = %d" % (cname, name, val, sid, spn[nkey(name)][0], spn[nkey(name)][1]), loc,
                          sample={"enum": cname, "variant": name, "value": val})
        extras = spec.extra_enum.get(cname, {})
        codeset = sorted(v for k, v in code.items() if not (k in extras and extras[k] == v))
        rep.check("R2.5", "%s:valueset" % cname, codeset == sorted(sp.values()),
                  "value set of %s %s differs from spec %s %s" % (cname, codeset, sid, sorted(sp.values())), loc,
                  sample={"enum": cname, "values": sorted(code.values()), "names_matched": matched, "documented_extras": extras})
    rep.floor("R2.5", 150)

    # ---- R2.6 flag words
    consts_by_type = {}
    for path, c in ctx.mir.consts.items():
        m = re.match(r"^(?:.*::)?(\w+)::([A-Z][A-Z0-9_]*)$", path)
        if not m or c["val"] is None:
            continue
        tyname = c["ty"].split("::")[-1]
        owner = m.group(1)
        if tyname == owner or (owner == "PlcAllowedCarsSet" and c["ty"] == "u32"):
            consts_by_type.setdefault(owner, {})[m.group(2)] = (int(c["val"]), c["at"])
    for cname, sid in sorted(spec.bind["flags"].items()):
        code = consts_by_type.get(cname)
        if not code:
            rep.fail("R2.6", "%s:found" % cname, "no constants found for flag type %s" % cname)
            continue
        sp = spec.flags[sid]
        loc = ctx.const_loc(cname, "")
        spn = {nkey(k): (k, v) for k, v in sp["values"].items()}
        setbits = {k: v for k, v in code.items()}
        pinned = sid in spec.unconfirmed_flags
        unmatched_code = {}
        for name, (val, at) in sorted(code.items()):
            n1 = nkey(name)
            alts = [n1, nkey(re.sub(r"^(PSE|ISF|ISS)_", "", name))]
            hit = [a for a in alts if a in spn]
            if sid in ("LCS", "LCL") and not name.startswith("SET_"):
                continue
            if hit:
                sname, sval = spn[hit[0]]
                rep.check("R2.6", "%s::%s" % (cname, name), val == sval,
                          "flag %s::%s = 0x%x, spec %s_%s = 0x%x" % (cname, name, val, sid, sname, sval),
                          ctx.const_loc(cname, name, "%s:%s" % (at["file"], at["line"])), sample={"flags": cname, "const": name, "value": val})
            else:
                unmatched_code[name] = val
        codeset = sorted(v for k, (v, _a) in code.items() if v != 0 and not (sid in ("LCS", "LCL") and not k.startswith("SET_")))
        specset = sorted(v for v in sp["values"].values())
        if sid == "PSE":
            # the code's NOTHING = 0 is the empty set, not a bit
            pass
        rep.check("R2.6", "%s:valueset" % cname, codeset == specset or pinned and True,
                  "bit values of %s %s differ from spec %s %s" % (cname, [hex(x) for x in codeset], sid, [hex(x) for x in specset]), loc,
                  sample={"flags": cname, "values": codeset, "unmatched_names": sorted(unmatched_code)})
        # backing width
        ent_bf = ctx.ast.one(cname, kinds=("Bitflags",))
        if ent_bf is not None:
            p = wire.prim(ent_bf[3]["ty"]["name"])
            rep.check("R2.6", "%s:width" % cname, p is not None and p["w"] == sp["bytes"],
                      "flag word %s is %s bytes, spec %s is %d" % (cname, p["w"] if p else None, sid, sp["bytes"]), ctx.loc(ent_bf), nontrivial=False)
        # ---- R2.7 LCS / LCL data fields
        if sid in spec.lights:
            setmask = {v: k for k, v in sp["values"].items()}
            for name, (val, at) in sorted(code.items()):
                if name.startswith("SET_"):
                    continue
                low = val & 0xFF
                sets = [b for b in setmask if low & b]
                ok = len(sets) == 1 and (low == sets[0])
                detail = ""
                if ok:
                    shift, width = spec.lights[sid][setmask[sets[0]]]
                    data = val & ~0xFF
                    mask = ((1 << width) - 1) << shift
                    ok = (data & ~mask) == 0
                    detail = "data bits 0x%x outside the %s field (bits %d..%d)" % (data, setmask[sets[0]], shift, shift + width - 1)
                else:
                    detail = "low byte 0x%x is not exactly one SET_ bit" % low
                rep.check("R2.7", "%s::%s" % (cname, name), ok, "%s::%s = 0x%x: %s" % (cname, name, val, detail),
                          ctx.const_loc(cname, name), sample={"const": name, "value": val})
    rep.floor("R2.6", 150)
    rep.floor("R2.7", 30)

    # ---- R2.9 hand-written discriminant tables (SmallType, CimMode) and SMALL units
    hand_tables(ctx, rep)
    # ---- the race-length byte is a specification table too (byte ranges -> practice / laps / hours)
    from props import c15
    c15.racelaps_table(ctx, rep)
    # byte 0 of every frame is the size: the frame length itself, or a quarter of it in the compressed (InSim v9) mode - both
    # conversions of the size byte, value by value (R3.3 encode, R4.1 decode; shared with C03 / C04)
    from props import c03_mir, c04
    before = len(rep.instances)
    c03_mir.run(ctx, rep)
    c04.decode_length(ctx, rep)
    rep.instances[before:] = [i for i in rep.instances[before:] if i["rule"] in ("R3.3", "R4.1")]
    for r_ in ("R3.4", "R3.5"):
        rep.floors.pop(r_, None)
    # a text field occupies exactly the width the specification gives it - otherwise every later field sits at the wrong offset:
    # the shared text writer's exact-width clause (R11.3, shared with C11)
    from props import c11
    before = len(rep.instances)
    c11.length_domain(ctx, rep)
    rep.instances[before:] = [i for i in rep.instances[before:] if i["rule"] == "R11.3"]
    rep.floors.pop("R11.4", None)
    # the allowed-cars word of IS_PLC / SMALL_ALC: each car's bit is the specification's constant (checked above), and the
    # hand-written encoder must use, for every car, the constant the decoder tests (R13.3, shared with C13)
    from props import c13
    before = len(rep.instances)
    keep_expl, keep_ass = rep.explanation, list(rep.assumptions)
    c13.run(ctx, rep)
    rep.explanation, rep.assumptions = keep_expl, keep_ass
    rep.instances[before:] = [i for i in rep.instances[before:] if i["rule"] == "R13.3"]
    for r_ in ("R13.0", "R13.1", "R13.2"):
        rep.floors.pop(r_, None)


def hand_tables(ctx, rep):
    spec = ctx.spec
    for tyname, sid in (("SmallType", "SMALL"), ("CimMode", "CIM")):
        sp = {nkey(k): v for k, v in spec.enums[sid].items()}
        from props.handpairs import disc_tables
        rd, wr, _e = disc_tables(ctx, tyname)
        for side, trait, fn in (("read", "BinRead", "read_options"), ("write", "BinWrite", "write_options")):
            ms = ctx.ast.method(tyname, fn, trait=trait)
            if len(ms) != 1:
                rep.fail("R2.9", "%s:%s:found" % (tyname, side), "impl %s for %s not found" % (trait, tyname))
                continue
            ent, it = ms[0]
            rep.fn("<%s as %s>::%s" % (tyname, trait, fn))
            table = {v: k for k, v in rd.items()} if side == "read" else dict(wr)
            for var, val in sorted(table.items()):
                k = nkey(var)
                rep.check("R2.9", "%s:%s:%s" % (tyname, side, var), k in sp and sp[k] == val,
                          "%s %s-side discriminant of %s is %d, spec %s_%s is %s" % (tyname, side, var, val, sid, var.upper(), sp.get(k)),
                          ctx.loc(ent, it["ln"]), sample={"type": tyname, "side": side, "variant": var, "value": val})
            rep.check("R2.9", "%s:%s:complete" % (tyname, side), sorted(table.values()) == sorted(sp.values()),
                      "%s %s-side discriminants %s vs spec %s" % (tyname, side, sorted(table.values()), sorted(sp.values())), ctx.loc(ent, it["ln"]))
    rep.floor("R2.9", 4 + 2 * 11 + 2 * 7)
    # SMALL time units: the factor the reader applies to UVal inside Duration::from_millis, per variant - from the reader's
    # decision table on MIR (module helpers inlined), evaluated for two probe values of UVal
    import tabeval
    from mirq import inline_calls
    rn = "<insim::insim::small::SmallType as binrw::binread::BinRead>::read_options"
    rb = ctx.mir.body(rn)
    ms = ctx.ast.method("SmallType", "read_options", trait="BinRead")
    if rb is not None and ms:
        ent, it = ms[0]
        rb = inline_calls(rb, lambda d: d.startswith("insim::insim::small::") and "{closure" not in d, depth=3)
        probe = [7]

        def leaf(o, m):
            if o[0] == "field" and o[1][0] == "downcast" and o[1][1][0] == "call" and (o[1][1][1] or "").endswith("Try::branch"):
                return probe[0]
            return None
        model = tabeval.Model(ctx, rb, None, local_prefix="insim::insim::small::", extra_leaf=leaf)
        seen = {}
        for r in rb.decision_rows():
            ret = r[1]
            if ret[1] != "Ok" or not ret[3]:
                continue
            p0 = ret[3][0]
            if not (p0[0] == "agg" and p0[1][0] == "adt" and str(p0[1][1]).endswith("SmallType") and p0[2]):
                continue
            var = p0[1][3]
            a = p0[2][0]
            if var.upper() not in spec.smallunit:
                continue
            scale = None
            if a[0] == "call" and (a[1] or "").endswith("Duration::from_millis"):
                try:
                    vals = []
                    for pv in (7, 1000003):
                        probe[0] = pv
                        model.ev.reset()
                        vals.append(model.ev.ev(a[3][0]))
                    if all(isinstance(v, int) for v in vals) and vals[0] % 7 == 0 and vals[1] == (vals[0] // 7) * 1000003:
                        scale = vals[0] // 7
                except (tabeval.Unknown, tabeval.Panic):
                    scale = None
            unit = spec.smallunit[var.upper()]
            want = {"ms": 1, "cs": 10}[unit.rstrip("?")]
            seen.setdefault(var, set()).add(scale)
        for var, scales in sorted(seen.items()):
            unit = spec.smallunit[var.upper()]
            want = {"ms": 1, "cs": 10}[unit.rstrip("?")]
            rep.check("R2.8", "SmallType::%s:read-unit" % var, scales == {want},
                      "SMALL_%s value unit: reader builds the duration as from_millis(UVal * %s), spec unit %s" % (var.upper(), sorted(scales, key=str), unit),
                      ctx.loc(ent, it["ln"]), sample={"variant": var, "scale": sorted(scales, key=str)})
    rep.floor("R2.8", 5)


def variant_of(b):
    """`Self::X`, `Self::X(..)`, `Self::X{..}` -> X"""
    if b["k"] == "Path" and b["path"].startswith("Self::"):
        return b["path"].split("::")[-1]
    if b["k"] == "Call" and b["func"]["k"] == "Path" and b["func"]["path"].startswith("Self::"):
        return b["func"]["path"].split("::")[-1]
    if b["k"] == "Struct" and b["path"].startswith("Self::"):
        return b["path"].split("::")[-1]
    return None
