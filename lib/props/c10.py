"""C10 — codepage conversion: table, API and totality clauses."""
import tables
from astq import find_nodes
from mirq import callee

EXPLANATION = (
    "Decides the table and API clauses: the marker letter -> encoding_rs static table of as_lfs_codepage equals LFS's assignment "
    "(L/8 1252, G 1253, C 1251, E 1250, T 1254, B 1257, J 932, S 936, K 949, H 950); is_lfs_codepage's letter set, the encoder's "
    "search list and the default marker agree with that table's domain; ^8 is the only propagated marker; every decode call "
    "resolved in MIR is Encoding::decode_without_bom_handling* (Encoding::decode / decode_with_bom_removal sniff a byte-order "
    "mark and switch a segment to UTF-8/UTF-16); panic-site inventory of both conversions. Not decided: faithfulness for every "
    "string, '?' substitution leaving neighbours intact (value level)."
)

# LFS codepage -> the WHATWG encoding that encoding_rs offers for it
LFS = {"L": "WINDOWS_1252", "8": "WINDOWS_1252", "G": "WINDOWS_1253", "C": "WINDOWS_1251", "E": "WINDOWS_1250",
       "T": "WINDOWS_1254", "B": "WINDOWS_1257", "J": "SHIFT_JIS", "S": "GBK", "K": "EUC_KR", "H": "BIG5"}
CP = {"WINDOWS_1252": 1252, "WINDOWS_1253": 1253, "WINDOWS_1251": 1251, "WINDOWS_1250": 1250, "WINDOWS_1254": 1254,
      "WINDOWS_1257": 1257, "SHIFT_JIS": 932, "GBK": 936, "EUC_KR": 949, "BIG5": 950}


def run(ctx, rep):
    rep.explanation = EXPLANATION
    rep.assumptions = ["encoding_rs statics implement the WHATWG encodings of their names (windows-125x, Shift_JIS=cp932, GBK=cp936, EUC-KR=cp949, Big5=cp950)"]
    ms = [m for m in ctx.ast.method("char", "as_lfs_codepage", crate="insim_core")]
    if len(ms) != 1:
        rep.fail("R10.1", "as_lfs_codepage:found", "impl Codepage for char::as_lfs_codepage not found (%d)" % len(ms))
        return
    e, it = ms[0]
    rep.fn("<char as insim_core::string::codepages::Codepage>::as_lfs_codepage")
    mt = tables.first_match(it["body"])
    table = {}
    for (p, b, g, ln) in tables.rows(mt["arms"]) if mt else []:
        if p[0] == "lit":
            enc = b[2][0][1].split("::")[-1] if b[0] == "call" and b[1] == "Some" and b[2] and b[2][0][0] == "path" else None
            table[p[1]] = (enc, ln)
        elif p[0] == "wild":
            rep.check("R10.1", "other:none", b == ("path", "None"), "non-marker letters must map to None", ctx.loc(e, ln), nontrivial=False)
    for letter, want in sorted(LFS.items()):
        got = table.get(letter, (None, None))
        rep.check("R10.1", "marker:%s" % letter, got[0] == want,
                  "^%s must select codepage %d (encoding_rs::%s); the table has %s" % (letter, CP[want], want, got[0]), ctx.loc(e, got[1] or it["ln"]),
                  sample={"marker": letter, "encoding": got[0], "lfs_codepage": CP[want]})
    rep.check("R10.1", "domain", set(table) == set(LFS), "marker set %s differs from LFS's %s" % (sorted(table), sorted(LFS)), ctx.loc(e, it["ln"]))
    rep.floor("R10.1", 12)
    # ---- R10.2 sibling tables
    ms = ctx.ast.method("char", "is_lfs_codepage", crate="insim_core")
    if len(ms) == 1:
        st = tables.matches_set(ms[0][1]["body"])
        letters = {x[1] for x in st[0] if x[0] == "lit"} if st else set()
        rep.check("R10.2", "is_lfs_codepage", letters == set(LFS), "is_lfs_codepage accepts %s, table domain is %s" % (sorted(letters), sorted(LFS)), ctx.loc(ms[0][0], ms[0][1]["ln"]),
                  sample={"letters": sorted(letters)})
    else:
        rep.fail("R10.2", "is_lfs_codepage", "not found")
    cs = ctx.ast.const("VALID_CODEPAGES_FOR_ENCODING", crate="insim_core")
    if len(cs) == 1:
        v = cs[0][3]["value"]
        letters = [x["v"] for x in v.get("elems", []) if x.get("t") == "char"]
        rep.check("R10.2", "VALID_CODEPAGES_FOR_ENCODING", sorted(letters) == sorted(set(LFS) - {"8"}) and len(letters) == 10,
                  "encoder search list %s must be the ten letters" % letters, ctx.loc(cs[0]), sample={"letters": letters})
    else:
        rep.fail("R10.2", "VALID_CODEPAGES_FOR_ENCODING", "not found")
    cs = ctx.ast.const("DEFAULT_CODEPAGE", crate="insim_core")
    if len(cs) == 1:
        v = cs[0][3]["value"]
        rep.check("R10.2", "DEFAULT_CODEPAGE", v.get("t") == "char" and v["v"] == "L", "default marker must be 'L' (Latin-1), found %s" % v.get("v"), ctx.loc(cs[0]))
    else:
        rep.fail("R10.2", "DEFAULT_CODEPAGE", "not found")
    # ---- R10.4 only ^8 is propagated
    ms = ctx.ast.method("char", "propagate_lfs_codepage", crate="insim_core")
    if len(ms) == 1:
        b = ms[0][1]["body"]
        eq = find_nodes(b, lambda n: n.get("k") == "Binary" and n["op"] == "==")
        ok = len(eq) == 1 and eq[0]["rhs"].get("v") == "8" and eq[0]["lhs"].get("path") == "self"
        rep.check("R10.4", "propagate", ok, "only ^8 is kept in the decoded text", ctx.loc(ms[0][0], ms[0][1]["ln"]))
    else:
        rep.fail("R10.4", "propagate", "propagate_lfs_codepage not found")
    # ---- R10.3 decode API (MIR, resolved callees) over the whole insim_core crate
    n_dec = 0
    for name in ctx.mir.bodies:
        if not name.startswith("insim_core::") and not name.startswith("<insim_core::"):
            if "insim_core" not in name.split(" as ")[0]:
                continue
        b = ctx.mir.body(name)
        for bb, t in b.calls():
            d, rd, ga, fn = callee(t)
            if d and d.startswith("encoding_rs::Encoding::decode"):
                n_dec += 1
                ordinal = len([1 for i in rep.instances if i["key"].startswith("R10.3:%s:" % name)])
                rep.check("R10.3", "%s:%s:%d" % (name, d.split("::")[-1], ordinal), "without_bom_handling" in d,
                          "%s calls %s, which sniffs a byte-order mark: a segment starting EF BB BF / FF FE / FE FF is decoded as UTF-8/UTF-16 instead of its codepage" % (name, d),
                          b.loc(t["line"]), sample={"function": name, "callee": d})
                rep.fn(name)
    rep.floor("R10.3", 2)
    marker_discipline(ctx, rep)
    marker_scan(ctx, rep)
    # R10.5 both conversions are total: panic-site inventory
    import panics
    panics.check_paths(ctx, rep, "R10.5", ["insim_core::string::codepages::to_lossy_bytes", "insim_core::string::codepages::to_lossy_string"], label="codepage conversion")
    rep.floor("R10.5", 5)


SCAN = "insim_core::string::codepages::to_lossy_string"


def marker_scan(ctx, rep):
    """R10.7: the decoder recognises a marker wherever the encoder can put one.  The encoder emits `^X` context-free (R10.6:
    whenever the active codepage changes, whatever precedes it - an escaped caret included), so the decoder's recognition must be
    context-free too: (a) no closure handed to a selecting adaptor of the scan (positions / filter / take_while /
    retain ...) captures the input (it sees the bytes it is handed only - a test that looks back at `input[pos - 1]` has to
    capture `input`); (b) the position predicate, evaluated as a
    table over (byte, next byte), is true exactly for a caret followed by one of LFS's marker letters."""
    import tabeval
    b = ctx.mir.body(SCAN)
    if b is None:
        rep.fail("R10.7", "found", "to_lossy_string not found")
        return
    rep.fn(SCAN)
    from mirq import inline_calls
    modp = "insim_core::string::codepages::"
    b = inline_calls(b, lambda d: d.startswith(modp) and "{closure" not in d and d.count("::") == modp.count("::") and not d.endswith(("to_lossy_bytes", "to_lossy_string")), depth=3)
    clos = []
    for bl in b.blocks:
        for st in bl["stmts"]:
            if st["k"] == "assign" and st["rv"]["k"] == "agg" and st["rv"].get("agg") == "closure":
                clos.append((st["rv"].get("def") or st["rv"].get("closure") or "", st["rv"]["ops"], st.get("line")))
    n = 0
    SELECT = r"::(positions|position|rposition|filter|filter_map|take_while|skip_while|map_while|retain|retain_mut|dedup_by|dedup_by_key|find|find_map|skip|step_by)$"
    import re as _re
    for bb, t in b.calls():
        if not _re.search(SELECT, callee(t)[0] or ""):
            continue          # only the calls that select which positions count as markers
        for a in t["args"]:
            o = b.origin(a)
            if o[0] == "agg" and o[1][0] == "closure":
                n += 1
                caps = [x for x in o[2] if "('arg', 1)" in str(x)]
                rep.check("R10.7", "closure:%s:input-not-captured" % o[1][1].split("::")[-1], not caps,
                          "closure %s of to_lossy_string captures the input (%s): recognition of a marker must depend on the bytes the closure is handed only, "
                          "because the encoder emits markers regardless of what precedes them" % (o[1][1].split("::")[-1], ", ".join(fmt_o(x) for x in caps)[:120]),
                          b.loc(t["line"]), sample={"closure": o[1][1], "captures": len(o[2])})
    pos = [(bb, t) for bb, t in b.calls_to(r"Itertools::positions$|Iterator::position$|Iterator::filter$|Iterator::filter_map$")
           if len(t["args"]) > 1 and b.origin(t["args"][1])[0] == "agg"]
    pred = None
    for bb, t in pos:
        o = b.origin(t["args"][1])
        cb = ctx.mir.body(o[1][1])
        if cb is not None and any((callee(tt)[0] or "").endswith(("is_lfs_codepage", "as_lfs_codepage")) for _b, tt in cb.calls()):
            pred = o[1][1]
    if pred is None:
        rep.fail("R10.7", "predicate:found", "the closure that recognises `^` + codepage letter in to_lossy_string was not found", b.loc())
        return
    rep.fn(pred)
    m = tabeval.Model(ctx, ctx.mir.body(pred), None, local_prefix="insim_core::string::")
    want_letters = {ord(c) for c in LFS}
    bad = None
    try:
        for e in (0x5E, 0x5D, 0x5F, 0x00, 0x41, 0x4C, 0x38, 0xFF):
            for nx in range(256):
                v = m.eval_body(pred, {1: ("tup", ()), 2: ("tup", (e, nx))})
                want = 1 if (e == 0x5E and nx in want_letters) else 0
                if (1 if v else 0) != want and bad is None:
                    bad = "bytes (0x%02X, 0x%02X) are %s as a marker" % (e, nx, "recognised" if v else "not recognised")
    except (tabeval.Unknown, tabeval.Panic) as ex:
        rep.fail("R10.7", "predicate:table", "the marker predicate could not be evaluated as a table (%s)" % ex, b.loc())
        return
    rep.check("R10.7", "predicate:table", bad is None, "a marker is a caret followed by one of %s: %s" % ("".join(sorted(LFS)), bad), b.loc(),
              sample={"pairs_evaluated": 8 * 256})
    rep.floor("R10.7", 2)


def fmt_o(o):
    from mirq import fmt_origin
    return fmt_origin(o)


def marker_discipline(ctx, rep):
    """R10.6: the encoder's notion of the active codepage changes only together with emitting the marker `^X` for
    that same X (the decoder switches only at markers, so any silent change desynchronises the two)"""
    from mirq import fmt_origin, origin_calls
    b = ctx.mir.body("insim_core::string::codepages::to_lossy_bytes")
    if b is None:
        rep.fail("R10.6", "found", "to_lossy_bytes not found")
        return
    rep.fn(b.name)
    state = [i for i, l in enumerate(b.locals) if l["ty"] == "&encoding_rs::Encoding" and len(b.defs().get(i, [])) > 1]
    ctrl = [i for i, l in enumerate(b.locals) if l["ty"] == "char" and l.get("name") and len(b.defs().get(i, [])) > 1 and "control" in (l["name"] or "")]
    if not state:
        # the state may be a small struct that pairs the identifier with its table (`struct Active { control, encoding }`)
        if struct_state(ctx, rep, b):
            return
    rep.check("R10.6", "state-locals", len(state) == 1, "expected one mutable `&Encoding` state variable in to_lossy_bytes (found %d)" % len(state), b.loc(), nontrivial=False)
    if len(state) != 1:
        return
    heads = b.loop_heads()
    pushes = b.calls_to(r"Vec::<T(, A)?>::push$")
    n = 0
    for loc_ in state + ctrl:
        for d in b.defs().get(loc_, []):
            bb = d[1]
            if not any(b.dominates(h, bb) for h in heads):
                continue       # initialisation before the loop
            n += 1
            doms = [(pb, pt) for pb, pt in pushes if b.dominates(pb, bb) and any(b.dominates(h, pb) for h in heads)]
            caret = [x for x in doms if b.origin(x[1]["args"][1])[0] == "call" and b.origin(x[1]["args"][1])[1].endswith("lfs_control_char")]
            letter = [x for x in doms if b.origin(x[1]["args"][1])[0] == "cast"]
            ok = len(caret) >= 1 and len(letter) >= 1
            detail = "the active codepage is changed without emitting a `^X` marker first"
            if ok:
                # the pushed letter and the new state derive from the same candidate
                lo = b.origin(letter[-1][1]["args"][1])[4]
                if d[0] == "stmt" and d[3]["rv"]["k"] == "use":
                    so = b.origin(d[3]["rv"]["x"])
                elif d[0] == "call":
                    so = ("call", callee(d[2])[0], None, [b.origin(a) for a in d[2]["args"]], d[1], [])
                else:
                    so = ("rv",)
                same = fmt_origin(lo) in fmt_origin(so) or lo == so or any(fmt_origin(lo) == fmt_origin(a) for c in origin_calls(so) for a in c[3]) or _mentions(so, lo)
                if not same:
                    same = _paired_by_producer(ctx, lo, so)
                ok = same
                detail = "the marker letter written (%s) is not the codepage being switched to (%s)" % (fmt_origin(lo), fmt_origin(so))
            ordn = len([1 for i in rep.instances if i["key"].startswith("R10.6:switch:%s:" % (b.locals[loc_].get("name") or loc_))])
            rep.check("R10.6", "switch:%s:%d" % (b.locals[loc_].get("name") or loc_, ordn), ok, "to_lossy_bytes: " + detail, b.loc(d[3]["line"] if d[0] == "stmt" else d[2]["line"]),
                      sample={"state": b.locals[loc_].get("name"), "block": bb})
    rep.floor("R10.6", 2)


def struct_state(ctx, rep, b):
    """R10.6 when the encoder keeps its state in one struct value: (1) every construction of that struct in the workspace stores
    `c.as_lfs_codepage()` of the very `c` it stores as the identifier, so identifier and table cannot disagree; (2) every in-loop
    assignment to the state is dominated by a push of the caret and a push of a byte derived from the value being assigned."""
    from mirq import fmt_origin, strip_refs
    cands = []
    for i, l in enumerate(b.locals):
        st = ctx.mir.structs.get(l["ty"])
        if st and any("encoding_rs::Encoding" in f["ty"] for f in st["fields"]) and any(f["ty"] in ("char", "u8") for f in st["fields"]) and len(b.defs().get(i, [])) > 1:
            cands.append(i)
    if len(cands) != 1:
        return False
    loc_ = cands[0]
    ty = b.locals[loc_]["ty"]
    fields = ctx.mir.structs[ty]["fields"]
    fi_enc = next(i for i, f in enumerate(fields) if "encoding_rs::Encoding" in f["ty"])
    fi_ctl = next(i for i, f in enumerate(fields) if f["ty"] in ("char", "u8"))
    # (1) constructions
    built = 0
    ok1 = True
    for name in sorted(ctx.mir.bodies):
        if name.endswith("#promoted") or not name.startswith("insim_core::string::"):
            continue
        fb = ctx.mir.body(name)
        if fb is None:
            continue
        for bl in fb.blocks:
            for st_ in bl["stmts"]:
                if st_["k"] == "assign" and st_["rv"]["k"] == "agg" and st_["rv"].get("adt") == ty:
                    built += 1
                    oc = strip_refs(fb.origin(st_["rv"]["ops"][fi_ctl]))
                    oe = fb.origin(st_["rv"]["ops"][fi_enc])
                    calls = [c for c in fb.may_calls(oe) if (c[1] or "").endswith("as_lfs_codepage")]
                    good = bool(calls)
                    for c in calls:
                        a = strip_refs(c[3][0]) if c[3] else None
                        while a is not None and a[0] == "deref":
                            a = strip_refs(a[1])
                        good = good and a == oc
                    ok1 = ok1 and good
    rep.check("R10.6", "state:%s:paired" % ty.split("::")[-1], built >= 1 and ok1,
              "every construction of %s must store `c.as_lfs_codepage()` of the `c` it stores as the identifier (%d constructions)" % (ty, built), b.loc(),
              sample={"state_type": ty, "constructions": built})
    # (2) in-loop switches
    heads = b.loop_heads()
    pushes = b.calls_to(r"Vec::<T(, A)?>::push$")
    n = 0
    for d in b.defs().get(loc_, []):
        bb = d[1]
        if not any(b.dominates(h, bb) for h in heads):
            continue
        if d[0] == "stmt" and d[3]["place"]["p"]:
            rep.fail("R10.6", "switch:field-store", "a single field of the encoder's state is assigned: identifier and table can disagree", b.loc(d[3]["line"]))
            continue
        so = b.origin(d[3]["rv"]["x"]) if d[0] == "stmt" and d[3]["rv"]["k"] == "use" else (("call", callee(d[2])[0], None, [b.origin(a) for a in d[2]["args"]], d[1], []) if d[0] == "call" else ("rv",))
        doms = [(pb, pt) for pb, pt in pushes if b.dominates(pb, bb) and any(b.dominates(h, pb) for h in heads)]
        caret = [x for x in doms if b.origin(x[1]["args"][1])[0] == "call" and b.origin(x[1]["args"][1])[1].endswith("lfs_control_char")]
        letter = [x for x in doms if b.origin(x[1]["args"][1])[0] == "cast"]
        ok = bool(caret) and bool(letter)
        detail = "the active codepage is changed without emitting a `^X` marker first"
        if ok:
            lo = strip_refs(b.origin(letter[-1][1]["args"][1])[4])
            base = lo[1] if lo[0] == "field" else lo
            ok = _mentions(so, strip_refs(base)) or strip_refs(base) == strip_refs(so) or fmt_origin(strip_refs(base)) in fmt_origin(so)
            detail = "the marker letter written (%s) is not taken from the state being switched to (%s)" % (fmt_origin(lo), fmt_origin(so))
        rep.check("R10.6", "switch:%s:%d" % (b.locals[loc_].get("name") or loc_, n), ok, "to_lossy_bytes: " + detail, b.loc(d[3]["line"] if d[0] == "stmt" else d[2]["line"]),
                  sample={"state": b.locals[loc_].get("name"), "block": bb})
        n += 1
    rep.check("R10.6", "state-locals", True, "", b.loc(), nontrivial=False, sample={"state": "struct %s" % ty})
    rep.floor("R10.6", 2)
    return True


def _paired_by_producer(ctx, lo, so):
    """letter and encoding are two fields of one tuple returned by a workspace helper: the pairing is established where that
    tuple is built - in the helper (or a closure of it) every tuple of that arity holds `x.as_lfs_codepage()` of the very `x`
    it holds as the letter"""
    from mirq import strip_refs, callee as _callee

    def split(o):
        o = strip_refs(o)
        while o[0] == "deref":
            o = strip_refs(o[1])
        if o[0] == "field" and isinstance(o[2], int):
            return strip_refs(o[1]), o[2]
        return None, None
    xl, il = split(lo)
    xs, i_s = split(so)
    if xl is None or xs is None or xl != xs or il == i_s:
        return False
    x = xl
    if not (x[0] == "field" and x[1][0] == "downcast" and x[1][3] == "Some" and x[1][1][0] == "call"):
        return False
    f = x[1][1][2] or x[1][1][1]
    if f and ctx.mir.body(f) is None and (x[1][1][1] or "").endswith(("Iterator::find_map", "Iterator::filter_map")):
        # the tuple is what a closure handed to find_map returns: that closure is the producer
        clo = [a for a in x[1][1][3] if isinstance(a, tuple) and a and a[0] == "agg" and a[1][0] == "closure"]
        f = clo[0][1][1] if len(clo) == 1 else None
    if not f or ctx.mir.body(f) is None:
        return False
    found = 0
    for name in sorted(ctx.mir.bodies):
        if not (name == f or name.startswith(f + "::{closure")) or name.endswith("#promoted"):
            continue
        fb = ctx.mir.body(name)
        for bl in fb.blocks:
            for st in bl["stmts"]:
                if st["k"] == "assign" and st["rv"]["k"] == "agg" and st["rv"].get("agg") == "tuple" and len(st["rv"]["ops"]) > max(il, i_s):
                    ol = strip_refs(fb.origin(st["rv"]["ops"][il]))
                    while ol[0] == "deref":
                        ol = strip_refs(ol[1])
                    os_ = fb.origin(st["rv"]["ops"][i_s])
                    calls = [c for c in fb.may_calls(os_) if (c[1] or "").endswith("as_lfs_codepage")]
                    if not calls:
                        continue          # a tuple of something else
                    found += 1
                    for c in calls:
                        a = strip_refs(c[3][0]) if c[3] else None
                        while a is not None and a[0] == "deref":
                            a = strip_refs(a[1])
                        if a != ol:
                            return False
    return found >= 1


def _mentions(o, needle):
    if o == needle:
        return True
    if isinstance(o, (tuple, list)):
        return any(_mentions(x, needle) for x in o if isinstance(x, (tuple, list)))
    return False
