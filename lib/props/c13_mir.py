"""C13 reader: `Vehicle::read_options` as a decision table extracted from MIR, evaluated over a domain of 4-byte inputs
that covers every built-in name, the all-zero form and every class of the built-in-shape test - compared with the
specification: zeros -> Unknown; three ASCII alphanumerics + NUL -> that built-in car or an error; anything else -> Mod(le u32).
Independent of how the source arranges the tests (tuple match, early returns, helper function, named constants)."""
import re

import tabeval
from mirq import inline_calls, strip_refs

READ = "<insim_core::vehicle::Vehicle as binrw::binread::BinRead>::read_options"


def Model(ctx, body, base):
    return tabeval.Model(ctx, body, base, local_prefix="insim_core::vehicle::")


def pick_body(ctx):
    """the body (read_options or one of its closures, helpers inlined) that looks at the individual bytes"""
    best = None
    for n in sorted(k for k in ctx.mir.bodies if k == READ or k.startswith(READ + "::{closure#")):
        if n.endswith("#promoted"):
            continue
        b = ctx.mir.body(n)
        if b is None:
            continue
        b = inline_calls(b, lambda d: d.startswith("insim_core::vehicle::") and "{closure" not in d and not d.endswith("read_options"), depth=3)
        from mirq import expand_adaptors
        b = expand_adaptors(b)          # `.ok_or(err)` / `.map(..)` spell a match
        try:
            rows = b.decision_rows()
        except Exception:
            continue
        bases = {}
        for r in rows:
            for c in r[0]:
                for node in walk(c[4]):
                    if node[0] in ("cindex", "index"):
                        x = strip_refs(node[1])
                        bases[x] = bases.get(x, 0) + 1
        if bases:
            base, cnt = max(bases.items(), key=lambda kv: kv[1])
            if best is None or cnt > best[3]:
                best = (b, rows, base, cnt)
    return best


def walk(o):
    if isinstance(o, tuple):
        if o and isinstance(o[0], str):
            yield o
        for x in o:
            if isinstance(x, (tuple, list)):
                for y in walk(x):
                    yield y
    elif isinstance(o, list):
        for x in o:
            for y in walk(x):
                yield y


def domain(names):
    """inputs: every built-in name + NUL, zeros, and a grid over the classes the shape test distinguishes"""
    out = [tuple(n.encode()) + (0,) for n in names] + [(0, 0, 0, 0)]
    cls = [0x30, 0x39, 0x41, 0x5A, 0x61, 0x7A, 0x2F, 0x3A, 0x40, 0x5B, 0x60, 0x7B, 0x20, 0x2D, 0x00, 0x01, 0x7F, 0x80, 0xAA, 0xFF]
    for a in cls:
        for b in (0x41, 0x30, 0x7A, 0x2D, 0x00, 0x80):
            for c in (0x42, 0x39, 0x5F, 0x00, 0xFF):
                for d in (0, 1, 0x41, 0xFF):
                    out.append((a, b, c, d))
                    out.append((b, a, c, d))
                    out.append((b, c, a, d))
    # near misses of real names
    for n in names[:6]:
        e = tuple(n.encode())
        out += [e + (1,), (e[0] | 0x20, e[1], e[2], 0), (e[0], e[1], e[2] ^ 1, 0), (0,) + e[:3]]
    seen = set()
    res = []
    for x in out:
        if x not in seen:
            seen.add(x)
            res.append(x)
    return res


def spec(bs, by_name):
    if bs == (0, 0, 0, 0):
        return ("Ok", "Unknown", None)
    shape = all((48 <= v <= 57) or (65 <= v <= 90) or (97 <= v <= 122) for v in bs[:3]) and bs[3] == 0
    if shape:
        nm = bytes(bs[:3]).decode()
        if nm in by_name:
            return ("Ok", by_name[nm], None)
        return ("Err", None, None)
    return ("Ok", "Mod", int.from_bytes(bytes(bs), "little"))


def run(ctx, rep, display):
    """display: variant -> printed name (from the Display table).  Emits the R13.x reader instances."""
    pk = pick_body(ctx)
    if pk is None:
        rep.fail("R13.0", "read:table", "no body of Vehicle::read_options inspects the individual bytes (decision table not found)")
        return
    b, rows, base, _cnt = pk
    rep.fn(b.name.split("#")[0])
    by_name = {v: k for k, v in display.items()}
    m = Model(ctx, b, base)
    dom = domain(sorted(by_name))
    wrong = {"unknown": None, "builtin-catch-all": None, "predicate": None, "mod": None}
    per = {}
    undecided = None
    for bs in dom:
        m.bytes = bs
        m.ev.reset()
        try:
            ms = m.ev.matching_rows(rows)
            got = set()
            for r in ms:
                ret = r[1]
                if ret[1] == "use" and len(ret) > 3 and ret[3]:
                    # `_0 = <value built earlier on this path>` (after `?` on a nested Result): classify by that value
                    from mirq import simplify
                    x = simplify(ret[3][0])
                    if x[0] == "agg" and x[1][0] == "adt" and x[1][1] == "core::result::Result":
                        ret = ("ret", x[1][3], ret[2], tuple(x[2]))
                    elif x[0] == "call" and (x[1] or "").endswith("FromResidual::from_residual"):
                        ret = ("ret", "Err", ret[2], ())
                if ret[1] == "Err":
                    got.add(("Err", None, None))
                elif ret[1] == "Ok" and ret[3]:
                    p = ret[3][0]
                    if p[0] == "agg" and p[1][0] == "adt" and str(p[1][1]).endswith("vehicle::Vehicle"):
                        vn = p[1][3]
                        got.add(("Ok", vn, m.ev.ev(p[2][0]) if vn == "Mod" and p[2] else None))
                    else:
                        # the vehicle comes out of a lookup table (a named constant array searched with find / a helper)
                        v = m.ev.ev(p)
                        if isinstance(v, tuple) and v and v[0] == "enumv" and v[1] in ("Vehicle", "Self", ""):
                            got.add(("Ok", v[2], None))
                        else:
                            raise tabeval.Unknown("result %s" % (ret[2],))
                elif ret[1].startswith("call:") and "from_residual" in ret[1]:
                    got.add(("Err", None, None))
                else:
                    raise tabeval.Unknown("result kind %s" % ret[1])
        except tabeval.Unknown as e:
            undecided = "bytes %s: %s" % (list(bs), e)
            break
        except tabeval.Panic as e:
            got = {("panic", str(e), None)}
        want = spec(bs, by_name)
        if got != {want}:
            msg = "bytes %s decode as %s, expected %s" % (list(bs), sorted(got, key=str) or "nothing (every path traps)", want)
            if bs == (0, 0, 0, 0):
                wrong["unknown"] = wrong["unknown"] or msg
            elif want[1] in display:
                per.setdefault(want[1], msg)
            elif want[0] == "Err":
                wrong["builtin-catch-all"] = wrong["builtin-catch-all"] or msg
            elif any(g[0] == "Err" or (g[0] == "Ok" and g[1] != "Mod") for g in got):
                wrong["predicate"] = wrong["predicate"] or msg
            else:
                wrong["mod"] = wrong["mod"] or msg
    if undecided:
        rep.fail("R13.0", "read:table", "the reader's decision table could not be evaluated (%s)" % undecided, b.loc())
        return
    rep.check("R13.0", "read:table", True, "", b.loc(), sample={"rows": len(rows), "inputs_evaluated": len(dom)})
    rep.check("R13.1", "read:predicate", wrong["predicate"] is None, "only three ASCII alphanumerics + NUL may be treated as a built-in name: %s" % wrong["predicate"], b.loc(),
              sample={"inputs_evaluated": len(dom)})
    rep.check("R13.1", "read:unknown", wrong["unknown"] is None, "[0,0,0,0] must decode to Vehicle::Unknown: %s" % wrong["unknown"], b.loc())
    rep.check("R13.1", "read:builtin-catch-all", wrong["builtin-catch-all"] is None, "an unrecognised built-in-shaped name must be an error: %s" % wrong["builtin-catch-all"], b.loc())
    rep.check("R13.2", "read:mod", wrong["mod"] is None, "anything else must decode as Vehicle::Mod(u32::from_le_bytes(bytes)): %s" % wrong["mod"], b.loc())
    for v in sorted(display):
        rep.check("R13.1", "%s:read-inverse" % v, v not in per, per.get(v, ""), b.loc(), sample={"variant": v, "wire": list(display[v].encode()) + [0]})
