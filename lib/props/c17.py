"""C17 — PTH / SMX files: structure clauses.

R17.1/R17.2 declared symmetry and count<->calc pairing of every #[binrw] struct of insim_pth / insim_smx
R17.3 file roots: magic (6 bytes) and little-endian on both sides; no lenient directive (try/default/if/until_eof/
      restore_position) anywhere, so a declared element that cannot be read is an error, never a shorter file
R17.4 (MIR) entry points Pth::from_file/from_pathbuf, Smx::from_file/from_pathbuf reach the generated reader and
      propagate its error; no allocation sized by a wire value and no panic site in workspace code on the parse path
"""
from astq import attr_directives
from props import symmetry
from props.packets import norm, show

EXPLANATION = (
    "Structure rules over the #[binrw] declarations of insim_pth and insim_smx: read/write directive symmetry per field, "
    "br(count = n) paired with bw(calc = <same vec>.len() as i32), every calculated count declared as the format's i32 with no "
    "padding behind it (roots and nested records), 6-byte magic and little-endian on both sides of the file "
    "roots, absence of lenient directives (try, default, if, restore_position, until_eof), and a MIR inventory of the parse "
    "entry points (error propagated, no workspace allocation sized by a wire value, no panic site). Not decided: byte-identical "
    "rewrite of a canonical file, binrw's own allocation policy for counted vectors."
)

ROOTS = {"insim_pth": ("Pth", b"LFSPTH"), "insim_smx": ("Smx", b"LFSSMX")}


def run(ctx, rep):
    rep.explanation = EXPLANATION
    rep.assumptions = ["binrw reads counted vectors element by element with a checked count conversion and errors on short input"]
    structs = symmetry.binrw_structs(ctx, ("insim_pth", "insim_smx"))
    for (crate, modpath, file, it) in structs:
        rep.fn("%s::%s" % (modpath, it["name"]))
        lay = symmetry.check_struct(ctx, rep, "R17", it["name"], modhint=modpath, prefix=crate + "::")
        # lenient directives anywhere
        for f in it["fields"]:
            for d in attr_directives(f, ("brw", "br", "bw")):
                if d["key"] in ("try", "default", "if", "restore_position", "ignore", "offset", "seek_before"):
                    rep.fail("R17.3", "%s::%s.%s:%s" % (crate, it["name"], f["name"], d["key"]),
                             "lenient directive `%s`: a short or hostile file could be accepted as a shorter one" % d["raw"], ctx.loc((crate, modpath, file, f)))
                if d["key"] == "parse_with" and "until_eof" in d["raw"]:
                    rep.fail("R17.3", "%s::%s.%s:until_eof" % (crate, it["name"], f["name"]), "until-EOF parser in a counted file format", ctx.loc((crate, modpath, file, f)))
            rep.check("R17.3", "%s::%s.%s:strict" % (crate, it["name"], f["name"]), True, "", None, nontrivial=False)
    rep.floor("R17.1", 30)
    rep.floor("R17.2", 5)
    for crate, (root, magic) in ROOTS.items():
        ent = ctx.ast.one(root, kinds=("Struct",), crate=crate)
        if ent is None:
            rep.fail("R17.3", "%s::%s:found" % (crate, root), "file root struct not found")
            continue
        ds = attr_directives(ent[3], ("brw", "br", "bw"))
        m = [d for d in ds if d["key"] == "magic"]
        l = [d for d in ds if d["key"] == "little"]
        okm = len(m) == 1 and m[0]["attr"] == "brw" and m[0]["value"].get("t") == "bytestr" and bytes(m[0]["value"]["v"]) == magic
        rep.check("R17.3", "%s::%s:magic" % (crate, root), okm, "file root must carry magic %r on both sides; found %s" % (magic, [d["raw"] for d in m]), ctx.loc(ent),
                  sample={"root": root, "magic": [d["raw"] for d in m]})
        okl = len(l) == 1 and l[0]["attr"] == "brw" and not [d for d in ds if d["key"] == "big"]
        rep.check("R17.3", "%s::%s:little" % (crate, root), okl, "file root must be little-endian on both sides; found %s" % [d["raw"] for d in ds], ctx.loc(ent))
        lay = ctx.wire.layout(root, None, crate)
        r, w = norm(lay["read"], "read", ctx.wire), norm(lay["write"], "write", ctx.wire)
        rep.check("R17.3", "%s::%s:shape" % (crate, root), [(x[1], x[2]) for x in r] == [(x[1], x[2]) for x in w],
                  "root read shape %s vs write shape %s" % (show(r), show(w)), ctx.loc(ent), sample={"root": root, "shape": show(r)})
    # counts are the 4-byte signed integers of the file format - in the roots and in every nested record (Object, ...), with
    # nothing inserted between a count and the next field
    ncounts = 0
    for (crate, modpath, file, it) in structs:
        lay = ctx.wire.layout(it["name"], None, crate)
        if not lay:
            continue
        for fi in lay["fields"]:
            if "calc" in fi["dirs"]["write"]:
                ncounts += 1
                pads = [k for side in ("read", "write") for k in fi["dirs"][side] if k.startswith("pad_") or k.startswith("align_")]
                rep.check("R17.3", "%s::%s.%s:count-type" % (crate, it["name"], fi["name"]), fi["ty"]["text"] == "i32" and not pads,
                          "count %s is `%s`%s: the format stores every count as a 4-byte signed int, so a larger declared count would be read as a smaller one"
                          % (fi["name"], fi["ty"]["text"], " with " + ",".join(sorted(set(pads))) if pads else ""), ctx.loc((crate, modpath, file, it), fi["ln"]),
                          sample={"struct": it["name"], "count": fi["name"], "type": fi["ty"]["text"]})
    rep.check("R17.3", "count-type:anchors", ncounts >= 5, "expected at least 5 calculated count fields in insim_pth/insim_smx, found %d" % ncounts, None, nontrivial=False)
    # endianness overrides elsewhere
    for (crate, modpath, file, it) in structs:
        for node, suffix in [(it, "")] + [(f, "." + f["name"]) for f in it["fields"]]:
            for d in attr_directives(node, ("brw", "br", "bw")):
                if d["key"] in ("big", "is_big", "is_little") or (d["key"] == "little" and it["name"] not in [r for r, _ in ROOTS.values()]):
                    rep.fail("R17.3", "%s::%s%s:%s" % (crate, it["name"], suffix, d["key"]), "endianness override `%s`" % d["raw"], ctx.loc((crate, modpath, file, node)))
    for (where, what) in sorted(set(ctx.wire.undecidable)):
        rep.fail("R17.0", "undecidable:%s:%s" % (where, what), "wire model could not decide: %s at %s" % (what, where))
    try:
        from props import c17_mir
        c17_mir.run(ctx, rep)
    except ImportError:
        pass
