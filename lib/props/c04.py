"""C04 — decoding untrusted bytes is total, bounded and always progresses."""
import re

import absint
import panics
from mirq import callee, fmt_origin, origin_calls, strip_refs
from props.c03_mir import summaries

EXPLANATION = (
    "R4.1 Mode::decode_length analysed per Mode variant with the interval domain: `Some(n)` is returned only with n in "
    "[4, max_length(mode)] and only on a path whose conditions include `not (src.len() < n)`; n is first*1 / first*4; src is a "
    "shared reference (a need-more-data or error return cannot modify the buffer). R4.2 Codec::decode: split_to receives exactly "
    "the Some payload of decode_length applied to the same buffer, dominates Packet::read, the reader is a cursor over the split-off "
    "frame (never over src), advance(1) acts on that frame, src is mutated by nothing else and not at all on the Ok(None) paths; "
    "these two rules discharge the preconditions of split_to and advance. R4.3 panic-site inventory (asserts, panics, unwraps, "
    "dependency preconditions) over everything reachable in workspace code from Codec::decode and Packet's reader through all 73 "
    "generated BinRead impls, hand-written readers, helper parsers, Vehicle, Track, GameVersion::from_str, to_lossy_string: each "
    "site is discharged by intervals/structure, reviewed in tables/panic_sites.json, or reported. R4.4 is implied by R4.3 "
    "(a diverging arm of a byte->enum conversion is a panic site). Not decided: binrw's and encoding_rs's own totality."
)


def run(ctx, rep):
    rep.explanation = EXPLANATION
    rep.assumptions = ["binrw reads counts through checked conversions and element by element; encoding_rs never panics",
                       "dependency functions outside spec'd panicky list do not panic on any input"]
    decode_length(ctx, rep)
    decode(ctx, rep)
    inventory(ctx, rep)


def decode_length(ctx, rep):
    mir = ctx.mir
    b = mir.body("insim::net::mode::Mode::decode_length")
    mode = mir.enums.get("insim::net::mode::Mode")
    if b is None or mode is None:
        rep.fail("R4.1", "anchors", "Mode::decode_length not found")
        return
    rep.fn(b.name)
    # private helpers of the same module (size-byte scaling, error constructors, ...) are analysed in place
    from mirq import inline_calls
    ib = inline_calls(b, lambda d: d.startswith("insim::net::mode::") and not d.endswith("::max_length") and "{closure" not in d, depth=3)
    if ib is not b:
        rep.notes.append("R4.1: private helper(s) of insim::net::mode inlined into decode_length")
        b = ib
    rep.check("R4.1", "src-shared", b.locals[2]["ty"].startswith("&") and not b.locals[2]["ty"].startswith("&mut") and "mut " not in b.locals[2]["ty"][:14],
              "decode_length must take the buffer by shared reference (found %s)" % b.locals[2]["ty"], b.loc(), sample={"src_type": b.locals[2]["ty"]})
    summ = summaries(ctx)
    ml = absint.const_table_summary(mir, "insim::net::mode::Mode::max_length", ctx.ast) or {}
    rows = b.decision_rows()
    for v in mode["variants"]:
        vi, vn = v["idx"], v["name"]
        an = absint.Intervals(b, mir, assume_discr={"1.*": vi}, summaries=summ)
        somes = [(i, st) for i, bl in enumerate(b.blocks) for st in bl["stmts"]
                 if st["k"] == "assign" and st["rv"]["k"] == "agg" and st["rv"].get("adt") == "core::option::Option" and st["rv"].get("vname") == "Some"
                 and not st.get("exp") and i in an.reachable() and b.raw["span"]["line"] <= (st.get("line") or 0) <= b.raw["span"]["eline"]]
        rep.check("R4.1", "%s:some-site" % vn, len(somes) == 1, "expected one `Some(n)` for Mode::%s (found %d)" % (vn, len(somes)), b.loc(), nontrivial=False)
        contract(ctx, rep, b, rows, vi, vn, ml.get(vi))
        # the announced value is byte x scale, so the table evaluation over all 256 first bytes is exhaustive for n: it decides the
        # bounds even when the interval domain loses n (e.g. carried through an enum payload)
        table_ok = getattr(contract, "last_ok", False)
        for (i, st) in somes:
            iv = an.value_at_exit(i, st["rv"]["ops"][0])
            hi = ml.get(vi)
            rep.check("R4.1", "%s:lower-bound" % vn, (iv is not None and iv[0] >= 4) or table_ok,
                      "Mode::%s: decode_length can announce a frame of n in %s bytes; n < 4 makes the decoder remove fewer than 4 bytes, and n = 0 makes `advance(1)` panic on an empty frame" % (vn, list(iv) if iv else None),
                      b.loc(st["line"]), sample={"mode": vn, "n_interval": list(iv) if iv else None})
            rep.check("R4.1", "%s:upper-bound" % vn, (iv is not None and hi is not None and iv[1] <= hi) or table_ok,
                      "Mode::%s: announced length up to %s exceeds the mode maximum %s" % (vn, iv[1] if iv else "?", hi), b.loc(st["line"]))
            # n's definition on this variant's path (taken from the accepting row of the path-sensitive decision table, so that
            # helper calls and multiply-assigned locals are resolved), compared bit by bit with first_byte << (0 | 2) in usize
            import bits
            exprs = []
            for r in rows:
                if r[1][1] == "Ok" and r[1][2] and r[1][2][0].startswith("Some{") and ("discr(*arg1)", "eq", (vi,)) in [(c[1], c[2], c[3]) for c in r[0]]:
                    payload = r[1][3][0]
                    if payload[0] == "agg" and payload[2]:
                        exprs.append(payload[2][0])
            if not exprs:
                exprs = [b.origin(st["rv"]["ops"][0])]

            def leaf(x):
                # the first byte of the buffer: `*src.first()?` / src[0]
                y = x
                while y[0] in ("deref", "ref"):
                    y = y[1]
                if y[0] == "field" and y[1][0] == "downcast" and y[1][3] == "Some" and y[1][1][0] == "call":
                    c = y[1][1]
                    if c[1].endswith("first") and strip_refs(strip_to_src(c[3][0])) == ("arg", 2):
                        return ("first", 8)
                    if re.search(r"::get$", c[1]) and len(c[3]) > 1 and c[3][1][0] == "const" and c[3][1][1] == 0 and strip_refs(strip_to_src(c[3][0])) == ("arg", 2):
                        return ("first", 8)
                if y[0] == "index" and strip_refs(strip_to_src(y[1])) == ("arg", 2) and y[2][0] == "const" and y[2][1] == 0:
                    return ("first", 8)
                if y[0] == "cindex" and strip_refs(strip_to_src(y[1])) == ("arg", 2) and y[2] == 0 and not y[3]:
                    return ("first", 8)
                return None
            shift = 0 if hi == 255 else 2
            expect = [("f", "first", i - shift) if 0 <= i - shift < 8 else 0 for i in range(64)]
            from mirq import simplify
            exprs = [simplify(e) for e in exprs]
            got_bits = [bits.evaluate(e, 64, leaf) for e in exprs]
            okv = (len(got_bits) == 1 and got_bits[0] == expect) or table_ok       # the table evaluation is exhaustive in the first byte
            rep.check("R4.1", "%s:value-bits" % vn, okv, "Mode::%s: the announced length must be the first byte x %d computed without losing bits; %s gives %s" % (vn, 1 << shift, [fmt_origin(e) for e in exprs], [str(x) for x in (got_bits[0][:12] if got_bits else [])]),
                      b.loc(st["line"]), sample={"mode": vn, "definition": [fmt_origin(e) for e in exprs]})
    rep.floor("R4.1", 9)


def contract(ctx, rep, b, rows, vi, vn, hi):
    """decode_length as a finite table, evaluated for every first byte and a set of buffer lengths around every boundary:
    Some(n) only with n = byte x scale, 4 <= n <= max and n bytes buffered; a complete valid frame is always announced
    (progress); an incomplete valid frame is `None`, never an error."""
    import tabeval
    scale = 1 if hi == 255 else 4
    tables = {}

    def call(d, rd, args, ev):
        name = rd or d
        if re.search(r"(BytesMut|<impl \[T\]>|Bytes)::len$", d) and strip_refs(strip_to_src(args[0])) == ("arg", 2):
            return ev.L
        if re.search(r"(BytesMut|<impl \[T\]>|Bytes)::is_empty$", d) and strip_refs(strip_to_src(args[0])) == ("arg", 2):
            return 1 if ev.L == 0 else 0
        if re.search(r"<impl \[T\]>::first$", d) and strip_refs(strip_to_src(args[0])) == ("arg", 2):
            return ("opt", ev.L >= 1, ev.f)
        if re.search(r"<impl \[T\]>::get$", d) and strip_refs(strip_to_src(args[0])) == ("arg", 2) and len(args) > 1 and args[1][0] == "const" and args[1][1] == 0:
            return ("opt", ev.L >= 1, ev.f)
        if re.search(r"checked_(rem|div|mul|add|sub)$", d) and len(args) == 2:
            a, c = ev.ev(args[0]), ev.ev(args[1])
            op = d.rsplit("_", 1)[1]
            if op in ("rem", "div") and c == 0:
                return ("opt", False, None)
            r = {"rem": lambda: a % c, "div": lambda: a // c, "mul": lambda: a * c, "add": lambda: a + c, "sub": lambda: a - c}[op]()
            return ("opt", 0 <= r < 2 ** 64, r)
        if name.startswith("insim::net::mode::"):
            if name not in tables:
                tables[name] = absint.const_table_summary(ctx.mir, name, ctx.ast)
            tb = tables[name]
            if tb is not None:
                return tb.get(vi, tb.get(None))
        return None

    def is_src(o):
        return strip_refs(strip_to_src(o)) == ("arg", 2)

    def leaf(o):
        if o[0] == "discr" and strip_refs(o[1]) == ("arg", 1):
            return vi
        if o[0] == "index" and is_src(o[1]) and o[2][0] == "const" and o[2][1] == 0:
            return ev.f
        if o[0] == "cindex" and is_src(o[1]) and o[2] == 0 and not o[3]:
            if ev.L < 1:
                raise tabeval.Panic("slice pattern on an empty buffer")
            return ev.f
        # length of the buffer seen as a slice: `Len` / `PtrMetadata` of (a deref of) src
        if o[0] in ("len", "ptr_metadata") and is_src(o[1]):
            return ev.L
        if o[0] == "un" and o[1] in ("PtrMetadata", "Len") and is_src(o[2]):
            return ev.L
        return None
    model = tabeval.Model(ctx, b, None, local_prefix="insim::net::mode::", extra_leaf=lambda o, m: leaf(o), extra_call=lambda d, rd, args, m: call(d, rd, args, m.ev))
    ev = model.ev
    bad = {"value": None, "whole-frame-buffered": None, "range": None, "progress": None, "incomplete-is-none": None, "deterministic": None}
    undecided = None
    n_eval = 0
    for f in range(256):
        n_true = f * scale
        valid = hi is not None and 4 <= n_true <= hi
        lens = sorted({0, 1, 2, 3, 4, 5, 7, 8, 255, 256, 1019, 1020, 1021, 1024, 4096, max(n_true - 1, 0), n_true, n_true + 1})
        for L in lens:
            ev.f, ev.L = f, L
            try:
                m = ev.matching_rows(rows)
            except tabeval.Unknown as e:
                undecided = e.what
                break
            n_eval += 1
            wit = "first byte %d, %d byte(s) buffered" % (f, L)
            if len(m) > 1 and len({(r[1][1], r[1][2]) for r in m}) > 1:
                bad["deterministic"] = bad["deterministic"] or "%s: %d different rows apply" % (wit, len(m))
                continue
            if not m:
                if L >= 1:
                    bad["progress"] = bad["progress"] or "%s: every path traps (panic)" % wit
                continue
            r = m[0][1]
            some = r[1] == "Ok" and r[2] and r[2][0].startswith("Some{")
            none = r[1] == "Ok" and r[2] and r[2][0].startswith("None")
            if some:
                try:
                    n = ev.ev(r[3][0][2][0])
                except (tabeval.Unknown, tabeval.Panic) as e:
                    undecided = "announced value: %s" % e
                    break
                if n != n_true:
                    bad["value"] = bad["value"] or "%s: announces %d, the frame is %d bytes" % (wit, n, n_true)
                if hi is not None and not (4 <= n <= hi):
                    bad["range"] = bad["range"] or "%s: announces %d outside 4..=%d" % (wit, n, hi)
                if L < n:
                    bad["whole-frame-buffered"] = bad["whole-frame-buffered"] or "%s: announces %d bytes although only %d are buffered" % (wit, n, L)
            elif valid and L >= n_true:
                bad["progress"] = bad["progress"] or "%s: a complete valid frame of %d bytes is not announced (%s) - the decoder would never get past it" % (wit, n_true, r[1] + " " + "".join(r[2][:1]))
            elif valid and 4 <= L < n_true and not none:
                bad["incomplete-is-none"] = bad["incomplete-is-none"] or "%s: an incomplete valid frame must be `Ok(None)` (found %s)" % (wit, r[1])
        if undecided:
            break
    contract.last_ok = False
    if undecided:
        rep.fail("R4.1", "%s:table" % vn, "Mode::%s: decode_length's decision table could not be evaluated (%s)" % (vn, undecided), b.loc())
        return
    rep.check("R4.1", "%s:value" % vn, bad["value"] is None and bad["range"] is None,
              "Mode::%s: the announced length must be the first byte x %d, within 4..=%s: %s" % (vn, scale, hi, bad["value"] or bad["range"]), b.loc(),
              sample={"mode": vn, "evaluated": n_eval, "domain": "256 first bytes x buffer lengths around every boundary"})
    rep.check("R4.1", "%s:whole-frame-buffered" % vn, bad["whole-frame-buffered"] is None,
              "Mode::%s: `Some(n)` must imply that n bytes are buffered: %s" % (vn, bad["whole-frame-buffered"]), b.loc(), sample={"mode": vn, "evaluated": n_eval})
    contract.last_ok = bad["value"] is None and bad["range"] is None
    rep.check("R4.1", "%s:progress" % vn, bad["progress"] is None and bad["deterministic"] is None and bad["incomplete-is-none"] is None,
              "Mode::%s: %s" % (vn, bad["progress"] or bad["deterministic"] or bad["incomplete-is-none"]), b.loc(), sample={"mode": vn, "evaluated": n_eval})


def strip_to_src(o):
    """look through Deref::deref / as_ref style calls and references to the buffer they were applied to"""
    x = o
    for _ in range(6):
        if x[0] in ("ref", "deref"):
            x = x[1]
        elif x[0] == "call" and re.search(r"Deref::deref$|AsRef.*::as_ref$|::as_slice$|::chunk$", x[1] or "") and x[3]:
            x = x[3][0]
        else:
            break
    return x


def decode(ctx, rep):
    b = ctx.mir.body("insim::net::codec::Codec::decode")
    if b is None:
        rep.fail("R4.2", "found", "Codec::decode not found")
        return
    rep.fn(b.name)
    # combinator style (`.map(|n| ..).transpose()`) and private helpers of the codec are normalised away first
    from mirq import expand_adaptors, inline_calls
    nb = expand_adaptors(b)
    nb = inline_calls(nb, lambda d: d.startswith("insim::net::codec::Codec::") and not d.endswith(("::decode", "::encode", "::mode", "::new")) and "{closure" not in d, depth=3)
    nb = expand_adaptors(nb)
    if nb is not b:
        rep.notes.append("R4.2: Codec::decode normalised (adaptors expanded / helpers inlined)")
        b = nb
    DL = b.calls_to(r"Mode::decode_length$")
    ST = b.calls_to(r"BytesMut::split_to$")
    AD = b.calls_to(r"Buf::advance$")
    CN = b.calls_to(r"io::cursor::Cursor::<T>::new$")
    PR = [(bb, t) for bb, t in b.calls_to(r"binrw::binread::BinRead::read$") if callee(t)[2] and callee(t)[2][0] == "insim::packet::Packet"]
    split_form = all(len(x) == 1 for x in (DL, ST, AD, CN, PR))
    inplace_form = len(DL) == 1 and not ST and len(AD) == 1 and len(CN) == 1 and len(PR) == 1
    ok = split_form or inplace_form
    rep.check("R4.2", "anchors", ok, "Codec::decode: expected one each of decode_length, split_to, advance, Cursor::new, Packet::read - or the in-place form: decode_length, Cursor::new over a bounded sub-slice, Packet::read, advance(n) (found %s)" % [len(x) for x in (DL, ST, AD, CN, PR)], b.loc(),
              sample={"counts": [len(x) for x in (DL, ST, AD, CN, PR)], "form": "split" if split_form else "in-place" if inplace_form else "?"})
    if not ok:
        return
    if inplace_form and not split_form:
        decode_inplace(rep, b, DL[0], AD[0], CN[0], PR[0])
        rep.floor("R4.2", 8)
        return
    dl, st, ad, cn, pr = DL[0], ST[0], AD[0], CN[0], PR[0]
    src = ("arg", 2)
    # decode_length(self.mode(), src)
    a_src = strip_refs(b.origin(dl[1]["args"][1]))
    rep.check("R4.2", "length-of-src", a_src == src, "decode_length must inspect the caller's buffer (found %s)" % (a_src,), b.loc(dl[1]["line"]), nontrivial=False)
    tr = b.try_of_call(dl[0])
    rep.check("R4.2", "length-error-propagated", (tr is not None and b.ret_kinds(tr[3]) == {"residual"}) or b.error_returned(dl[0]), "a framing error must be returned", b.loc(dl[1]["line"]))
    # split_to(src, n) with n the Some payload of decode_length()?
    s0 = strip_refs(b.origin(st[1]["args"][0]))
    n = b.origin(st[1]["args"][1])
    okn = False
    x = n
    if x[0] == "field":
        x = x[1]
    if x[0] == "downcast" and x[3] == "Some":
        y = x[1]
        if y[0] == "field":
            y = y[1]
        if y[0] == "downcast" and y[3] == "Continue" and tr is not None and y[1][0] == "call" and y[1][4] == tr[0]:
            okn = True
    rep.check("R4.2", "split-exactly-announced", s0 == src and okn,
              "split_to must remove exactly the length decode_length announced from the same buffer (buffer %s, count %s)" % (s0, fmt_origin(n)), b.loc(st[1]["line"]),
              sample={"count": fmt_origin(n)})
    # nothing else mutates src
    muts = []
    for bb, t in b.calls():
        for ai, a in enumerate(t["args"]):
            if strip_refs(b.origin(a)) == src and t["argtys"][ai].startswith("&mut"):
                muts.append((bb, callee(t)[0]))
            elif strip_refs(b.origin(a)) == src and t["argtys"][ai] == "&mut bytes::bytes_mut::BytesMut" and callee(t)[0] not in ("bytes::bytes_mut::BytesMut::split_to",):
                muts.append((bb, callee(t)[0]))
    only = [m for m in muts if not m[1].startswith("tracing") and "field::debug" not in m[1]]
    rep.check("R4.2", "only-split-mutates", [m[1] for m in only] == ["bytes::bytes_mut::BytesMut::split_to"],
              "the caller's buffer is handed mutably to %s; only split_to(n) may remove bytes" % [m[1] for m in only], b.loc(), sample={"mutators": [m[1] for m in only]})
    # the None paths return before split_to
    sw = None
    if tr is not None:
        r = b.switch_on(lambda o: o[0] == "discr" and any(c[4] == tr[0] for c in origin_calls(o[1])) and o[1][0] != "call")
        sw = r[0] if r else None
    if sw is not None:
        none_t = sw[1].get(0, sw[2])
        rep.check("R4.2", "need-more-data-untouched", st[0] not in b.reach_v(via=none_t) and b.ret_kinds_v(none_t) == {"Ok"},
                  "the need-more-data path must return Ok(None) without reaching split_to", b.loc(dl[1]["line"]))
    else:
        rep.fail("R4.2", "need-more-data-untouched", "decode_length's Option is not matched on", b.loc(dl[1]["line"]))
    # advance(1) on the split-off frame
    a0 = strip_refs(b.origin(ad[1]["args"][0]))
    a1 = b.origin(ad[1]["args"][1])
    one = a1[0] == "const" and a1[1] == 1
    if not one and a1[0] == "call" and re.search(r"<impl \[T\]>::len$", a1[1] or "") and a1[3]:
        # `advance(SIZE_PLACEHOLDER.len())`: the length of a constant one-element array
        from props.c03_mir import const_array_len
        ca = const_array_len(ctx, a1[3][0])
        one = ca is not None and ca[0] == 1
    via_a, clean_a = b.derives_via(b.origin(ad[1]["args"][0]), st[0], forbid=src)
    rep.check("R4.2", "skip-size-byte", via_a and clean_a and one,
              "the size byte must be skipped with advance(1) on the split-off frame (found %s, %s)" % (fmt_origin(a0), fmt_origin(a1)), b.loc(ad[1]["line"]))
    # cursor over the frame, not over src
    c0 = strip_refs(b.origin(cn[1]["args"][0]))
    via_c, clean_c = b.derives_via(c0, st[0], forbid=src)
    rep.check("R4.2", "reader-over-frame", via_c and clean_c,
              "the packet reader must be built over the split-off frame (found %s): reading from the connection buffer could run past the announced frame" % fmt_origin(c0),
              b.loc(cn[1]["line"]), sample={"cursor_over": fmt_origin(c0)})
    p0 = strip_refs(b.origin(pr[1]["args"][0]))
    via_p, _c = b.derives_via(p0, cn[0])
    rep.check("R4.2", "packet-from-cursor", via_p, "Packet::read must read from that cursor (found %s)" % fmt_origin(p0), b.loc(pr[1]["line"]))
    order = [dl[0], st[0], ad[0], cn[0], pr[0]]

    def must_pass(x, y):
        """every feasible path from the entry to y goes through x (dominance, or - after combinators were expanded - the
        variant-sensitive version of it: y is unreachable when x is removed)"""
        return b.dominates(x, y) or y not in b.reach_v(avoid_blocks={x})
    rep.check("R4.2", "order", all(must_pass(order[i], order[i + 1]) for i in range(len(order) - 1)),
              "decode_length -> split_to -> advance -> Cursor::new -> Packet::read must be enforced by dominance (blocks %s)" % order, b.loc())
    trp = b.try_of_call(pr[0])
    rep.check("R4.2", "decode-error-after-removal", trp is not None and (b.ret_kinds(trp[3]) == {"residual"} or b.error_returned(pr[0])) and must_pass(st[0], pr[0]),
              "a packet decode error must be returned after the frame has been removed", b.loc(pr[1]["line"]))
    rep.floor("R4.2", 10)


def announced(b, o, tr):
    """is origin o the Some payload of the (`?`-unwrapped) decode_length result?"""
    x = o
    while x[0] == "cast":
        x = x[4]
    if x[0] == "field":
        x = x[1]
    if x[0] == "downcast" and x[3] == "Some":
        y = x[1]
        if y[0] == "field":
            y = y[1]
        if y[0] == "downcast" and y[3] == "Continue" and tr is not None and y[1][0] == "call" and y[1][4] == tr[0]:
            return True
    return False


def decode_inplace(rep, b, dl, ad, cn, pr):
    """R4.2 for a decoder that parses the frame where it lies: the reader must be a sub-slice src[1..n] (n = the announced
    length), and advance(n) must run on every path from the parse to a return, whether or not the parse succeeded."""
    src = ("arg", 2)
    a_src = strip_refs(b.origin(dl[1]["args"][1]))
    rep.check("R4.2", "length-of-src", a_src == src, "decode_length must inspect the caller's buffer (found %s)" % (a_src,), b.loc(dl[1]["line"]), nontrivial=False)
    tr = b.try_of_call(dl[0])
    rep.check("R4.2", "length-error-propagated", tr is not None and b.ret_kinds(tr[3]) == {"residual"}, "a framing error must be returned", b.loc(dl[1]["line"]))
    # reader over src[1..n]
    c0 = strip_refs(b.origin(cn[1]["args"][0]))
    okr = False
    why = fmt_origin(c0)
    x = c0
    if x[0] == "call" and re.search(r"Index(Mut)?::index(_mut)?$", x[1]) and len(x[3]) == 2:
        base = strip_refs(x[3][0])
        while base[0] == "call" and re.search(r"Deref(Mut)?::deref(_mut)?$|as_ref$|AsRef::as_ref$", base[1]) and base[3]:
            base = strip_refs(base[3][0])
        rng = x[3][1]
        if base == src and rng[0] == "agg" and "Range" in str(rng[1]) and "RangeFrom" not in str(rng[1]) and "RangeFull" not in str(rng[1]) and len(rng[2]) == 2:
            lo, hi = rng[2]
            okr = lo[0] == "const" and lo[1] == 1 and announced(b, hi, tr)
            why = "src[%s..%s]" % (fmt_origin(lo), fmt_origin(hi))
        elif base == src:
            why = "an unbounded sub-slice %s" % fmt_origin(rng)
    rep.check("R4.2", "reader-over-frame", okr,
              "the packet reader must be confined to the announced frame, src[1..n] (found %s): reading from the rest of the connection buffer can run into the next frame" % why,
              b.loc(cn[1]["line"]), sample={"cursor_over": why})
    p0 = strip_refs(b.origin(pr[1]["args"][0]))
    rep.check("R4.2", "packet-from-cursor", p0[0] == "call" and p0[4] == cn[0], "Packet::read must read from that cursor (found %s)" % fmt_origin(p0), b.loc(pr[1]["line"]))
    # advance(src, n) on every path after the parse
    a0 = strip_refs(b.origin(ad[1]["args"][0]))
    a1 = b.origin(ad[1]["args"][1])
    rep.check("R4.2", "split-exactly-announced", a0 == src and announced(b, a1, tr),
              "advance must remove exactly the length decode_length announced from the same buffer (buffer %s, count %s)" % (a0, fmt_origin(a1)), b.loc(ad[1]["line"]),
              sample={"count": fmt_origin(a1)})
    rets = {i for i, bl in enumerate(b.blocks) if bl["term"] and bl["term"]["k"] == "return"}
    after = b.reach(pr[1]["target"], avoid_blocks={ad[0]}) if pr[1].get("target") is not None else set()
    rep.check("R4.2", "decode-error-after-removal", b.dominates(pr[0], ad[0]) and not (after & rets),
              "the frame must be removed on every path after parsing it, also when parsing failed (a return is reachable without advance(n))", b.loc(ad[1]["line"]))
    muts = []
    for bb, t in b.calls():
        for ai, a in enumerate(t["args"]):
            if strip_refs(b.origin(a)) == src and t["argtys"][ai].startswith("&mut"):
                muts.append(callee(t)[0])
    only = [m for m in muts if not m.startswith("tracing") and "field::debug" not in m and not re.search(r"Deref(Mut)?::deref(_mut)?$", m)]
    rep.check("R4.2", "only-split-mutates", only == ["bytes::buf::buf_impl::Buf::advance"] or only == ["bytes::bytes_mut::BytesMut::advance"],
              "the caller's buffer is handed mutably to %s; only advance(n) may remove bytes" % only, b.loc(), sample={"mutators": only})
    sw = None
    if tr is not None:
        r = b.switch_on(lambda o: o[0] == "discr" and any(c[4] == tr[0] for c in origin_calls(o[1])) and o[1][0] != "call")
        sw = r[0] if r else None
    if sw is not None:
        none_t = sw[1].get(0, sw[2])
        rep.check("R4.2", "need-more-data-untouched", ad[0] not in b.reach(none_t) and b.ret_kinds(none_t) == {"Ok"},
                  "the need-more-data path must return Ok(None) without removing anything", b.loc(dl[1]["line"]))
    else:
        rep.fail("R4.2", "need-more-data-untouched", "decode_length's Option is not matched on", b.loc(dl[1]["line"]))


def duration_instances(ctx):
    """(T, SCALE) of every binrw_parse_duration use, from the wire model"""
    out = set()
    for (crate, modpath, file, it) in ctx.ast.items:
        if it["k"] != "Struct":
            continue
        for f in it.get("fields", []):
            for a in f.get("attrs", []):
                if a.get("form") == "list":
                    for d in a["items"]:
                        if d["key"] == "parse_with" and d["value"] and d["value"].get("k") == "Path" and d["value"]["segs"][-1]["id"] == "binrw_parse_duration":
                            g = d["value"]["segs"][-1]["generics"] or []
                            out.add((g[0], g[1]))
    return out


def inventory(ctx, rep):
    roots = ["insim::net::codec::Codec::decode", "<insim::packet::Packet as binrw::binread::BinRead>::read_options"]
    inst = duration_instances(ctx)

    def extra(s):
        # split_to / advance in Codec::decode: discharged by R4.1 + R4.2 (n in [4, max] and n <= src.len(); frame length n >= 1)
        def part_of_decode(fn):
            f = fn.split("::{closure")[0]
            for _ in range(4):
                if f == "insim::net::codec::Codec::decode":
                    return True
                f = panics.sole_caller(ctx.mir, f)
                if f is None:
                    return False
            return False
        if s["kind"] == "precondition" and s["what"].endswith(("BytesMut::split_to", "Buf::advance", "BytesMut::advance", "::index")) and part_of_decode(s["fn"]):
            r41 = [i for i in rep.instances if i["rule"] == "R4.1" and not i["ok"]]
            r42 = [i for i in rep.instances if i["rule"] == "R4.2" and not i["ok"]]
            if not r41 and not r42:
                return "precondition established by R4.1 (4 <= n <= src.len()) and R4.2 (same buffer, same n, frame of n >= 1 bytes)"
            return None
        if s["fn"] == "insim::net::mode::Mode::decode_length" and s["kind"] == "assert" and s["what"] in ("overflow", "div_zero", "rem_zero"):
            r41 = [i for i in rep.instances if i["rule"] == "R4.1" and i["key"].endswith((":value", ":progress", ":table"))]
            if r41 and all(i["ok"] for i in r41):
                return "R4.1 evaluated decode_length's table for all 256 first bytes in both modes: this arithmetic never traps (a trap would drop every row for that byte and show up as a stalled decoder)"
            return None
        if panics.is_or_helper_of(ctx.mir, s["fn"], "insim_core::duration::binrw_parse_duration", generic="SCALE") and s["kind"] == "assert" and s["what"] == "overflow":
            worst = 0
            for (t, sc) in inst:
                r = absint.ty_range(t)
                if r is None or not sc.isdigit():
                    return None
                worst = max(worst, r[1] * int(sc))
            if inst and worst < 2 ** 64:
                return "v * SCALE: every instantiation %s keeps the product below 2^64 (worst %d)" % (sorted(inst), worst)
        return None

    inv, sites = panics.check_paths(ctx, rep, "R4.3", roots, label="decode", extra_discharge=extra)
    rep.check("R4.3", "coverage:readers", len([n for n in inv.reach if n.endswith("binrw::binread::BinRead>::read_options")]) >= 135,
              "expected at least 135 generated/hand-written BinRead impls on the decode path (found %d)" % len([n for n in inv.reach if n.endswith("binrw::binread::BinRead>::read_options")]),
              None, sample={"functions_reachable": len(inv.reach), "sites": len(sites)})
    rep.floor("R4.3", 120)
