"""C04 — decoding untrusted bytes is total, bounded and always progresses."""
import re

import absint
import panics
from mirq import callee, fmt_origin, origin_calls, strip_refs
from props.c03_mir import summaries

EXPLANATION = (
    "R4.1 Mode::decode_length analysed per Mode variant with the interval domain: `Some(n)` is returned only with n in "
    "[4, max_length(mode)] and only on a path whose conditions include `not (src.len() < n)`; n is first*1 / first*4; src is a "
    "shared reference (a need-more-data or error return cannot modify the buffer). R4.2 Codec::decode: split_to receives exactly "
    "the Some payload of decode_length applied to the same buffer, dominates Packet::read, the reader is a cursor over the split-off "
    "frame (never over src), advance(1) acts on that frame, src is mutated by nothing else and not at all on the Ok(None) paths; "
    "these two rules discharge the preconditions of split_to and advance. R4.3 panic-site inventory (asserts, panics, unwraps, "
    "dependency preconditions) over everything reachable in workspace code from Codec::decode and Packet's reader through all 73 "
    "generated BinRead impls, hand-written readers, helper parsers, Vehicle, Track, GameVersion::from_str, to_lossy_string: each "
    "site is discharged by intervals/structure, reviewed in tables/panic_sites.json, or reported. R4.4 is implied by R4.3 "
    "(a diverging arm of a byte->enum conversion is a panic site). Not decided: binrw's and encoding_rs's own totality."
)


def run(ctx, rep):
    rep.explanation = EXPLANATION
    rep.assumptions = ["binrw reads counts through checked conversions and element by element; encoding_rs never panics",
                       "dependency functions outside spec'd panicky list do not panic on any input"]
    decode_length(ctx, rep)
    decode(ctx, rep)
    inventory(ctx, rep)


def decode_length(ctx, rep):
    mir = ctx.mir
    b = mir.body("insim::net::mode::Mode::decode_length")
    mode = mir.enums.get("insim::net::mode::Mode")
    if b is None or mode is None:
        rep.fail("R4.1", "anchors", "Mode::decode_length not found")
        return
    rep.fn(b.name)
    rep.check("R4.1", "src-shared", b.locals[2]["ty"].startswith("&") and not b.locals[2]["ty"].startswith("&mut") and "mut " not in b.locals[2]["ty"][:14],
              "decode_length must take the buffer by shared reference (found %s)" % b.locals[2]["ty"], b.loc(), sample={"src_type": b.locals[2]["ty"]})
    summ = summaries(ctx)
    ml = absint.const_table_summary(mir, "insim::net::mode::Mode::max_length") or {}
    rows = b.decision_rows()
    for v in mode["variants"]:
        vi, vn = v["idx"], v["name"]
        an = absint.Intervals(b, mir, assume_discr={"1.*": vi}, summaries=summ)
        somes = [(i, st) for i, bl in enumerate(b.blocks) for st in bl["stmts"]
                 if st["k"] == "assign" and st["rv"]["k"] == "agg" and st["rv"].get("adt") == "core::option::Option" and st["rv"].get("vname") == "Some"
                 and not st.get("exp") and i in an.reachable() and b.raw["span"]["line"] <= (st.get("line") or 0) <= b.raw["span"]["eline"]]
        rep.check("R4.1", "%s:some-site" % vn, len(somes) == 1, "expected one `Some(n)` for Mode::%s (found %d)" % (vn, len(somes)), b.loc(), nontrivial=False)
        for (i, st) in somes:
            iv = an.value_at_exit(i, st["rv"]["ops"][0])
            hi = ml.get(vi)
            rep.check("R4.1", "%s:lower-bound" % vn, iv is not None and iv[0] >= 4,
                      "Mode::%s: decode_length can announce a frame of n in %s bytes; n < 4 makes the decoder remove fewer than 4 bytes, and n = 0 makes `advance(1)` panic on an empty frame" % (vn, list(iv) if iv else None),
                      b.loc(st["line"]), sample={"mode": vn, "n_interval": list(iv) if iv else None})
            rep.check("R4.1", "%s:upper-bound" % vn, iv is not None and hi is not None and iv[1] <= hi,
                      "Mode::%s: announced length up to %s exceeds the mode maximum %s" % (vn, iv[1] if iv else "?", hi), b.loc(st["line"]))
            # n's definition on this variant's path, compared bit by bit with first_byte << (0 | 2) computed in usize
            import bits
            o = b.origin(st["rv"]["ops"][0])
            exprs = []
            if o[0] == "phi":
                for d in b.defs().get(o[1], []):
                    if d[0] == "stmt" and d[1] in an.reachable():
                        rv = d[3]["rv"]
                        if rv["k"] == "cast":
                            exprs.append(("cast", rv["kind"], rv["from"], rv["to"], b.origin(rv["x"])))
                        elif rv["k"] == "use":
                            exprs.append(b.origin(rv["x"]))
                        elif rv["k"] == "bin":
                            exprs.append(("bin", rv["op"], b.origin(rv["l"]), b.origin(rv["r"]), rv.get("lty")))
                        else:
                            exprs.append(("rv", rv["k"]))
            else:
                exprs = [o]

            def leaf(x):
                # the first byte of the buffer: `*src.first()?` / src[0]
                y = x
                while y[0] in ("deref", "ref"):
                    y = y[1]
                if y[0] == "field" and y[1][0] == "downcast" and y[1][3] == "Some" and y[1][1][0] == "call":
                    c = y[1][1]
                    if c[1].endswith("first") and strip_refs(strip_to_src(c[3][0])) == ("arg", 2):
                        return ("first", 8)
                    if re.search(r"::get$", c[1]) and len(c[3]) > 1 and c[3][1][0] == "const" and c[3][1][1] == 0 and strip_refs(strip_to_src(c[3][0])) == ("arg", 2):
                        return ("first", 8)
                if y[0] == "index" and strip_refs(strip_to_src(y[1])) == ("arg", 2) and y[2][0] == "const" and y[2][1] == 0:
                    return ("first", 8)
                return None
            shift = 0 if hi == 255 else 2
            expect = [("f", "first", i - shift) if 0 <= i - shift < 8 else 0 for i in range(64)]
            got_bits = [bits.evaluate(e, 64, leaf) for e in exprs]
            okv = len(got_bits) == 1 and got_bits[0] == expect
            rep.check("R4.1", "%s:value" % vn, okv, "Mode::%s: the announced length must be the first byte x %d computed without losing bits; %s gives %s" % (vn, 1 << shift, [fmt_origin(e) for e in exprs], [str(x) for x in (got_bits[0][:12] if got_bits else [])]),
                      b.loc(st["line"]), sample={"mode": vn, "definition": [fmt_origin(e) for e in exprs]})
        # the accepting row demands src.len() >= n (n = the very value returned in Some)
        vrows = [r for r in rows if r[1][1] == "Ok" and r[1][2] and r[1][2][0].startswith("Some{") and ("discr(*arg1)", "eq", (vi,)) in [(c[1], c[2], c[3]) for c in r[0]]]
        okc = False

        def is_src_len(o):
            return o[0] == "call" and re.search(r"BytesMut::len$", o[1] or "") is not None and strip_refs(o[3][0]) == ("arg", 2)
        for r in vrows:
            payload = r[1][3][0]
            nval = payload[2][0] if payload[0] == "agg" and payload[2] else None
            for c in r[0]:
                o = c[4]
                if o[0] != "bin" or nval is None:
                    continue
                op, l, rr = o[1], o[2], o[3]
                truth = (c[2] == "ne" and c[3] == (0,)) or (c[2] == "eq" and c[3] == (1,))
                if op == "Lt" and is_src_len(l) and rr == nval and not truth:
                    okc = True
                if op == "Gt" and is_src_len(rr) and l == nval and not truth:
                    okc = True
                if op == "Ge" and is_src_len(l) and rr == nval and truth:
                    okc = True
                if op == "Le" and is_src_len(rr) and l == nval and truth:
                    okc = True
        rep.check("R4.1", "%s:whole-frame-buffered" % vn, okc and len(vrows) == 1,
                  "Mode::%s: `Some(n)` must be guarded by `src.len() >= n` for the n it returns (rows %s)" % (vn, [[c[1] for c in r[0]] for r in vrows]), b.loc(),
                  sample={"mode": vn, "conditions": [[c[1], c[2]] for r in vrows for c in r[0]]})
    rep.floor("R4.1", 9)


def strip_to_src(o):
    """look through Deref::deref / as_ref style calls and references to the buffer they were applied to"""
    x = o
    for _ in range(6):
        if x[0] in ("ref", "deref"):
            x = x[1]
        elif x[0] == "call" and re.search(r"Deref::deref$|AsRef.*::as_ref$|::as_slice$|::chunk$", x[1] or "") and x[3]:
            x = x[3][0]
        else:
            break
    return x


def decode(ctx, rep):
    b = ctx.mir.body("insim::net::codec::Codec::decode")
    if b is None:
        rep.fail("R4.2", "found", "Codec::decode not found")
        return
    rep.fn(b.name)
    DL = b.calls_to(r"Mode::decode_length$")
    ST = b.calls_to(r"BytesMut::split_to$")
    AD = b.calls_to(r"Buf::advance$")
    CN = b.calls_to(r"io::cursor::Cursor::<T>::new$")
    PR = [(bb, t) for bb, t in b.calls_to(r"binrw::binread::BinRead::read$") if callee(t)[2] and callee(t)[2][0] == "insim::packet::Packet"]
    split_form = all(len(x) == 1 for x in (DL, ST, AD, CN, PR))
    inplace_form = len(DL) == 1 and not ST and len(AD) == 1 and len(CN) == 1 and len(PR) == 1
    ok = split_form or inplace_form
    rep.check("R4.2", "anchors", ok, "Codec::decode: expected one each of decode_length, split_to, advance, Cursor::new, Packet::read - or the in-place form: decode_length, Cursor::new over a bounded sub-slice, Packet::read, advance(n) (found %s)" % [len(x) for x in (DL, ST, AD, CN, PR)], b.loc(),
              sample={"counts": [len(x) for x in (DL, ST, AD, CN, PR)], "form": "split" if split_form else "in-place" if inplace_form else "?"})
    if not ok:
        return
    if inplace_form and not split_form:
        decode_inplace(rep, b, DL[0], AD[0], CN[0], PR[0])
        rep.floor("R4.2", 8)
        return
    dl, st, ad, cn, pr = DL[0], ST[0], AD[0], CN[0], PR[0]
    src = ("arg", 2)
    # decode_length(self.mode(), src)
    a_src = strip_refs(b.origin(dl[1]["args"][1]))
    rep.check("R4.2", "length-of-src", a_src == src, "decode_length must inspect the caller's buffer (found %s)" % (a_src,), b.loc(dl[1]["line"]), nontrivial=False)
    tr = b.try_of_call(dl[0])
    rep.check("R4.2", "length-error-propagated", tr is not None and b.ret_kinds(tr[3]) == {"residual"}, "a framing error must be returned", b.loc(dl[1]["line"]))
    # split_to(src, n) with n the Some payload of decode_length()?
    s0 = strip_refs(b.origin(st[1]["args"][0]))
    n = b.origin(st[1]["args"][1])
    okn = False
    x = n
    if x[0] == "field":
        x = x[1]
    if x[0] == "downcast" and x[3] == "Some":
        y = x[1]
        if y[0] == "field":
            y = y[1]
        if y[0] == "downcast" and y[3] == "Continue" and tr is not None and y[1][0] == "call" and y[1][4] == tr[0]:
            okn = True
    rep.check("R4.2", "split-exactly-announced", s0 == src and okn,
              "split_to must remove exactly the length decode_length announced from the same buffer (buffer %s, count %s)" % (s0, fmt_origin(n)), b.loc(st[1]["line"]),
              sample={"count": fmt_origin(n)})
    # nothing else mutates src
    muts = []
    for bb, t in b.calls():
        for ai, a in enumerate(t["args"]):
            if strip_refs(b.origin(a)) == src and t["argtys"][ai].startswith("&mut"):
                muts.append((bb, callee(t)[0]))
            elif strip_refs(b.origin(a)) == src and t["argtys"][ai] == "&mut bytes::bytes_mut::BytesMut" and callee(t)[0] not in ("bytes::bytes_mut::BytesMut::split_to",):
                muts.append((bb, callee(t)[0]))
    only = [m for m in muts if not m[1].startswith("tracing") and "field::debug" not in m[1]]
    rep.check("R4.2", "only-split-mutates", [m[1] for m in only] == ["bytes::bytes_mut::BytesMut::split_to"],
              "the caller's buffer is handed mutably to %s; only split_to(n) may remove bytes" % [m[1] for m in only], b.loc(), sample={"mutators": [m[1] for m in only]})
    # the None paths return before split_to
    sw = None
    if tr is not None:
        r = b.switch_on(lambda o: o[0] == "discr" and any(c[4] == tr[0] for c in origin_calls(o[1])) and o[1][0] != "call")
        sw = r[0] if r else None
    if sw is not None:
        none_t = sw[1].get(0, sw[2])
        rep.check("R4.2", "need-more-data-untouched", st[0] not in b.reach(none_t) and b.ret_kinds(none_t) == {"Ok"},
                  "the need-more-data path must return Ok(None) without reaching split_to", b.loc(dl[1]["line"]))
    else:
        rep.fail("R4.2", "need-more-data-untouched", "decode_length's Option is not matched on", b.loc(dl[1]["line"]))
    # advance(1) on the split-off frame
    a0 = strip_refs(b.origin(ad[1]["args"][0]))
    a1 = b.origin(ad[1]["args"][1])
    rep.check("R4.2", "skip-size-byte", a0[0] == "call" and a0[4] == st[0] and a1[0] == "const" and a1[1] == 1,
              "the size byte must be skipped with advance(1) on the split-off frame (found %s, %s)" % (fmt_origin(a0), fmt_origin(a1)), b.loc(ad[1]["line"]))
    # cursor over the frame, not over src
    c0 = strip_refs(b.origin(cn[1]["args"][0]))
    rep.check("R4.2", "reader-over-frame", c0[0] == "call" and c0[4] == st[0],
              "the packet reader must be built over the split-off frame (found %s): reading from the connection buffer could run past the announced frame" % fmt_origin(c0),
              b.loc(cn[1]["line"]), sample={"cursor_over": fmt_origin(c0)})
    p0 = strip_refs(b.origin(pr[1]["args"][0]))
    rep.check("R4.2", "packet-from-cursor", p0[0] == "call" and p0[4] == cn[0], "Packet::read must read from that cursor (found %s)" % fmt_origin(p0), b.loc(pr[1]["line"]))
    order = [dl[0], st[0], ad[0], cn[0], pr[0]]
    rep.check("R4.2", "order", all(b.dominates(order[i], order[i + 1]) for i in range(len(order) - 1)),
              "decode_length -> split_to -> advance -> Cursor::new -> Packet::read must be enforced by dominance (blocks %s)" % order, b.loc())
    trp = b.try_of_call(pr[0])
    rep.check("R4.2", "decode-error-after-removal", trp is not None and b.ret_kinds(trp[3]) == {"residual"} and b.dominates(st[0], pr[0]),
              "a packet decode error must be returned after the frame has been removed", b.loc(pr[1]["line"]))
    rep.floor("R4.2", 10)


def announced(b, o, tr):
    """is origin o the Some payload of the (`?`-unwrapped) decode_length result?"""
    x = o
    while x[0] == "cast":
        x = x[4]
    if x[0] == "field":
        x = x[1]
    if x[0] == "downcast" and x[3] == "Some":
        y = x[1]
        if y[0] == "field":
            y = y[1]
        if y[0] == "downcast" and y[3] == "Continue" and tr is not None and y[1][0] == "call" and y[1][4] == tr[0]:
            return True
    return False


def decode_inplace(rep, b, dl, ad, cn, pr):
    """R4.2 for a decoder that parses the frame where it lies: the reader must be a sub-slice src[1..n] (n = the announced
    length), and advance(n) must run on every path from the parse to a return, whether or not the parse succeeded."""
    src = ("arg", 2)
    a_src = strip_refs(b.origin(dl[1]["args"][1]))
    rep.check("R4.2", "length-of-src", a_src == src, "decode_length must inspect the caller's buffer (found %s)" % (a_src,), b.loc(dl[1]["line"]), nontrivial=False)
    tr = b.try_of_call(dl[0])
    rep.check("R4.2", "length-error-propagated", tr is not None and b.ret_kinds(tr[3]) == {"residual"}, "a framing error must be returned", b.loc(dl[1]["line"]))
    # reader over src[1..n]
    c0 = strip_refs(b.origin(cn[1]["args"][0]))
    okr = False
    why = fmt_origin(c0)
    x = c0
    if x[0] == "call" and re.search(r"Index(Mut)?::index(_mut)?$", x[1]) and len(x[3]) == 2:
        base = strip_refs(x[3][0])
        while base[0] == "call" and re.search(r"Deref(Mut)?::deref(_mut)?$|as_ref$|AsRef::as_ref$", base[1]) and base[3]:
            base = strip_refs(base[3][0])
        rng = x[3][1]
        if base == src and rng[0] == "agg" and "Range" in str(rng[1]) and "RangeFrom" not in str(rng[1]) and "RangeFull" not in str(rng[1]) and len(rng[2]) == 2:
            lo, hi = rng[2]
            okr = lo[0] == "const" and lo[1] == 1 and announced(b, hi, tr)
            why = "src[%s..%s]" % (fmt_origin(lo), fmt_origin(hi))
        elif base == src:
            why = "an unbounded sub-slice %s" % fmt_origin(rng)
    rep.check("R4.2", "reader-over-frame", okr,
              "the packet reader must be confined to the announced frame, src[1..n] (found %s): reading from the rest of the connection buffer can run into the next frame" % why,
              b.loc(cn[1]["line"]), sample={"cursor_over": why})
    p0 = strip_refs(b.origin(pr[1]["args"][0]))
    rep.check("R4.2", "packet-from-cursor", p0[0] == "call" and p0[4] == cn[0], "Packet::read must read from that cursor (found %s)" % fmt_origin(p0), b.loc(pr[1]["line"]))
    # advance(src, n) on every path after the parse
    a0 = strip_refs(b.origin(ad[1]["args"][0]))
    a1 = b.origin(ad[1]["args"][1])
    rep.check("R4.2", "split-exactly-announced", a0 == src and announced(b, a1, tr),
              "advance must remove exactly the length decode_length announced from the same buffer (buffer %s, count %s)" % (a0, fmt_origin(a1)), b.loc(ad[1]["line"]),
              sample={"count": fmt_origin(a1)})
    rets = {i for i, bl in enumerate(b.blocks) if bl["term"] and bl["term"]["k"] == "return"}
    after = b.reach(pr[1]["target"], avoid_blocks={ad[0]}) if pr[1].get("target") is not None else set()
    rep.check("R4.2", "decode-error-after-removal", b.dominates(pr[0], ad[0]) and not (after & rets),
              "the frame must be removed on every path after parsing it, also when parsing failed (a return is reachable without advance(n))", b.loc(ad[1]["line"]))
    muts = []
    for bb, t in b.calls():
        for ai, a in enumerate(t["args"]):
            if strip_refs(b.origin(a)) == src and t["argtys"][ai].startswith("&mut"):
                muts.append(callee(t)[0])
    only = [m for m in muts if not m.startswith("tracing") and "field::debug" not in m and not re.search(r"Deref(Mut)?::deref(_mut)?$", m)]
    rep.check("R4.2", "only-split-mutates", only == ["bytes::buf::buf_impl::Buf::advance"] or only == ["bytes::bytes_mut::BytesMut::advance"],
              "the caller's buffer is handed mutably to %s; only advance(n) may remove bytes" % only, b.loc(), sample={"mutators": only})
    sw = None
    if tr is not None:
        r = b.switch_on(lambda o: o[0] == "discr" and any(c[4] == tr[0] for c in origin_calls(o[1])) and o[1][0] != "call")
        sw = r[0] if r else None
    if sw is not None:
        none_t = sw[1].get(0, sw[2])
        rep.check("R4.2", "need-more-data-untouched", ad[0] not in b.reach(none_t) and b.ret_kinds(none_t) == {"Ok"},
                  "the need-more-data path must return Ok(None) without removing anything", b.loc(dl[1]["line"]))
    else:
        rep.fail("R4.2", "need-more-data-untouched", "decode_length's Option is not matched on", b.loc(dl[1]["line"]))


def duration_instances(ctx):
    """(T, SCALE) of every binrw_parse_duration use, from the wire model"""
    out = set()
    for (crate, modpath, file, it) in ctx.ast.items:
        if it["k"] != "Struct":
            continue
        for f in it.get("fields", []):
            for a in f.get("attrs", []):
                if a.get("form") == "list":
                    for d in a["items"]:
                        if d["key"] == "parse_with" and d["value"] and d["value"].get("k") == "Path" and d["value"]["segs"][-1]["id"] == "binrw_parse_duration":
                            g = d["value"]["segs"][-1]["generics"] or []
                            out.add((g[0], g[1]))
    return out


def inventory(ctx, rep):
    roots = ["insim::net::codec::Codec::decode", "<insim::packet::Packet as binrw::binread::BinRead>::read_options"]
    inst = duration_instances(ctx)

    def extra(s):
        # split_to / advance in Codec::decode: discharged by R4.1 + R4.2 (n in [4, max] and n <= src.len(); frame length n >= 1)
        if s["fn"] == "insim::net::codec::Codec::decode" and s["kind"] == "precondition" and s["what"].endswith(("BytesMut::split_to", "Buf::advance", "BytesMut::advance", "::index")):
            r41 = [i for i in rep.instances if i["rule"] == "R4.1" and not i["ok"]]
            r42 = [i for i in rep.instances if i["rule"] == "R4.2" and not i["ok"]]
            if not r41 and not r42:
                return "precondition established by R4.1 (4 <= n <= src.len()) and R4.2 (same buffer, same n, frame of n >= 1 bytes)"
            return None
        if s["fn"] == "insim_core::duration::binrw_parse_duration" and s["kind"] == "assert" and s["what"] == "overflow":
            worst = 0
            for (t, sc) in inst:
                r = absint.ty_range(t)
                if r is None or not sc.isdigit():
                    return None
                worst = max(worst, r[1] * int(sc))
            if inst and worst < 2 ** 64:
                return "v * SCALE: every instantiation %s keeps the product below 2^64 (worst %d)" % (sorted(inst), worst)
        return None

    inv, sites = panics.check_paths(ctx, rep, "R4.3", roots, label="decode", extra_discharge=extra)
    rep.check("R4.3", "coverage:readers", len([n for n in inv.reach if n.endswith("binrw::binread::BinRead>::read_options")]) >= 135,
              "expected at least 135 generated/hand-written BinRead impls on the decode path (found %d)" % len([n for n in inv.reach if n.endswith("binrw::binread::BinRead>::read_options")]),
              None, sample={"functions_reachable": len(inv.reach), "sites": len(sites)})
    rep.floor("R4.3", 150)
