"""C12 — escaping tables and scanner ordering (table and ordering clauses only)."""
import re

import tables
from astq import find_nodes
from mirq import callee, origin_calls, origin_mentions_call, strip_refs

EXPLANATION = (
    "Decides the table and ordering clauses: try_lfs_escape and try_lfs_unescape are mutually inverse bijections over LFS's ten "
    "reserved characters (pipe star colon backslash slash question-mark double-quote less greater hash) with images v a c d s q t l r h, both map the caret to the caret first, images and "
    "reserved characters are disjoint; the colour set is exactly '0'..'9' (char and u8 agree); in colours::strip the colour-removal "
    "test is not reachable from the taken escaped-caret branch within one loop iteration and comes after it; in escape the colour "
    "pass-through is tested before escaping and ends its iteration; the guards of the early returns of escape / unescape (rows of the "
    "path table that return before the loop) are evaluated on strings built around every character that needs the slow path and "
    "hold for none of them. Not decided: unescape(escape(s)) = s for all strings, idempotence "
    "of strip, survival through the codepage path (value level)."
)

RESERVED = {"|": "v", "*": "a", ":": "c", "\\": "d", "/": "s", "?": "q", '"': "t", "<": "l", ">": "r", "#": "h"}


DOMAIN = list(range(0, 0x300)) + [0x2028, 0x20AC, 0xD7FF, 0xE000, 0xFFFD, 0x1F600, 0x10FFFF]


def char_table(ctx, rep, fn):
    """the function as a table: its MIR decision table (helpers, named constant tables and iterator searches over them
    evaluated) applied to every character of DOMAIN.  Returns ({char: image} without the caret row, (entity, item))."""
    import tabeval
    ms = ctx.ast.method("char", fn, crate="insim_core")
    name = "<char as insim_core::string::escaping::Escape>::%s" % fn
    if len(ms) != 1 or ctx.mir.body(name) is None:
        rep.fail("R12.1", "%s:found" % fn, "%s not found" % fn)
        return None, None
    e, it = ms[0]
    rep.fn(name)
    m = tabeval.Model(ctx, ctx.mir.body(name), None, local_prefix="insim_core::string::")
    t = {}
    others_none = True
    try:
        for cp in DOMAIN:
            v = m.eval_body(name, {1: cp})
            if not (isinstance(v, tuple) and v[0] == "opt"):
                raise tabeval.Unknown("result for U+%04X is not an Option value" % cp)
            if v[1]:
                if not isinstance(v[2], int):
                    raise tabeval.Unknown("image of U+%04X" % cp)
                t[chr(cp)] = chr(v[2])
    except (tabeval.Unknown, tabeval.Panic) as ex:
        rep.fail("R12.1", "%s:table" % fn, "%s could not be evaluated as a table (%s)" % (fn, ex), ctx.loc(e, it["ln"]))
        return None, None
    rep.check("R12.1", "%s:caret" % fn, t.get("^") == "^", "%s must map the caret to the caret (maps it to %r)" % (fn, t.get("^")), ctx.loc(e, it["ln"]),
              sample={"function": fn, "characters_evaluated": len(DOMAIN), "mapped": len(t)})
    t.pop("^", None)
    extra = sorted(c for c in t if ord(c) >= 0x80)
    rep.check("R12.1", "%s:other" % fn, not extra, "characters outside ASCII must map to None (mapped: %s)" % extra[:5], ctx.loc(e, it["ln"]), nontrivial=False)
    return t, (e, it)


def run(ctx, rep):
    rep.explanation = EXPLANATION
    rep.assumptions = ["LFS's reserved characters and escape letters are those of InSim.txt (^v ^a ^c ^d ^s ^q ^t ^l ^r ^h ^^)"]
    esc, em = char_table(ctx, rep, "try_lfs_escape")
    une, um = char_table(ctx, rep, "try_lfs_unescape")
    if esc is not None and une is not None:
        for ch, letter in sorted(RESERVED.items()):
            rep.check("R12.1", "escape:%s" % ch, esc.get(ch) == letter, "escape(%r) must be %r, table has %r" % (ch, letter, esc.get(ch)), ctx.loc(em[0], em[1]["ln"]),
                      sample={"char": ch, "escape": esc.get(ch)})
            rep.check("R12.1", "unescape:%s" % letter, une.get(letter) == ch, "unescape(%r) must be %r, table has %r" % (letter, ch, une.get(letter)), ctx.loc(um[0], um[1]["ln"]))
        rep.check("R12.1", "escape:domain", set(esc) == set(RESERVED), "escape domain %s vs reserved set %s" % (sorted(esc), sorted(RESERVED)), ctx.loc(em[0], em[1]["ln"]))
        rep.check("R12.1", "unescape:domain", set(une) == set(RESERVED.values()), "unescape domain %s" % sorted(une), ctx.loc(um[0], um[1]["ln"]))
        inv = all(une.get(v) == k for k, v in esc.items()) and all(esc.get(v) == k for k, v in une.items())
        rep.check("R12.1", "inverse", inv and len(set(esc.values())) == len(esc), "escape and unescape tables are not mutually inverse bijections", ctx.loc(em[0], em[1]["ln"]))
        rep.check("R12.1", "disjoint", not (set(esc.values()) & set(RESERVED)) and "^" not in esc.values(), "an escape letter is itself reserved", ctx.loc(em[0], em[1]["ln"]))
    rep.floor("R12.1", 26)
    # ---- R12.2 colour set
    ms = ctx.ast.method("char", "is_lfs_colour", crate="insim_core")
    if len(ms) == 1:
        st = tables.matches_set(ms[0][1]["body"])
        got = sorted(x[1] for x in st[0] if x[0] == "lit") if st else []
        for x in (st[0] if st else []):
            if x[0] == "range":
                got = sorted(set(got) | {chr(c) for c in range(ord(x[1]), ord(x[2]) + (1 if x[3] else 0))})
        rep.check("R12.2", "colours:char", got == list("0123456789"), "colour codes must be exactly '0'..'9': %s" % got, ctx.loc(ms[0][0], ms[0][1]["ln"]), sample={"set": got})
    else:
        rep.fail("R12.2", "colours:char", "is_lfs_colour for char not found")
    ms = ctx.ast.method("u8", "is_lfs_colour", crate="insim_core")
    if len(ms) == 1:
        d = tables.edesc(ms[0][1]["body"][0]["e"]) if ms[0][1]["body"] else None
        rep.check("R12.2", "colours:u8", d is not None and d[0] == "method" and d[1] == "is_lfs_colour" and d[2][0] == "cast" and d[2][2] == "char",
                  "u8::is_lfs_colour must delegate to the char implementation", ctx.loc(ms[0][0], ms[0][1]["ln"]), nontrivial=False)
    rep.floor("R12.2", 1)
    # ---- R12.3 ordering in strip / escape (MIR)
    order_rules(ctx, rep)
    unit_rule(ctx, rep)
    fast_path(ctx, rep)
    # "escaped text survives the codepage encode/decode path - carets included": the decoder must recognise markers wherever the
    # encoder puts them, also directly behind an escaped caret (C10's R10.7)
    from props import c10
    c10.marker_scan(ctx, rep)


CHARWISE = r"core::str::<impl str>::(chars|contains|find|rfind)$"


def fast_path(ctx, rep):
    """R12.5 an early return of `escape` / `unescape` hands the input back untouched.  Its guard is evaluated (path table of the
    function, the guard's character predicate through tabeval) on strings built around every character that needs the slow
    path: for escape every reserved character and the caret, for unescape the caret.  If a guard holds for such a string the
    function returns text with that character still raw."""
    import tabeval
    for fn, needs in (("escape", sorted(RESERVED) + ["^"]), ("unescape", ["^"])):
        name = "insim_core::string::escaping::%s" % fn
        b = ctx.mir.body(name)
        if b is None:
            rep.fail("R12.5", "%s:found" % fn, "escaping::%s not found" % fn)
            continue
        rows = b.decision_rows(0, 20000)
        loopset = set()
        for h in b.loop_heads():
            loopset |= set(b.reach_within_iteration(h)) | {h}
        fast = [r for r in rows if r[1][0] == "ret" and r[1][1] != "loop"
                and not any(c2[4] in loopset for c in r[0] for c2 in origin_calls(c[4]))]      # returns decided before the loop is entered
        rep.check("R12.5", "%s:early-returns" % fn, True, "", None, nontrivial=False, sample={"function": fn, "early_returns": len(fast), "rows": len(rows)})
        if not fast:
            continue

        def extra_call(d, rd, args, m):
            if re.search(r"core::str::<impl str>::chars$", d):
                return m.ev.ev(args[0])
            mm = re.search(r"core::str::<impl str>::(contains|find|rfind)$", d)
            if mm and len(args) == 2:
                seq = m.ev.ev(args[0])
                if not (isinstance(seq, tuple) and seq[0] == "list"):
                    raise tabeval.Unknown("text")
                pat = args[1]
                px = strip_refs(pat)

                def test(x):
                    if (px[0] == "agg" and px[1][0] == "closure") or px[0] == "fnconst":
                        if px[0] == "fnconst":
                            v = m.call(px[1], px[2], [("value", x)], m.ev)
                        else:
                            v = m.eval_body(px[1][1], m.closure_args(px, x, m.ev))
                        if v is None or isinstance(v, tuple):
                            raise tabeval.Unknown("pattern predicate")
                        return bool(v)
                    pv = m.ev.ev(pat)
                    if isinstance(pv, int):
                        return x == pv
                    if isinstance(pv, tuple) and pv[0] == "list" and all(isinstance(y, int) for y in pv[1]):
                        return x in pv[1]
                    raise tabeval.Unknown("pattern %r" % (pv,))
                order = list(enumerate(seq[1])) if mm.group(1) != "rfind" else list(enumerate(seq[1]))[::-1]
                hit = [i for i, x in order if test(x)]
                if mm.group(1) == "contains":
                    return 1 if hit else 0
                return ("opt", True, hit[0]) if hit else ("opt", False, None)
            return None
        m = tabeval.Model(ctx, b, None, local_prefix="insim_core::string::", extra_call=extra_call)
        for ch in needs:
            bad, why = None, None
            for text in (ch, "a" + ch, ch + "a", "a" + ch + "a"):
                m.args = {1: ("list", tuple(ord(x) for x in text))}
                m.ev.reset()
                for r in fast:
                    try:
                        if all(m.ev.cond_holds(c) for c in r[0]):
                            bad = text
                            break
                    except tabeval.Panic:
                        continue
                    except tabeval.Unknown as ex:
                        why = str(ex)
                        break
                if bad or why:
                    break
            if why:
                rep.fail("R12.5", "%s:%s:undecided" % (fn, ch), "the guard of an early return of %s could not be evaluated (%s)" % (fn, why), b.loc())
            else:
                rep.check("R12.5", "%s:%s" % (fn, ch), bad is None,
                          "%s(%r) takes an early return that hands the text back untouched: %r stays raw in the output" % (fn, bad, ch), b.loc(),
                          sample={"function": fn, "character": ch, "early_return_taken": False})
    rep.floor("R12.5", 10)


BYTE_OFFSETS = r"core::str::<impl str>::(find|rfind|len|floor_char_boundary|ceil_char_boundary)$|alloc::string::String::len$|<impl char>::len_utf8$|CharIndices"
CHAR_COUNTS = r"Iterator::(count|position|rposition)$|Enumerate"
CHAR_CONSUMERS = r"Iterator::(skip|take|nth|step_by|advance_by)$"
BYTE_CONSUMERS = r"core::str::<impl str>::(split_at|split_at_checked|get|get_unchecked|is_char_boundary)$|core::str::traits::<impl core::ops::Index<I> for str>::index$|alloc::string::String::(truncate|split_off|insert|insert_str|remove|drain|replace_range)$"


def unit_rule(ctx, rep):
    """R12.4 byte offsets and character counts are different units: in the text-transforming functions a value that derives
    from a byte offset (str::find / len / char_indices ...) must not be used as a number of characters (skip / take / nth on a
    character iterator), and a character count (count / position / enumerate on a character iterator) must not be used as a byte
    position (slicing, split_at, get).  The two agree for ASCII only - the inputs the examples use."""
    n_sites = 0
    for name in sorted(ctx.mir.bodies):
        if not (name.startswith("insim_core::string::escaping::") or name.startswith("insim_core::string::colours::")) or name.endswith("#promoted"):
            continue
        b = ctx.mir.body(name)
        if b is None:
            continue
        ordn = {}

        def ordinal(t):
            k = callee(t)[0].split("::")[-1]
            ordn[k] = ordn.get(k, 0) + 1
            return ordn[k] - 1
        for bb, t in b.calls_to(CHAR_CONSUMERS):
            ga = " ".join(str(x) for x in (callee(t)[2] or []))
            if "Chars" not in ga or len(t["args"]) < 2:
                continue
            n_sites += 1
            bb = ordinal(t)
            o = b.origin(t["args"][1])
            src = [c for c in b.may_calls(o) if re.search(BYTE_OFFSETS, c[1] or "") or re.search(BYTE_OFFSETS, c[2] or "")]
            rep.check("R12.4", "%s:%s:%d" % (name.split("::")[-1], callee(t)[0].split("::")[-1], bb), not src,
                      "%s uses a byte offset (%s) as a number of characters in %s: they differ as soon as the text before it is not ASCII"
                      % (name, ", ".join(sorted({(c[1] or "").split("::")[-1] for c in src})), callee(t)[0].split("::")[-1]), b.loc(t["line"]), nontrivial=False)
        for bb, t in b.calls_to(BYTE_CONSUMERS):
            if len(t["args"]) < 2:
                continue
            n_sites += 1
            bb = ordinal(t)
            o = b.origin(t["args"][1])
            src = []
            for c in b.may_calls(o):
                if re.search(CHAR_COUNTS, c[1] or "") or re.search(CHAR_COUNTS, c[2] or ""):
                    g = " ".join(str(x) for x in (c[5] if len(c) > 5 and c[5] else []))
                    if "Chars" in g and "CharIndices" not in g:
                        src.append(c)
            rep.check("R12.4", "%s:%s:%d" % (name.split("::")[-1], callee(t)[0].split("::")[-1], bb), not src,
                      "%s uses a character count (%s) as a byte position in %s" % (name, ", ".join(sorted({(c[1] or "").split("::")[-1] for c in src})), callee(t)[0].split("::")[-1]),
                      b.loc(t["line"]), nontrivial=False)
    rep.check("R12.4", "sites", True, "", None, nontrivial=False, sample={"unit_sensitive_call_sites": n_sites})


def calls_with(body, defpat, argpat):
    out = []
    for bb, t in body.calls_to(defpat):
        o = body.origin(t["args"][0])
        if argpat is None or origin_mentions_call(o, argpat):
            out.append((bb, t))
    return out


ADAPTORS = r"Peekable<I>::next_if$|Peekable.*::next_if$|Option::<T>::(filter|and_then|is_some_and|map_or|map)$"


def lookahead_tests(ctx, body, defpat):
    """sites where `body` applies the predicate/translation `defpat` to the look-ahead character, with the edges taken when it
    succeeds / fails: list of dict(site, true_t, false_t, consumes).  Two spellings are recognised:
      direct   `if let Some(d) = chars.peek() { if d.pred() {..} }`          (bool branch / Option match on the call's result)
      closure  `chars.next_if(|d| d.pred())`, `chars.peek().and_then(|j| j.translate())`, `.filter(..)`, `.is_some_and(..)`
               (the predicate is called inside a closure of `body` on the closure's parameter; the branch is the match on the
               adaptor's result).  `consumes` is True when the adaptor itself advances the iterator on success (next_if)."""
    out = []
    for bb, t in calls_with(body, defpat, r"Peekable.*::peek$"):
        br = body.bool_branch(bb)
        if br is None:
            sw = body.discr_switch_of_call(bb)
            if sw is not None:
                br = (sw[0], sw[1].get(0, sw[2]), sw[1].get(1, sw[2]))
        if br is not None:
            out.append({"site": bb, "line": t["line"], "false_t": br[1], "true_t": br[2], "consumes": False})
        else:
            out.append({"site": bb, "line": t["line"], "false_t": None, "true_t": None, "consumes": False})
    base = body.name.split("#")[0]
    for cn in sorted(k for k in ctx.mir.bodies if k.startswith(base + "::{closure#") and not k.endswith("#promoted")):
        cb = ctx.mir.body(cn)
        inner = [(cbb, ct) for cbb, ct in cb.calls_to(defpat) if strip_refs(cb.origin(ct["args"][0]))[0] == "arg"]
        if not inner:
            continue
        # where is this closure handed to an adaptor over the look-ahead?
        for bb, t in body.calls_to(ADAPTORS):
            args = [body.origin(a) for a in t["args"]]
            if not any(a[0] == "agg" and a[1] == ("closure", cn) for a in args):
                continue
            d = callee(t)[0] or ""
            if not (d.endswith("next_if") or origin_mentions_call(args[0], r"Peekable.*::peek$")):
                continue
            br = None
            if d.endswith("is_some_and") or d.endswith("map_or"):
                br = body.bool_branch(bb)
            else:
                sw = body.discr_switch_of_call(bb)
                if sw is not None:
                    br = (sw[0], sw[1].get(0, sw[2]), sw[1].get(1, sw[2]))
            out.append({"site": bb, "line": t["line"], "false_t": br[1] if br else None, "true_t": br[2] if br else None, "consumes": d.endswith("next_if")})
    return out


def order_rules(ctx, rep):
    NEXT = r"Iterator>::next$|Iterator::next$"
    b = ctx.mir.body("insim_core::string::colours::strip")
    if b is None:
        rep.fail("R12.3", "strip:found", "colours::strip not found")
    else:
        rep.fn(b.name)
        A = lookahead_tests(ctx, b, r"ControlCharacter::is_lfs_control_char$")
        B = lookahead_tests(ctx, b, r"Colour::is_lfs_colour$")
        ok = len(A) == 1 and len(B) == 1
        rep.check("R12.3", "strip:anchors", ok, "strip must test the peeked character once for a caret and once for a colour (found %d/%d)" % (len(A), len(B)), b.loc())
        if ok:
            a, c = A[0], B[0]
            if a["true_t"] is not None:
                taken = b.reach_within_iteration(a["true_t"])
                rep.check("R12.3", "strip:escaped-caret-first", c["site"] not in taken,
                          "after the escaped-caret (^^) branch is taken the colour test is still reachable in the same iteration: ^^1 would lose its digit",
                          b.loc(a["line"]), sample={"caret_test_bb": a["site"], "colour_test_bb": c["site"], "taken_region": sorted(taken)[:12]})
                after = b.reach_within_iteration(b.blocks[c["site"]]["term"]["target"])
                rep.check("R12.3", "strip:order", a["site"] not in after, "the colour test precedes the escaped-caret test", b.loc(c["line"]))
                # the taken branch keeps both characters: two pushes, one consumed look-ahead
                pushes = [bb for bb, t in b.calls_to(r"String::push$") if bb in taken]
                nexts = [bb for bb, t in b.calls_to(NEXT) if bb in taken]
                rep.check("R12.3", "strip:escaped-caret-kept", len(pushes) == 2 and len(nexts) + (1 if a["consumes"] else 0) == 1,
                          "the ^^ branch must push both carets and consume the second (pushes %d, consumed %d)" % (len(pushes), len(nexts) + (1 if a["consumes"] else 0)), b.loc(a["line"]))
                if c["true_t"] is not None:
                    takenc = b.reach_within_iteration(c["true_t"])
                    pc = [bb for bb, t in b.calls_to(r"String::push$") if bb in takenc]
                    nc = [bb for bb, t in b.calls_to(NEXT) if bb in takenc]
                    rep.check("R12.3", "strip:colour-dropped", len(pc) == 0 and len(nc) + (1 if c["consumes"] else 0) == 1,
                              "the colour branch must drop the caret and consume the digit (pushes %d, consumed %d)" % (len(pc), len(nc) + (1 if c["consumes"] else 0)), b.loc(c["line"]))
                else:
                    rep.fail("R12.3", "strip:colour-branch", "colour test result is not branched on", b.loc(c["line"]))
            else:
                rep.fail("R12.3", "strip:caret-branch", "caret test result is not branched on", b.loc(a["line"]))
    e = ctx.mir.body("insim_core::string::escaping::escape")
    if e is None:
        rep.fail("R12.3", "escape:found", "escaping::escape not found")
    else:
        rep.fn(e.name)
        C = lookahead_tests(ctx, e, r"Colour::is_lfs_colour$")
        E = [(bb, t) for bb, t in e.calls_to(r"Escape::try_lfs_escape$") if bb in e.reach_within_iteration(min(e.loop_heads()))] if e.loop_heads() else []
        ok = len(C) == 1 and len(E) == 1
        rep.check("R12.3", "escape:anchors", ok, "escape must test for a colour once and escape once inside the loop (found %d/%d)" % (len(C), len(E)), e.loc())
        if ok:
            c = C[0]
            if c["true_t"] is not None:
                taken = e.reach_within_iteration(c["true_t"])
                rep.check("R12.3", "escape:colour-first", E[0][0] not in taken, "a colour code falls through to escaping (its caret would be doubled)", e.loc(c["line"]),
                          sample={"colour_test_bb": c["site"], "escape_bb": E[0][0]})
                after = e.reach_within_iteration(E[0][1]["target"])
                rep.check("R12.3", "escape:order", c["site"] not in after, "escaping is attempted before the colour pass-through", e.loc(E[0][1]["line"]))
            else:
                rep.fail("R12.3", "escape:colour-branch", "colour test result is not branched on", e.loc(c["line"]))
    u = ctx.mir.body("insim_core::string::escaping::unescape")
    if u is None:
        rep.fail("R12.3", "unescape:found", "escaping::unescape not found")
    else:
        rep.fn(u.name)
        U = lookahead_tests(ctx, u, r"Escape::try_lfs_unescape$")
        rep.check("R12.3", "unescape:lookahead", len(U) == 1, "unescape must translate the peeked character after a caret (found %d sites)" % len(U), u.loc())
    rep.floor("R12.3", 5)
