"""Shared: enumerate the Packet enum and normalise wire segments to the comparison alphabet."""
from astq import attr_directives, eval_int, NotConst


def packet_variants(ctx):
    """[{variant, magic, magic_w, ty, lay, loc}] for every variant of insim::packet::Packet"""
    ent = ctx.ast.one("Packet", kinds=("Enum",), crate="insim")
    out = []
    if ent is None:
        return None, out
    for v in ent[3]["variants"]:
        ms = [d for d in attr_directives(v, ("brw", "br", "bw")) if d["key"] == "magic"]
        magic, mw, msides = None, None, set()
        for d in ms:
            try:
                magic = eval_int(d["value"])
            except NotConst:
                magic = None
            mw = ctx.wire.magic_width(d["value"])
            msides |= set(ctx.wire.sides(d))
        tyname = v["fields"][0]["ty"]["name"] if v["fields"] else None
        modhint = "insim::relay" if v["name"].startswith("Relay") else "insim::insim"
        lay = ctx.wire.item_layout(tyname, modhint=modhint) if tyname else None
        out.append({"variant": v["name"], "magic": magic, "magic_w": mw, "magic_sides": msides, "ty": tyname, "lay": lay,
                    "loc": ctx.loc(ent, v["ln"]), "nfields": len(v["fields"]), "dirs": attr_directives(v, ("brw", "br", "bw"))})
    return ent, out


U_LIKE = ("uint", "flags", "enum", "bool", "char", "ip")


def norm(segs, side, und):
    """normalise wire segments -> [(name, width|None, cls, extra)] with cls in u i f s b Z t:ms t:cs tail count ?"""
    out = []
    for s in segs:
        cls = s["cls"]
        name = s.get("name", "")
        w = s["w"]
        if cls in U_LIKE:
            out.append((name, w, "u", {"kind": cls, "ref": s.get("enum") or s.get("flags")}))
        elif cls == "sint":
            out.append((name, w, "i", {}))
        elif cls == "float":
            out.append((name, w, "f", {}))
        elif cls in ("pad", "magic"):
            out.append(("Z", w, "Z", {}))
        elif cls == "const0":
            out.append(("Z", w, "Z", {}))
        elif cls == "text":
            if w is not None:
                out.append((name, w, "s", {"raw": s.get("raw")}))
            else:
                v = s.get("var", {})
                out.append((name, None, "tail", {"max": v.get("max"), "align": v.get("align"), "raw": s.get("raw")}))
        elif cls == "time":
            unit = {1: "ms", 10: "cs"}.get(s.get("scale"), "?%s" % s.get("scale"))
            out.append((name, w, "t:" + unit, {"ity": s.get("ity")}))
        elif cls == "array":
            e = s["elem"]
            if e["w"] == 1 and e["cls"] in U_LIKE:
                out.append((name, w, "b", {"elem": e.get("enum") or e.get("flags")}))
            else:
                for i in range(s["n"]):
                    for x in norm([e], side, und):
                        out.append(("%s[%d]" % (name, i), x[1], x[2], x[3]))
        elif cls == "hand-variant":
            # all alternatives have the same total width: opaque bytes
            out.append((name, w, "b", {"alts": s.get("alts")}))
        elif cls == "helper":
            inner = s.get("inner")
            if inner is None:
                out.append((name, None, "?", {"why": "helper %s has alternative layouts" % s.get("helper")}))
            elif any(x["cls"] == "loop" for x in inner):
                # count-driven loop helper: elements follow the loop marker
                elems = [x for x in inner if x["cls"] != "loop"]
                out.append((name, None, "count", {"count": (s.get("args") or [None])[0] if side == "read" else None,
                                                  "elem": norm(elems, side, und), "helper": s.get("helper"),
                                                  "loop_source": s.get("loop_source")}))
            else:
                for x in norm(inner, side, und):
                    out.append((name + ("." + x[0] if x[0] and x[0] != "Z" else ""), x[1], x[2], x[3]))
        elif cls == "counted":
            v = s["var"]
            out.append((name, None, "count", {"count": v.get("count"), "elem": norm(v["elem"], side, und)}))
        elif cls == "vec":
            out.append((name, None, "vec", {"elem": norm(s["var"]["elem"], side, und)}))
        elif cls == "align":
            out.append(("A", None, "align", {"align": s.get("align")}))
        elif cls == "tail":
            out.append((name, None, "tail", {}))
        elif cls == "tail-alts":
            # hand-written reader/writer whose remainder differs per path: a text tail iff every alternative
            # consists of byte vectors / until-eof reads only
            alts = s["var"]["alts"]
            if all(all(c in ("tail", "counted", "vec") for (_w, c) in a) for a in alts):
                out.append((name, None, "tail", {"alts": alts}))
            else:
                out.append((name, None, "?", {"why": "alternatives %s" % alts}))
        else:
            out.append((name, w, "?", {"why": "segment class %s" % cls}))
    # merge adjacent pads
    merged = []
    for x in out:
        if x[2] == "Z" and merged and merged[-1][2] == "Z" and merged[-1][1] is not None and x[1] is not None:
            merged[-1] = ("Z", merged[-1][1] + x[1], "Z", {})
        else:
            merged.append(x)
    return merged


def show(nsegs):
    return " ".join("%s:%s%s" % (n, c, w if w is not None else "") for (n, w, c, _e) in nsegs)


def basename(n):
    return n.split(".")[0].split("[")[0].lower()


def strip_trailing_align(nsegs):
    """drop a write-side alignment after the last field (trailing pad bytes the reader never looks at)"""
    out = list(nsegs)
    while out and out[-1][2] == "align":
        out.pop()
    return out
