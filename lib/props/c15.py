"""C15 — time and race-length conversions are exact, or refused — never wrong."""
import re

import absint
import panics
import tables
from mirq import callee, fmt_origin, origin_calls

EXPLANATION = (
    "R15.1 the generic duration helpers on MIR: the writer converts `as_millis() / SCALE` with T::try_from (a checked conversion, no "
    "`as`), writes the Ok payload and turns Err into an error; the parser widens with try_into::<u64> and multiplies by the same const "
    "parameter SCALE inside Duration::from_millis; per field the (T, SCALE) pair of parser and writer agree (C01/R1.1) and match the "
    "spec unit (C02). R15.2 NarrowCast: interval analysis (branch- and match-range-refined) of every narrowing `as` conversion in every "
    "workspace function reachable from the packet writer and from the RaceLaps/SmallType conversions: the operand interval must fit the "
    "target type; bool/enum-discriminant casts fit by range; element counts are decided by C03/R3.2; `char as u8` is the reviewed "
    "Latin-1 idiom of C01's domain. R15.3 the RaceLaps byte->value table (range rows and formulas) equals the specification's, the "
    "encoder's formulas invert it and its fallback arms are 0 (practice). Not decided: rounding behaviour per value."
)

DECIDED_ELSEWHERE = {
    "insim::net::mode::Mode::encode_length": "C03/R3.3 analyses the size-byte cast per Mode variant (the hull over both variants is not precise enough)",
}

REVIEWED_CASTS = {
    # (from, to): reason
    ("char", "u8"): "C01 domain: ISI prefix / SCH character are Latin-1 (one byte on the wire)",
}


def run(ctx, rep):
    rep.explanation = EXPLANATION
    rep.assumptions = ["core::time::Duration::as_millis/from_millis and TryFrom/TryInto between integers behave as documented"]
    helpers(ctx, rep)
    narrow_casts(ctx, rep)
    racelaps_table(ctx, rep)


def helpers(ctx, rep):
    w = ctx.mir.body("insim_core::duration::binrw_write_duration")
    p = ctx.mir.body("insim_core::duration::binrw_parse_duration")
    if w is None or p is None:
        rep.fail("R15.1", "found", "duration helpers not found")
        return
    rep.fn(w.name)
    rep.fn(p.name)
    tf = w.calls_to(r"convert::TryFrom::try_from$")
    ok = len(tf) == 1
    detail = "expected one T::try_from call (found %d)" % len(tf)
    if ok:
        o = w.origin(tf[0][1]["args"][0])
        ok = o[0] == "bin" and o[1] == "Div" and o[2][0] == "call" and o[2][1].endswith("Duration::as_millis") and o[3][0] == "const" and o[3][2] == "SCALE"
        detail = "the converted value must be `input.as_millis() / SCALE`; found %s" % fmt_origin(o)
    rep.check("R15.1", "write:divide-then-convert", ok, detail, w.loc(), sample={"value": fmt_origin(w.origin(tf[0][1]["args"][0])) if tf else None})
    casts = [st for bl in w.blocks for st in bl["stmts"] if st["k"] == "assign" and st["rv"]["k"] == "cast" and st["rv"]["kind"] == "IntToInt" and not st.get("exp")]
    rep.check("R15.1", "write:no-as-cast", not casts, "binrw_write_duration narrows with `as` (%s)" % [(c["rv"]["from"], c["rv"]["to"]) for c in casts], w.loc())
    if tf:
        sw = w.discr_switch_of_call(tf[0][0])
        okm = False
        if sw:
            ok_t, err_t = sw[1].get(0), sw[1].get(1, sw[2])
            wr = [bb for bb, t in w.calls_to(r"BinWrite::write_options$") if bb in w.reach(ok_t)]
            okm = len(wr) == 1 and not [bb for bb, t in w.calls_to(r"BinWrite::write_options$") if bb in w.reach(err_t) and bb not in w.reach(ok_t)] and "Err" in w.ret_kinds(err_t)
            if wr:
                vo = w.origin(w.blocks[wr[0]]["term"]["args"][0])
                okm = okm and "Ok" in str(vo) and any(c[4] == tf[0][0] for c in origin_calls(vo))
        rep.check("R15.1", "write:err-is-error", okm, "a value that does not fit T must become an error and only the Ok payload may be written", w.loc())
    ti = p.calls_to(r"convert::TryInto::try_into$")
    fm = p.calls_to(r"Duration::from_millis$")
    ok = len(ti) == 1 and len(fm) == 1
    detail = "expected one try_into and one from_millis"
    if ok:
        o = p.origin(fm[0][1]["args"][0])
        x = o
        if x[0] == "field":
            x = x[1]
        ok = x[0] == "bin" and x[1] in ("MulWithOverflow", "Mul") and x[3][0] == "const" and x[3][2] == "SCALE" and any(c[4] == ti[0][0] for c in origin_calls(x[2]))
        ga = callee(ti[0][1])[2]
        ok = ok and len(ga) >= 2 and ga[1] == "u64"
        detail = "the parser must compute from_millis(try_into::<u64>(raw)? * SCALE); found %s" % fmt_origin(o)
    rep.check("R15.1", "parse:widen-then-multiply", ok, detail, p.loc(), sample={"value": fmt_origin(p.origin(fm[0][1]["args"][0])) if fm else None})
    rep.floor("R15.1", 4)


def narrow_casts(ctx, rep):
    roots = ["<insim::packet::Packet as binrw::binwrite::BinWrite>::write_options", "insim::net::codec::Codec::encode",
             "insim::insim::racelaps::<impl core::convert::From<insim::insim::racelaps::RaceLaps> for u8>::from",
             "<insim::insim::small::SmallType as binrw::binwrite::BinWrite>::write_options", "insim_core::duration::binrw_write_duration"]
    roots = [r for r in roots if ctx.mir.body(r) is not None]
    rep.check("R15.2", "roots", len(roots) == 5, "write-path roots missing (found %d of 5)" % len(roots), None, nontrivial=False)
    inv = panics.Inventory(ctx.mir, roots)
    n = 0
    for fn in inv.reach:
        b = ctx.mir.body(fn)
        has = any(st["k"] == "assign" and st["rv"]["k"] == "cast" and st["rv"]["kind"] == "IntToInt" for bl in b.blocks for st in bl["stmts"])
        if not has:
            continue
        try:
            an = absint.Intervals(b, ctx.mir)
        except Exception as e:
            rep.fail("R15.2", "%s:analysis" % fn, "interval analysis failed: %s" % e, b.loc())
            continue
        ordn = {}
        for c in an.casts:
            if c["bb"] not in an.reachable():
                continue
            st = b.blocks[c["bb"]]["stmts"][c["idx"]]
            o = b.origin(st["rv"]["x"])
            k = (c["from"], c["to"])
            ordn[k] = ordn.get(k, 0) + 1
            key = "%s:%s->%s:%d" % (fn, c["from"], c["to"], ordn[k] - 1)
            n += 1
            why = None
            if c["fits"]:
                why = "operand interval %s fits %s" % (list(c["iv"]), c["to"])
            elif fn in DECIDED_ELSEWHERE:
                why = "decided elsewhere: " + DECIDED_ELSEWHERE[fn]
            elif k in REVIEWED_CASTS:
                why = "reviewed idiom: " + REVIEWED_CASTS[k]
            elif o[0] == "call" and re.search(r"::len$", o[1] or "") and c["to"] in ("u8", "i32"):
                why = "element count: decided by C03/R3.2 and C17 (count cannot wrap in an emitted frame)"
            elif c["exp"] and c["from"] in ("isize", "u8", "i8") and c["iv"] is None:
                why = None
            rep.fn(fn)
            rep.check("R15.2", key, why is not None,
                      "narrowing conversion `%s as %s` in %s: the operand ranges over %s (%s) and silently wraps to a different valid value"
                      % (c["from"], c["to"], fn, [c["iv"][0], min(c["iv"][1], 2 ** 128)] if c["iv"] else "unknown", fmt_origin(o)[:100]), b.loc(c["line"]),
                      nontrivial=not c["fits"] or c["from"] not in ("bool",), sample={"function": fn, "cast": "%s as %s" % k, "operand": fmt_origin(o)[:80], "verdict": why} if not c["fits"] or n < 4 else None)
    rep.floor("R15.2", 15)
    rep.notes.append("R15.2: %d functions on the write paths, %d narrowing casts" % (len(inv.reach), n))


SPEC_DECODE = [
    # (lo, hi, variant, formula description)
    (0, 0, "Practice", None),
    (1, 99, "Laps", ("path", "value")),
    (100, 190, "Laps", ("bin", "+", ("bin", "*", ("bin", "-", ("path", "value"), ("lit", 100)), ("lit", 10)), ("lit", 100))),
    (191, 238, "Hours", ("bin", "-", ("path", "value"), ("lit", 190))),
]


def racelaps_table(ctx, rep):
    ms = [m for m in ctx.ast.method("RaceLaps", "from", crate="insim") if "From<u8>" in (m[0][3].get("trait") or "")]
    if len(ms) != 1:
        rep.fail("R15.3", "decode:found", "impl From<u8> for RaceLaps not found")
        return
    e, it = ms[0]
    rep.fn("<insim::insim::racelaps::RaceLaps as core::convert::From<u8>>::from")
    mt = tables.first_match(it["body"], "value")
    rows = tables.rows(mt["arms"]) if mt else []
    got = []
    fallback = None
    for (p, b, g, ln) in rows:
        if p[0] == "lit":
            got.append((p[1], p[1], b, ln))
        elif p[0] == "range" and p[3]:
            got.append((p[1], p[2], b, ln))
        elif p[0] == "wild":
            fallback = (b, ln)
    for (lo, hi, var, formula) in SPEC_DECODE:
        r = [x for x in got if x[0] == lo and x[1] == hi]
        ok = len(r) == 1
        detail = "no row for %d..=%d" % (lo, hi)
        if ok:
            b = r[0][2]
            if formula is None:
                ok = b == ("path", "RaceLaps::%s" % var)
            else:
                ok = b[0] == "call" and b[1] == "RaceLaps::%s" % var and len(b[2]) == 1 and b[2][0] == formula
            detail = "row %d..=%d must be RaceLaps::%s(%s); found %s" % (lo, hi, var, formula, b)
        rep.check("R15.3", "decode:%d..%d" % (lo, hi), ok, detail, ctx.loc(e, r[0][3] if r else it["ln"]), sample={"range": [lo, hi], "variant": var})
    rep.check("R15.3", "decode:other", fallback is not None and fallback[0] == ("path", "RaceLaps::Practice") and len(got) == len(SPEC_DECODE),
              "every other byte must decode as Practice and no extra rows may exist (rows %d)" % len(got), ctx.loc(e, it["ln"]))
    # encoder
    ms = [m for m in ctx.ast.method("u8", "from", crate="insim") if "From<RaceLaps>" in (m[0][3].get("trait") or "")]
    if len(ms) != 1:
        rep.fail("R15.3", "encode:found", "impl From<RaceLaps> for u8 not found")
        return
    e, it = ms[0]
    rep.fn("<u8 as core::convert::From<insim::insim::racelaps::RaceLaps>>::from")
    mt = tables.first_match(it["body"], "item")
    arms = {}
    for a in (mt["arms"] if mt else []):
        p = tables.pdesc(a["pat"])
        arms[p[1] if p[0] == "var" else str(p)] = a
    okp = "Practice" in arms and tables.edesc(arms["Practice"]["body"]) == ("lit", 0)
    rep.check("R15.3", "encode:practice", okp, "Practice must encode as 0", ctx.loc(e, it["ln"]))

    def inner_rows(arm):
        m2 = tables.first_match(arm["body"])
        return tables.rows(m2["arms"]) if m2 else None
    laps = inner_rows(arms["Laps"]) if "Laps" in arms else None
    okl = False
    if laps:
        d = {(p[1], p[2]) if p[0] == "range" else p[0]: b for (p, b, g, ln) in laps}
        okl = d.get((1, 99)) == ("path", "data") and d.get((100, 1000)) == ("bin", "+", ("bin", "/", ("bin", "-", ("path", "data"), ("lit", 100)), ("lit", 10)), ("lit", 100)) and d.get("wild") == ("lit", 0)
    rep.check("R15.3", "encode:laps", okl, "Laps must encode 1..=99 as itself, 100..=1000 as (n-100)/10+100 and anything else as 0 (practice); found %s" % (laps,), ctx.loc(e, it["ln"]),
              sample={"rows": [[list(map(str, p)), str(b)] for (p, b, g, ln) in (laps or [])]})
    hours = inner_rows(arms["Hours"]) if "Hours" in arms else None
    okh = False
    if hours:
        d = {(p[1], p[2]) if p[0] == "range" else p[0]: b for (p, b, g, ln) in hours}
        okh = d.get((1, 48)) == ("bin", "+", ("path", "data"), ("lit", 190)) and d.get("wild") == ("lit", 0)
    rep.check("R15.3", "encode:hours", okh,
              "Hours must encode 1..=48 as h+190 and anything else as 0 (practice); found %s" % ((hours,) if hours else tables.edesc(arms["Hours"]["body"]) if "Hours" in arms else None,), ctx.loc(e, it["ln"]))
    rep.floor("R15.3", 7)
