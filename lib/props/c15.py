"""C15 — time and race-length conversions are exact, or refused — never wrong."""
import re

import absint
import panics
import tables
from mirq import callee, fmt_origin, origin_calls

EXPLANATION = (
    "R15.1 the generic duration helpers on MIR: the writer converts `as_millis() / SCALE` with T::try_from (a checked conversion, no "
    "`as`), writes the Ok payload and turns Err into an error; the parser widens with try_into::<u64> and multiplies by the same const "
    "parameter SCALE inside Duration::from_millis; per field the (T, SCALE) pair of parser and writer agree (C01/R1.1) and match the "
    "spec unit (C02). R15.2 NarrowCast: interval analysis (branch- and match-range-refined) of every narrowing `as` conversion in every "
    "workspace function reachable from the packet writer and from the RaceLaps/SmallType conversions: the operand interval must fit the "
    "target type; bool/enum-discriminant casts fit by range; element counts are decided by C03/R3.2; `char as u8` is the reviewed "
    "Latin-1 idiom of C01's domain. R15.3 the RaceLaps byte->value table (range rows and formulas) equals the specification's, the "
    "encoder's formulas invert it and its fallback arms are 0 (practice). Not decided: rounding behaviour per value."
)

DECIDED_ELSEWHERE = {
    "insim::net::mode::Mode::encode_length": "C03/R3.3 analyses the size-byte cast per Mode variant (the hull over both variants is not precise enough)",
}

REVIEWED_CASTS = {
    # (from, to): reason
    ("char", "u8"): "C01 domain: ISI prefix / SCH character are Latin-1 (one byte on the wire)",
}


def _decided_elsewhere(ctx, fn):
    """the entry of DECIDED_ELSEWHERE for fn or for the function whose private helper (only caller chain) fn is"""
    f = fn
    for _ in range(4):
        if f in DECIDED_ELSEWHERE:
            return DECIDED_ELSEWHERE[f] + ("" if f == fn else " [%s is a helper called only from %s]" % (fn, f))
        f = panics.sole_caller(ctx.mir, f)
        if f is None:
            return None
    return None


def run(ctx, rep):
    rep.explanation = EXPLANATION
    rep.assumptions = ["core::time::Duration::as_millis/from_millis and TryFrom/TryInto between integers behave as documented"]
    helpers(ctx, rep)
    narrow_casts(ctx, rep)
    racelaps_table(ctx, rep)
    small_durations(ctx, rep)


def helpers(ctx, rep):
    w = ctx.mir.body("insim_core::duration::binrw_write_duration")
    p = ctx.mir.body("insim_core::duration::binrw_parse_duration")
    if w is None or p is None:
        rep.fail("R15.1", "found", "duration helpers not found")
        return
    rep.fn(w.name)
    rep.fn(p.name)
    from mirq import expand_adaptors, inline_calls
    local = lambda d: d.startswith("insim_core::duration::") and "{closure" not in d and not d.endswith(("binrw_write_duration", "binrw_parse_duration"))
    w = inline_calls(w, local, depth=3)          # private conversion helpers are part of the two functions
    p = inline_calls(p, local, depth=3)
    w = expand_adaptors(w)          # `.map_err(..)?` and `match` spell the same control flow
    p = expand_adaptors(p)
    tf = w.calls_to(r"convert::TryFrom::try_from$")
    ok = len(tf) == 1
    detail = "expected one T::try_from call (found %d)" % len(tf)
    if ok:
        o = w.origin(tf[0][1]["args"][0])
        ok = o[0] == "bin" and o[1] == "Div" and o[2][0] == "call" and o[2][1].endswith("Duration::as_millis") and o[3][0] == "const" and o[3][2] == "SCALE"
        detail = "the converted value must be `input.as_millis() / SCALE`; found %s" % fmt_origin(o)
    rep.check("R15.1", "write:divide-then-convert", ok, detail, w.loc(), sample={"value": fmt_origin(w.origin(tf[0][1]["args"][0])) if tf else None})
    casts = [st for bl in w.blocks for st in bl["stmts"] if st["k"] == "assign" and st["rv"]["k"] == "cast" and st["rv"]["kind"] == "IntToInt" and not st.get("exp")]
    rep.check("R15.1", "write:no-as-cast", not casts, "binrw_write_duration narrows with `as` (%s)" % [(c["rv"]["from"], c["rv"]["to"]) for c in casts], w.loc())
    if tf:
        sw = w.discr_switch_of_call(tf[0][0])
        okm = False
        if sw:
            ok_t, err_t = sw[1].get(0), sw[1].get(1, sw[2])
            after_ok = w.reach_v(via=ok_t)
            after_err = w.reach_v(via=err_t)
            wr = [bb for bb, t in w.calls_to(r"BinWrite::write_options$") if bb in after_ok]
            kinds_err = w.ret_kinds_v(err_t)
            okm = len(wr) == 1 and not [bb for bb, t in w.calls_to(r"BinWrite::write_options$") if bb in after_err] and bool(kinds_err) and kinds_err <= {"Err", "residual"}
            if wr:
                vo = w.origin(w.blocks[wr[0]]["term"]["args"][0])
                okm = okm and any(c[4] == tf[0][0] for c in w.may_calls(vo))
        rep.check("R15.1", "write:err-is-error", okm, "a value that does not fit T must become an error and only the Ok payload may be written", w.loc())
    ti = p.calls_to(r"convert::TryInto::try_into$")
    fm = p.calls_to(r"Duration::from_millis$")
    ok = len(ti) == 1 and len(fm) == 1
    detail = "expected one try_into and one from_millis"
    if ok:
        o = p.origin(fm[0][1]["args"][0])
        x = o
        if x[0] == "field":
            x = x[1]
        ok = x[0] == "bin" and x[1] in ("MulWithOverflow", "Mul") and x[3][0] == "const" and x[3][2] == "SCALE" and any(c[4] == ti[0][0] for c in p.may_calls(x[2]))
        ga = callee(ti[0][1])[2]
        ok = ok and len(ga) >= 2 and ga[1] == "u64"
        detail = "the parser must compute from_millis(try_into::<u64>(raw)? * SCALE); found %s" % fmt_origin(o)
    rep.check("R15.1", "parse:widen-then-multiply", ok, detail, p.loc(), sample={"value": fmt_origin(p.origin(fm[0][1]["args"][0])) if fm else None})
    rep.floor("R15.1", 4)


def narrow_casts(ctx, rep):
    roots = ["<insim::packet::Packet as binrw::binwrite::BinWrite>::write_options", "insim::net::codec::Codec::encode",
             "insim::insim::racelaps::<impl core::convert::From<insim::insim::racelaps::RaceLaps> for u8>::from",
             "<insim::insim::small::SmallType as binrw::binwrite::BinWrite>::write_options", "insim_core::duration::binrw_write_duration"]
    roots = [r for r in roots if ctx.mir.body(r) is not None]
    rep.check("R15.2", "roots", len(roots) == 5, "write-path roots missing (found %d of 5)" % len(roots), None, nontrivial=False)
    inv = panics.Inventory(ctx.mir, roots)
    n = 0
    for fn in inv.reach:
        b = ctx.mir.body(fn)
        has = any(st["k"] == "assign" and st["rv"]["k"] == "cast" and st["rv"]["kind"] == "IntToInt" for bl in b.blocks for st in bl["stmts"])
        if not has:
            continue
        try:
            an = absint.Intervals(b, ctx.mir)
        except Exception as e:
            rep.fail("R15.2", "%s:analysis" % fn, "interval analysis failed: %s" % e, b.loc())
            continue
        ordn = {}
        for c in an.casts:
            if c["bb"] not in an.reachable():
                continue
            st = b.blocks[c["bb"]]["stmts"][c["idx"]]
            o = b.origin(st["rv"]["x"])
            k = (c["from"], c["to"])
            ordn[k] = ordn.get(k, 0) + 1
            key = "%s:%s->%s:%d" % (fn, c["from"], c["to"], ordn[k] - 1)
            n += 1
            why = None
            if not c["fits"]:
                # the operand may get its bound in a private helper of the module or through an Option / Result adaptor: decide on
                # the body with those helpers inlined and the adaptors expanded (variant payload intervals survive the match)
                try:
                    from mirq import inline_calls, expand_adaptors
                    modp = (fn[1:].split(" as ")[0] if fn.startswith("<") else fn)
                    modp = re.sub(r"::<impl .*$", "", modp).rsplit("::", 1)[0] + "::" if "<impl" in fn else modp.rsplit("::", 1)[0] + "::"
                    nb = expand_adaptors(inline_calls(b, lambda d, modp=modp: d.startswith(modp) and "{closure" not in d and d != fn, depth=3), values=True)
                    if nb is not b:
                        an2 = absint.Intervals(nb, ctx.mir)
                        same = [c2 for c2 in an2.casts if c2["line"] == c["line"] and c2["from"] == c["from"] and c2["to"] == c["to"] and c2["bb"] in an2.reachable()]
                        if same and all(c2["fits"] for c2 in same):
                            why = "operand interval %s fits %s (module helpers inlined, adaptors expanded)" % ([list(c2["iv"]) for c2 in same][:2], c["to"])
                except Exception:
                    pass
            if c["fits"]:
                why = "operand interval %s fits %s" % (list(c["iv"]), c["to"])
            elif _decided_elsewhere(ctx, fn):
                why = "decided elsewhere: " + _decided_elsewhere(ctx, fn)
            elif k in REVIEWED_CASTS:
                why = "reviewed idiom: " + REVIEWED_CASTS[k]
            elif o[0] == "call" and re.search(r"::len$", o[1] or "") and c["to"] in ("u8", "i32"):
                why = "element count: decided by C03/R3.2 and C17 (count cannot wrap in an emitted frame)"
            elif c["exp"] and c["from"] in ("isize", "u8", "i8") and c["iv"] is None:
                why = None
            rep.fn(fn)
            rep.check("R15.2", key, why is not None,
                      "narrowing conversion `%s as %s` in %s: the operand ranges over %s (%s) and silently wraps to a different valid value"
                      % (c["from"], c["to"], fn, [c["iv"][0], min(c["iv"][1], 2 ** 128)] if c["iv"] else "unknown", fmt_origin(o)[:100]), b.loc(c["line"]),
                      nontrivial=not c["fits"] or c["from"] not in ("bool",), sample={"function": fn, "cast": "%s as %s" % k, "operand": fmt_origin(o)[:80], "verdict": why} if not c["fits"] or n < 4 else None)
    rep.floor("R15.2", 15)
    rep.notes.append("R15.2: %d functions on the write paths, %d narrowing casts" % (len(inv.reach), n))


def spec_decode(v):
    """InSim.txt, RaceLaps: 0 practice; 1-99 laps; 100-190 -> 100..1000 laps in steps of 10; 191-238 -> 1..48 hours"""
    if 1 <= v <= 99:
        return ("Laps", v)
    if 100 <= v <= 190:
        return ("Laps", (v - 100) * 10 + 100)
    if 191 <= v <= 238:
        return ("Hours", v - 190)
    return ("Practice", None)


def spec_encode(kind, n):
    """inverse table; anything that has no wire value is sent as practice (0), as the encoder documents"""
    if kind == "Laps" and 1 <= n <= 99:
        return n
    if kind == "Laps" and 100 <= n <= 1000:
        return (n - 100) // 10 + 100
    if kind == "Hours" and 1 <= n <= 48:
        return n + 190
    return 0


BANDS = [(0, 0), (1, 99), (100, 190), (191, 238)]
DEC = "<insim::insim::racelaps::RaceLaps as core::convert::From<u8>>::from"
ENC = "insim::insim::racelaps::<impl core::convert::From<insim::insim::racelaps::RaceLaps> for u8>::from"


def racelaps_table(ctx, rep):
    """R15.3: both conversions extracted from MIR as decision tables and evaluated exhaustively: every one of the 256 wire
    bytes for the decoder; Practice, Laps(n) and Hours(n) for n = 0..=1100 and some huge values for the encoder - compared
    with the specification's table value by value, whatever way the source spells its ranges and formulas."""
    import tabeval
    b = ctx.mir.body(DEC)
    if b is None:
        rep.fail("R15.3", "decode:found", "impl From<u8> for RaceLaps not found")
        return
    rep.fn(DEC)
    rows = b.decision_rows()
    cur = {}

    def leaf(o):
        if o == ("arg", 1):
            return cur["v"]
        return None
    ev = tabeval.Evaluator(leaf, lambda d, rd, args, e: tabeval.std_call(d, args, e))
    wrong = {}
    undecided = None
    for v in range(256):
        cur["v"] = v
        try:
            m = ev.matching_rows(rows)
            res = set()
            for r in m:
                kind = r[1][1]
                val = ev.ev(r[1][3][0]) if len(r[1]) > 3 and r[1][3] else None
                res.add((kind, val))
        except (tabeval.Unknown, tabeval.Panic) as e:
            undecided = "byte %d: %s" % (v, e)
            break
        want = spec_decode(v)
        if res != {want}:
            band = next(("%d..%d" % (lo, hi) for lo, hi in BANDS if lo <= v <= hi), "other")
            wrong.setdefault(band, "byte %d decodes as %s, the specification says %s" % (v, sorted(res, key=str) or "a panic", want))
    if undecided:
        rep.fail("R15.3", "decode:table", "the decoder's decision table could not be evaluated (%s)" % undecided, b.loc())
    else:
        for lo, hi in BANDS:
            k = "%d..%d" % (lo, hi)
            rep.check("R15.3", "decode:%s" % k, k not in wrong, wrong.get(k, ""), b.loc(), sample={"range": [lo, hi], "evaluated": hi - lo + 1})
        rep.check("R15.3", "decode:other", "other" not in wrong, wrong.get("other", ""), b.loc(), sample={"evaluated": 256 - 239})
    # encoder
    b = ctx.mir.body(ENC)
    en = ctx.mir.enums.get("insim::insim::racelaps::RaceLaps")
    if b is None or en is None:
        rep.fail("R15.3", "encode:found", "impl From<RaceLaps> for u8 not found")
        return
    rep.fn(ENC)
    from mirq import inline_calls, expand_adaptors
    rl = lambda d: d.startswith("insim::insim::racelaps::") and "{closure" not in d and not d.startswith("<")
    b = inline_calls(b, rl, depth=3)          # private conversion helpers are part of the encoder
    b = expand_adaptors(b)
    rows = b.decision_rows()
    idx = {v["name"]: v["idx"] for v in en["variants"]}

    def leaf2(o, _m=None):
        if o[0] == "discr" and o[1] == ("arg", 1):
            return idx[cur["k"]]
        if o[0] == "field" and o[1][0] == "downcast" and o[1][1] == ("arg", 1) and o[2] == 0:
            if o[1][3] != cur["k"]:
                raise tabeval.Panic("payload of another variant")
            return cur["n"]
        return None
    ev = tabeval.Model(ctx, b, None, local_prefix="insim::insim::racelaps::", extra_leaf=leaf2).ev          # std idioms: ranges, Option adaptors
    wrong = {}
    undecided = None
    big = [5000, 65535, 65536, 2 ** 32 - 1, 2 ** 32, 2 ** 32 + 200, 2 ** 63, 2 ** 64 - 190, 2 ** 64 - 1]
    dom = [("Practice", None)] + [("Laps", n) for n in list(range(0, 1101)) + big] + [("Hours", n) for n in list(range(0, 1101)) + big]
    for k, n in dom:
        cur["k"], cur["n"] = k, n
        try:
            ev.reset()
            m = ev.matching_rows(rows)
            res = set()
            for r in m:
                ret = r[1]
                if ret[1].startswith("call:") and ev.call is not None:
                    v = ev.call(ret[1][5:], ret[1][5:], list(ret[3]), ev)
                    if v is None:
                        raise tabeval.Unknown("call %s" % ret[1][5:])
                    res.add(v)
                else:
                    res.add(ev.ev(ret[3][0]))
        except tabeval.Unknown as e:
            undecided = "%s(%s): %s" % (k, n, e)
            break
        except tabeval.Panic:
            res = {"panic"}
        want = spec_encode(k, n)
        if res != {want}:
            wrong.setdefault(k.lower(), "%s%s is encoded as %s, the specification says %d%s" % (
                k, "" if n is None else "(%d)" % n, sorted(res, key=str) or "a panic", want, " (practice: it has no wire value)" if want == 0 and k != "Practice" else ""))
    if undecided:
        rep.fail("R15.3", "encode:table", "the encoder's decision table could not be evaluated (%s)" % undecided, b.loc())
    else:
        rep.check("R15.3", "encode:practice", "practice" not in wrong, wrong.get("practice", ""), b.loc())
        rep.check("R15.3", "encode:laps", "laps" not in wrong, wrong.get("laps", ""), b.loc(), sample={"evaluated": 1101 + len(big)})
        rep.check("R15.3", "encode:hours", "hours" not in wrong, wrong.get("hours", ""), b.loc(), sample={"evaluated": 1101 + len(big)})
    rep.floor("R15.3", 7)


SMALL_W = "<insim::insim::small::SmallType as binrw::binwrite::BinWrite>::write_options"


def small_durations(ctx, rep):
    """R15.4: the hand-written IS_SMALL writer, as a decision table on MIR (module helpers and closures inlined), evaluated
    for every duration-carrying variant and a boundary-biased set of millisecond counts: what is written as UVal must be
    floor(ms / unit) when that fits 32 bits, and otherwise the call must fail before anything is written."""
    import tabeval
    from mirq import inline_calls, expand_adaptors
    b = ctx.mir.body(SMALL_W)
    en = ctx.mir.enums.get("insim::insim::small::SmallType")
    if b is None or en is None:
        rep.fail("R15.4", "small:found", "impl BinWrite for SmallType not found")
        return
    rep.fn(SMALL_W)
    local = lambda d: d.startswith("insim::insim::small::") or d.startswith("<insim::insim::small::")
    b = inline_calls(b, local, depth=4)
    b = expand_adaptors(b)
    b = inline_calls(b, local, depth=2)
    try:
        rows = b.decision_rows()
    except Exception as e:
        rep.fail("R15.4", "small:table", "decision table of the SmallType writer not extractable (%s)" % e, b.loc())
        return
    idx = {v["name"]: v["idx"] for v in en["variants"]}
    units = {k: {"ms": 1, "cs": 10}[u.rstrip("?")] for k, u in ctx.spec.smallunit.items()}
    cur = {}

    def leaf(o, m):
        if o[0] == "discr" and strip(o[1]) == ("arg", 1):
            return idx[cur["k"]]
        return None

    def strip(o):
        while isinstance(o, tuple) and o and o[0] in ("ref", "deref"):
            o = o[1]
        return o

    def call(d, rd, args, m):
        if (d or "").endswith("Duration::as_millis"):
            return cur["ms"]
        return None
    model = tabeval.Model(ctx, b, None, local_prefix="insim::insim::small::", extra_leaf=leaf, extra_call=call)
    probes = [0, 1, 9, 10, 11, 15, 19, 25, 99, 1000, 12345, 2 ** 32 - 1, 2 ** 32, 2 ** 32 + 5, 10 * (2 ** 32) - 1, 10 * (2 ** 32), 10 * (2 ** 32) + 9,
              2 ** 64 - 1, 2 ** 64, 2 ** 64 + 15, 2 ** 70 + 7]
    for var in sorted(idx):
        if var.upper() not in units:
            continue
        S = units[var.upper()]
        bad = None
        undecided = None
        for ms in probes:
            cur["k"], cur["ms"] = var, ms
            model.ev.reset()
            try:
                matched = model.ev.matching_rows(rows)
                outs = set()
                for r in matched:
                    written = []
                    for c in r[0]:
                        o = c[4]
                        if o[0] == "discr" and o[1][0] == "call" and (o[1][1] or "").endswith("Try::branch") and o[1][3] and o[1][3][0][0] == "call" \
                                and (o[1][3][0][1] or "").endswith("BinWrite::write_options"):
                            w = o[1][3][0]
                            key = str(w[4])
                            if key not in [x[0] for x in written]:
                                written.append((key, model.ev.ev(w[3][0])))
                    kind = r[1][1]
                    if kind.startswith("call:") and "from_residual" in kind:
                        kind = "Err"
                    outs.add((kind, tuple(v for _, v in written)))
            except tabeval.Unknown as e:
                undecided = "%s, %d ms: %s" % (var, ms, e)
                break
            q = ms // S
            want = ("Ok", (idx_disc(ctx, var), q)) if q < 2 ** 32 else ("Err", ())
            if outs != {want}:
                bad = bad or "%d ms is written as %s; rounding down to the %d ms unit (or refusing what does not fit 32 bits) gives %s" % (ms, sorted(outs, key=str), S, want)
        if undecided:
            rep.fail("R15.4", "SmallType::%s:write" % var, "the writer's decision table could not be evaluated (%s)" % undecided, b.loc())
        else:
            rep.check("R15.4", "SmallType::%s:write" % var, bad is None, bad or "", b.loc(), sample={"variant": var, "unit_ms": S, "probes": len(probes)})
    small_reader(ctx, rep, units)
    rep.floor("R15.4", 10)


SMALL_R = "<insim::insim::small::SmallType as binrw::binread::BinRead>::read_options"


def small_reader(ctx, rep, units):
    """R15.4 (decode side): the IS_SMALL reader's decision table evaluated for every duration variant and boundary values of
    the 32-bit UVal: the duration built must be exactly UVal x unit milliseconds - computed wide enough not to wrap (u32::MAX
    centiseconds is 42 949 672 950 ms) - so that it re-encodes to the same UVal."""
    import tabeval
    from mirq import inline_calls
    rb = ctx.mir.body(SMALL_R)
    if rb is None:
        rep.fail("R15.4", "small:read:found", "impl BinRead for SmallType not found")
        return
    rep.fn(SMALL_R)
    local = lambda d: (d.startswith("insim::insim::small::") or d.startswith("<insim::insim::small::")) and not d.endswith("read_options")
    rb = inline_calls(rb, local, depth=4)
    try:
        rows = rb.decision_rows()
    except Exception as e:
        rep.fail("R15.4", "small:read:table", "decision table of the SmallType reader not extractable (%s)" % e, rb.loc())
        return
    probe = [0]

    def leaf(o, m):
        if o[0] == "field" and o[1][0] == "downcast" and o[1][1][0] == "call" and (o[1][1][1] or "").endswith("Try::branch"):
            inner = o[1][1][3][0] if o[1][1][3] else None
            ga = inner[5] if inner is not None and inner[0] == "call" and len(inner) > 5 and inner[5] else []
            if inner is not None and inner[0] == "call" and (inner[1] or "").endswith("BinRead::read_options") and ga and str(ga[0]) == "u32":
                return probe[0]
        return None
    model = tabeval.Model(ctx, rb, None, local_prefix="insim::insim::small::", extra_leaf=leaf)
    probes = [0, 1, 9, 100, 65535, 429496729, 429496730, 2 ** 31, 2 ** 32 - 2, 2 ** 32 - 1]
    seen = {}
    for r in rows:
        ret = r[1]
        if ret[1] != "Ok" or not ret[3]:
            continue
        p0 = ret[3][0]
        if not (p0[0] == "agg" and p0[1][0] == "adt" and str(p0[1][1]).endswith("SmallType") and p0[2]):
            continue
        var = p0[1][3]
        if var.upper() not in units:
            continue
        a = p0[2][0]
        S = units[var.upper()]
        bad = seen.setdefault(var, [None, None])
        if not (a[0] == "call" and (a[1] or "").endswith("Duration::from_millis")):
            bad[1] = "the duration of %s is not built with Duration::from_millis" % var
            continue
        for pv in probes:
            probe[0] = pv
            model.ev.reset()
            try:
                v = model.ev.ev(a[3][0])
            except tabeval.Panic as e:
                v = "a trap (%s)" % e
            except tabeval.Unknown as e:
                bad[1] = "UVal %d: %s" % (pv, e)
                break
            if v != pv * S:
                bad[0] = bad[0] or "UVal %d decodes to %s ms, the field's unit of %d ms gives %d ms" % (pv, v, S, pv * S)
    for var, (wrong, undecided) in sorted(seen.items()):
        if undecided:
            rep.fail("R15.4", "SmallType::%s:read" % var, "the reader's conversion could not be evaluated (%s)" % undecided, rb.loc())
        else:
            rep.check("R15.4", "SmallType::%s:read" % var, wrong is None, wrong or "", rb.loc(), sample={"variant": var, "unit_ms": units[var.upper()], "probes": len(probes)})


def idx_disc(ctx, var):
    from props.handpairs import disc_tables
    rd, wr, _e = disc_tables(ctx, "SmallType")
    return dict(wr).get(var)
