"""C03 MIR rules: R3.3 Mode::encode_length guards (interval analysis per Mode variant), R3.4 Codec::encode ordering."""
import re

import absint
from mirq import callee, fmt_origin, origin_calls, strip_refs


def summaries(ctx):
    s = {}
    for n in ("insim::net::mode::Mode::max_length", "insim::net::mode::Mode::valid_raw_buffer_min_len"):
        tb = absint.const_table_summary(ctx.mir, n, ctx.ast)
        if tb is not None:
            s[n] = absint.make_table_summary(tb)
    return s


def run(ctx, rep):
    mir = ctx.mir
    mode = mir.enums.get("insim::net::mode::Mode")
    b = mir.body("insim::net::mode::Mode::encode_length")
    if mode is None or b is None:
        rep.fail("R3.3", "anchors", "Mode / Mode::encode_length not found")
        return
    rep.fn(b.name)
    from mirq import inline_calls
    ib = inline_calls(b, lambda d: d.startswith("insim::net::mode::") and not d.endswith("::max_length") and "{closure" not in d, depth=3)
    if ib is not b:
        rep.notes.append("R3.3: private helper(s) of insim::net::mode inlined into encode_length")
        b = ib
    ml = absint.const_table_summary(mir, "insim::net::mode::Mode::max_length", ctx.ast)
    mn = absint.const_table_summary(mir, "insim::net::mode::Mode::valid_raw_buffer_min_len", ctx.ast)
    names = {v["idx"]: v["name"] for v in mode["variants"]}
    want = {"Uncompressed": 255, "Compressed": 1020}
    got = {names.get(k): v for k, v in (ml or {}).items()}
    rep.check("R3.3", "max_length:table", got == want, "Mode::max_length must be {Uncompressed: 255, Compressed: 1020}; found %s" % got, b.loc(), sample={"max_length": got})
    if mir.body("insim::net::mode::Mode::valid_raw_buffer_min_len") is not None:
        rep.check("R3.3", "min_len", mn == {None: 4}, "minimum frame length must be the constant 4; found %s" % mn, b.loc(), nontrivial=False)
    rep.check("R3.3", "MAX_SIZE_PACKET", mir.const_val("insim::MAX_SIZE_PACKET") == 1020, "MAX_SIZE_PACKET must be 1020", b.loc(), nontrivial=False)
    summ = summaries(ctx)
    rows = b.decision_rows()
    lo_line, hi_line = b.raw["span"]["line"], b.raw["span"]["eline"]
    for v in mode["variants"]:
        vi, vn = v["idx"], v["name"]
        an = absint.Intervals(b, mir, assume_discr={"1.*": vi}, summaries=summ)
        oks = [(i, st) for i, bl in enumerate(b.blocks) for st in bl["stmts"]
               if st["k"] == "assign" and st["place"]["l"] == 0 and st["rv"]["k"] == "agg" and st["rv"].get("vname") == "Ok" and i in an.reachable()]
        rep.check("R3.3", "%s:ok-path" % vn, len(oks) == 1, "expected one reachable Ok(..) return for Mode::%s (found %d)" % (vn, len(oks)), b.loc(), nontrivial=False)
        casts = [c for c in an.casts if c["to"] == "u8" and c["bb"] in an.reachable() and not c["exp"]]
        rep.check("R3.3", "%s:cast-site" % vn, len(casts) >= 1, "no `as u8` conversion of the size found for Mode::%s" % vn, b.loc(), nontrivial=False)
        for (i, st) in oks:
            lv = an.value_at_exit(i, {"copy": {"l": 2, "p": []}})
            if lv is None or lv[0] < 4 or lv[1] > want.get(vn, -1):
                # what a helper established before it reported "fits" through a value of its own is lost at the join of its
                # returns: decide path by path instead
                pv = absint.per_path_values(b, mir, i, {"copy": {"l": 2, "p": []}}, assume_discr={"1.*": vi}, summaries=summ)
                if pv is not None:
                    lv = pv
                    rep.notes.append("R3.3: Mode::%s: interval of len at Ok decided per path" % vn)
            rep.check("R3.3", "%s:min-length" % vn, lv is not None and lv[0] >= 4,
                      "Mode::%s: Ok is reachable with len in %s: a frame shorter than 4 bytes would be accepted" % (vn, lv), b.loc(st["line"]),
                      sample={"mode": vn, "len_interval_at_ok": [lv[0], min(lv[1], 2 ** 64)] if lv else None})
            rep.check("R3.3", "%s:max-length" % vn, lv is not None and lv[1] <= want.get(vn, -1),
                      "Mode::%s: Ok is reachable with len up to %s (limit %s)" % (vn, lv[1] if lv else "?", want.get(vn)), b.loc(st["line"]))
        contract(ctx, rep, b, rows, vi, vn, want.get(vn))
        bounded = all(i["ok"] for i in rep.instances if i["rule"] == "R3.3" and i["key"].endswith(("%s:max-length" % vn, "%s:size-value" % vn))) and \
            any(i["key"].endswith("%s:size-value" % vn) for i in rep.instances if i["rule"] == "R3.3")
        for n, c in enumerate(casts):
            rep.check("R3.3", "%s:size-byte-fits:%d" % (vn, n), c["fits"] or bounded,
                      "Mode::%s: the value converted with `as u8` ranges over [%s, %s]; the size byte wraps for frames the guards let through"
                      % (vn, c["iv"][0] if c["iv"] else "?", c["iv"][1] if c["iv"] else "?"), b.loc(c["line"]),
                      sample={"mode": vn, "operand_interval": list(c["iv"]) if c["iv"] else None, "fits_u8": c["fits"],
                              "argument": "interval of the cast operand" if c["fits"] else "len <= max at Ok (intervals) and size byte == len/scale for every len <= 4200 (table)"})
    rep.floor("R3.3", 12)
    encode_order(ctx, rep)
    encode_inventory(ctx, rep)


def contract(ctx, rep, b, rows, vi, vn, hi):
    """encode_length as a finite table, evaluated for every length 0..=4200 and some huge ones: Ok(v) only for 4 <= len <= max,
    (compressed) len % 4 == 0, and v == len / scale without wrapping; every such length is accepted."""
    import tabeval
    scale = 1 if hi == 255 else 4
    tables = {}

    def call(d, rd, args, ev):
        name = rd or d
        v = tabeval.std_call(d, args, ev)
        if v is not None:
            return v
        if name.startswith("insim::net::mode::"):
            if name not in tables:
                tables[name] = absint.const_table_summary(ctx.mir, name, ctx.ast)
            tb = tables[name]
            if tb is not None:
                return tb.get(vi, tb.get(None))
        return None

    def leaf(o):
        if o[0] == "discr" and strip_refs(o[1]) == ("arg", 1):
            return vi
        if o == ("arg", 2):
            return ev.len
        return None
    from mirq import strip_refs
    model = tabeval.Model(ctx, b, None, local_prefix="insim::net::mode::", extra_leaf=lambda o, m: leaf(o), extra_call=lambda d, rd, args, m: call(d, rd, args, m.ev))
    ev = model.ev
    bad = {"rows": None, "divisible-by-4": None, "size-value": None, "range": None, "accepts-valid": None}
    undecided = None
    n_ok = 0
    for ln in list(range(0, 4201)) + [65535, 65536, 2 ** 32, 2 ** 32 + 4, 2 ** 63, 2 ** 64 - 4]:
        ev.len = ln
        try:
            m = ev.matching_rows(rows)
        except tabeval.Unknown as e:
            undecided = e.what
            break
        valid = hi is not None and 4 <= ln <= hi and ln % scale == 0
        kinds = {r[1][1] for r in m}
        if len(kinds) > 1:
            bad["rows"] = bad["rows"] or "len %d: rows with different results apply (%s)" % (ln, sorted(kinds))
            continue
        if "Ok" in kinds:
            n_ok += 1
            r = m[0][1]
            try:
                v = ev.ev(r[3][0])
            except (tabeval.Unknown, tabeval.Panic) as e:
                undecided = "size value: %s" % e
                break
            if ln % scale != 0:
                bad["divisible-by-4"] = bad["divisible-by-4"] or "len %d is accepted although it is not a multiple of %d" % (ln, scale)
            elif hi is not None and not (4 <= ln <= hi):
                bad["range"] = bad["range"] or "len %d is accepted (limits 4..=%d)" % (ln, hi)
            if v != ln // scale:
                bad["size-value"] = bad["size-value"] or "len %d is emitted with size byte %d (expected %d)" % (ln, v, ln // scale)
        elif valid:
            bad["accepts-valid"] = bad["accepts-valid"] or "the legal length %d is refused (%s)" % (ln, sorted(kinds) or "panic")
    if undecided:
        rep.fail("R3.3", "%s:table" % vn, "Mode::%s: encode_length's decision table could not be evaluated (%s)" % (vn, undecided), b.loc())
        return
    rep.check("R3.3", "%s:rows" % vn, bad["rows"] is None and n_ok > 0, "Mode::%s: %s" % (vn, bad["rows"] or "no length is accepted"), b.loc(), nontrivial=False)
    if scale == 4:
        rep.check("R3.3", "%s:divisible-by-4" % vn, bad["divisible-by-4"] is None, "Mode::%s: %s" % (vn, bad["divisible-by-4"]), b.loc(), sample={"mode": vn, "accepted_lengths": n_ok})
    rep.check("R3.3", "%s:size-value" % vn, bad["size-value"] is None and bad["range"] is None,
              "Mode::%s: the size byte must be len%s for 4 <= len <= %s: %s" % (vn, "" if scale == 1 else " / 4", hi, bad["size-value"] or bad["range"]), b.loc(),
              sample={"mode": vn, "accepted_lengths": n_ok, "domain": "0..=4200 and six lengths up to 2^64-4"})
    rep.check("R3.3", "%s:accepts-valid" % vn, bad["accepts-valid"] is None, "Mode::%s: %s" % (vn, bad["accepts-valid"]), b.loc(), sample={"mode": vn})


def encode_inventory(ctx, rep):
    """R3.5: a packet (in particular one obtained by decoding) never makes the encoder abort except through the three
    documented refusals in encode_length"""
    import absint as ai
    import panics
    from props.c04 import duration_instances
    inst = duration_instances(ctx)

    def extra(s):
        if s["fn"] == "insim::net::mode::Mode::encode_length" and s["kind"] == "assert" and s["what"] in ("div_zero", "rem_zero"):
            r33 = [i for i in rep.instances if i["rule"] == "R3.3" and i["key"].endswith((":rows", ":size-value", ":accepts-valid", ":table"))]
            if r33 and all(i["ok"] for i in r33):
                return "the divisor does not depend on the length; R3.3 evaluated encode_length's table for both modes with these very divisions (a zero divisor would trap on every row and no length would be accepted)"
            return None
        if s["fn"] == "insim::net::codec::Codec::encode" and s["kind"] == "precondition" and s["what"].endswith("index_mut"):
            r34 = [i for i in rep.instances if i["rule"] == "R3.4"]
            if r34 and all(i["ok"] for i in r34):
                return "index 0 of the frame buffer, which holds at least the placeholder byte written first (R3.4 placeholder / order / patch-at-0)"
            return None
        if panics.is_or_helper_of(ctx.mir, s["fn"], "insim_core::duration::binrw_write_duration", generic="SCALE") and s["kind"] == "assert" and s["what"] == "div_zero":
            scales = {sc for (_t, sc) in inst}
            if scales and all(sc.isdigit() and int(sc) > 0 for sc in scales):
                return "`/ SCALE`: every instantiation uses a non-zero scale %s" % sorted(scales)
        return None
    roots = ["insim::net::codec::Codec::encode", "<insim::packet::Packet as binrw::binwrite::BinWrite>::write_options"]
    inv, sites = panics.check_paths(ctx, rep, "R3.5", roots, label="encode", extra_discharge=extra)
    rep.check("R3.5", "coverage:writers", len([n for n in inv.reach if n.endswith("binrw::binwrite::BinWrite>::write_options")]) >= 130,
              "expected at least 130 BinWrite impls on the encode path (found %d)" % len([n for n in inv.reach if n.endswith("binrw::binwrite::BinWrite>::write_options")]), None,
              sample={"functions_reachable": len(inv.reach), "sites": len(sites)})
    rep.floor("R3.5", 12)


def const_array_len(ctx, o):
    """number of elements of a constant array operand (a literal `[0]`, a promoted constant or a named `const X: [u8; N]`), else None"""
    x = strip_refs(o)
    while x[0] == "cast":
        x = strip_refs(x[4])
    if x[0] == "agg" and x[1][0] == "array":
        return len(x[2]), [e[1] if e[0] == "const" else None for e in x[2]]
    if x[0] == "const" and isinstance(x[3], str):
        m = re.match(r"^&?\[[^;\]]+; (\d+)\]$", x[3].strip())
        if m:
            vals = None
            if isinstance(x[2], str) and "::" in x[2]:
                cs = ctx.ast.const(x[2].split("::")[-1])
                if len(cs) == 1 and cs[0][3]["value"].get("elems") is not None:
                    vals = [int(e["v"]) if e.get("t") == "int" else None for e in cs[0][3]["value"]["elems"]]
            return int(m.group(1)), vals
    return None


def encode_order(ctx, rep):
    """R3.4: the frame Codec::encode returns is [size byte][packet bytes], the size byte being what encode_length returned for
    the whole length.  Decided by replaying the function's path table (private helpers of the module inlined; conditions, calls
    and stores in execution order, lib/framesim.py) over an abstract frame buffer for several packet lengths: the packet is
    written at offset 1 (exactly one placeholder byte first), the buffer ends up 1 + P bytes long, byte 0 holds the value
    encode_length returned for 1 + P - however the patch is spelled (rewind and write one byte, `data[0] = n`, a helper type
    around the cursor) - and a failure of the packet writer, of encode_length or of the patch write ends the call with an error."""
    import framesim
    from mirq import inline_calls, simplify
    b = ctx.mir.body("insim::net::codec::Codec::encode")
    if b is None:
        rep.fail("R3.4", "found", "Codec::encode not found")
        return
    rep.fn(b.name)
    ib = inline_calls(b, lambda d: d.startswith("insim::net::codec::") and "{closure" not in d and not d.endswith(("Codec::encode", "Codec::decode", "Codec::mode", "Codec::new")), depth=3)
    if ib is not b:
        rep.notes.append("R3.4: private helper(s) of insim::net::codec inlined into Codec::encode")
        b = ib
    try:
        rows = b.decision_rows(events=True)
    except Exception as ex:
        rep.fail("R3.4", "anchors", "path table of Codec::encode not extractable (%s)" % ex, b.loc())
        return
    EL = b.calls_to(r"Mode::encode_length$")
    P_ = [(bb, t) for bb, t in b.calls_to(r"binrw::binwrite::BinWrite::write$") if callee(t)[2] and callee(t)[2][0] == "insim::packet::Packet"]
    rep.check("R3.4", "anchors", len(EL) == 1 and len(P_) == 1 and any(r[1][1] == "Ok" for r in rows),
              "Codec::encode: expected one Packet::write, one Mode::encode_length and a path returning Ok (found %d / %d)" % (len(P_), len(EL)), b.loc(),
              sample={"paths": len(rows)})
    if not (len(EL) == 1 and len(P_) == 1):
        rep.floor("R3.4", 7)
        return

    def array_len(o):
        x = strip_refs(o)
        while x[0] in ("cast", "deref"):
            x = strip_refs(x[4] if x[0] == "cast" else x[1])
        if x[0] == "agg" and x[1][0] == "array":
            return (len(x[2]), x[2][0] if len(x[2]) == 1 else None)
        if x[0] == "repeat" and len(x) > 2:
            try:
                n = int(x[2])
            except (TypeError, ValueError):
                n = None
            if n is None:
                cs = ctx.ast.const(str(x[2]).split("::")[-1])
                if len(cs) == 1:
                    from astq import eval_int
                    try:
                        n = eval_int(cs[0][3]["value"])
                    except Exception:
                        n = None
            return (n, x[1] if n == 1 else None) if n is not None else None
        r = const_array_len(ctx, o)
        return (r[0], None) if r else None
    sim = framesim.FrameSim(ctx, b, rows, array_len)
    bad = {"evaluated": None, "placeholder": None, "frame-length": None, "patch-value": None}
    n_ok = 0
    for P in (3, 7, 19, 251, 1019):
        outs = sim.run(P)
        for o in outs:
            if o["trap"]:
                bad["evaluated"] = bad["evaluated"] or "packet of %d bytes: %s" % (P, o["trap"])
                continue
            if o["result"] != "Ok":
                continue
            f = o["final"]
            if not f:
                bad["evaluated"] = bad["evaluated"] or "packet of %d bytes: the returned bytes are not the frame buffer (%s)" % (P, ", ".join(o["ops"]))
                continue
            n_ok += 1
            where = "packet of %d bytes (%s)" % (P, ", ".join(o["ops"]))
            if f["pk"] != 1:
                bad["placeholder"] = bad["placeholder"] or "%s: the packet starts at offset %s - exactly one size byte must precede it" % (where, f["pk"])
            if f["len"] != 1 + P:
                bad["frame-length"] = bad["frame-length"] or "%s: the frame is %d bytes long, not 1 + %d" % (where, f["len"], P)
            if f["b0"] != ("el", 1 + P):
                bad["patch-value"] = bad["patch-value"] or "%s: byte 0 holds %s, not the value encode_length returned for the frame length %d" % (where, f["b0"], 1 + P)
    if n_ok == 0 and bad["evaluated"] is None:
        bad["evaluated"] = "no path returns a frame"
    rep.check("R3.4", "evaluated", bad["evaluated"] is None, "Codec::encode's path table could not be replayed: %s" % bad["evaluated"], b.loc(), sample={"frames_evaluated": n_ok})
    rep.check("R3.4", "placeholder", bad["placeholder"] is None, bad["placeholder"] or "", b.loc(P_[0][1]["line"]))
    rep.check("R3.4", "order", bad["frame-length"] is None, bad["frame-length"] or "", b.loc())
    rep.check("R3.4", "patch-value", bad["patch-value"] is None, bad["patch-value"] or "", b.loc(EL[0][1]["line"]), sample={"byte0": "encode_length(1 + packet length)"})
    # encode_length is asked in the connection's own mode
    a0 = b.origin(EL[0][1]["args"][0])
    m0 = strip_refs(a0)
    while m0[0] == "deref":
        m0 = strip_refs(m0[1])
    okm = any(c[1].endswith("Codec::mode") for c in origin_calls(a0)) or (m0[0] == "field" and m0[3] == "mode" and strip_refs(m0[1]) in (("arg", 1), ("deref", ("arg", 1))))
    rep.check("R3.4", "length-source", okm, "encode_length must be asked in the codec's own mode (found %s)" % fmt_origin(a0), b.loc(EL[0][1]["line"]))
    # failures end the call: on the path table, a path that takes the failure answer of the packet writer / encode_length / a write
    # into the buffer returns an error
    watched = {P_[0][0]: "packet-write", EL[0][0]: "encode_length"}
    for bb, t in b.calls_to(r"^std::io::Write::(write|write_all)$"):
        watched[bb] = "patch"
    seen = {}
    for conds, ret, _tr in rows:
        for c in conds:
            o = c[4]
            if not (o[0] == "discr" and c[2] == "eq" and tuple(c[3]) == (1,)):
                continue
            x = simplify(o[1])
            if x[0] == "call" and (x[1] or "").endswith("Try::branch") and x[3]:
                x = simplify(x[3][0])
            if x[0] == "call" and len(x) > 4 and x[4] in watched:
                kind = ret[1]
                if kind == "use" and len(ret) > 3 and ret[3]:
                    y = simplify(ret[3][0])
                    if y[0] == "call" and (y[1] or "").endswith("FromResidual::from_residual"):
                        kind = "Err"
                    elif y[0] == "agg" and y[1][0] == "adt" and y[1][1] == "core::result::Result":
                        kind = y[1][3]
                good = kind == "Err" or (kind.startswith("call:") and "from_residual" in kind) or kind == "diverge"
                nm = watched[x[4]]
                seen[nm] = seen.get(nm, True) and good
    for nm in ("packet-write", "encode_length"):
        rep.check("R3.4", "propagates:%s" % nm, seen.get(nm) is True, "a failure of %s must end Codec::encode with that error" % nm, b.loc(), nontrivial=False)
    if "patch" in seen:
        rep.check("R3.4", "propagates:patch", seen["patch"], "a failure of the write that patches the size byte must end Codec::encode with that error", b.loc(), nontrivial=False)
    rep.floor("R3.4", 7)
