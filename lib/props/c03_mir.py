"""C03 MIR rules: R3.3 Mode::encode_length guards (interval analysis per Mode variant), R3.4 Codec::encode ordering."""
import re

import absint
from mirq import callee, fmt_origin, origin_calls, strip_refs


def summaries(ctx):
    s = {}
    for n in ("insim::net::mode::Mode::max_length", "insim::net::mode::Mode::valid_raw_buffer_min_len"):
        tb = absint.const_table_summary(ctx.mir, n, ctx.ast)
        if tb is not None:
            s[n] = absint.make_table_summary(tb)
    return s


def run(ctx, rep):
    mir = ctx.mir
    mode = mir.enums.get("insim::net::mode::Mode")
    b = mir.body("insim::net::mode::Mode::encode_length")
    if mode is None or b is None:
        rep.fail("R3.3", "anchors", "Mode / Mode::encode_length not found")
        return
    rep.fn(b.name)
    from mirq import inline_calls
    ib = inline_calls(b, lambda d: d.startswith("insim::net::mode::") and not d.endswith("::max_length") and "{closure" not in d, depth=3)
    if ib is not b:
        rep.notes.append("R3.3: private helper(s) of insim::net::mode inlined into encode_length")
        b = ib
    ml = absint.const_table_summary(mir, "insim::net::mode::Mode::max_length", ctx.ast)
    mn = absint.const_table_summary(mir, "insim::net::mode::Mode::valid_raw_buffer_min_len", ctx.ast)
    names = {v["idx"]: v["name"] for v in mode["variants"]}
    want = {"Uncompressed": 255, "Compressed": 1020}
    got = {names.get(k): v for k, v in (ml or {}).items()}
    rep.check("R3.3", "max_length:table", got == want, "Mode::max_length must be {Uncompressed: 255, Compressed: 1020}; found %s" % got, b.loc(), sample={"max_length": got})
    if mir.body("insim::net::mode::Mode::valid_raw_buffer_min_len") is not None:
        rep.check("R3.3", "min_len", mn == {None: 4}, "minimum frame length must be the constant 4; found %s" % mn, b.loc(), nontrivial=False)
    rep.check("R3.3", "MAX_SIZE_PACKET", mir.const_val("insim::MAX_SIZE_PACKET") == 1020, "MAX_SIZE_PACKET must be 1020", b.loc(), nontrivial=False)
    summ = summaries(ctx)
    rows = b.decision_rows()
    lo_line, hi_line = b.raw["span"]["line"], b.raw["span"]["eline"]
    for v in mode["variants"]:
        vi, vn = v["idx"], v["name"]
        an = absint.Intervals(b, mir, assume_discr={"1.*": vi}, summaries=summ)
        oks = [(i, st) for i, bl in enumerate(b.blocks) for st in bl["stmts"]
               if st["k"] == "assign" and st["place"]["l"] == 0 and st["rv"]["k"] == "agg" and st["rv"].get("vname") == "Ok" and i in an.reachable()]
        rep.check("R3.3", "%s:ok-path" % vn, len(oks) == 1, "expected one reachable Ok(..) return for Mode::%s (found %d)" % (vn, len(oks)), b.loc(), nontrivial=False)
        casts = [c for c in an.casts if c["to"] == "u8" and c["bb"] in an.reachable() and not c["exp"]]
        rep.check("R3.3", "%s:cast-site" % vn, len(casts) >= 1, "no `as u8` conversion of the size found for Mode::%s" % vn, b.loc(), nontrivial=False)
        for (i, st) in oks:
            lv = an.value_at_exit(i, {"copy": {"l": 2, "p": []}})
            if lv is None or lv[0] < 4 or lv[1] > want.get(vn, -1):
                # what a helper established before it reported "fits" through a value of its own is lost at the join of its
                # returns: decide path by path instead
                pv = absint.per_path_values(b, mir, i, {"copy": {"l": 2, "p": []}}, assume_discr={"1.*": vi}, summaries=summ)
                if pv is not None:
                    lv = pv
                    rep.notes.append("R3.3: Mode::%s: interval of len at Ok decided per path" % vn)
            rep.check("R3.3", "%s:min-length" % vn, lv is not None and lv[0] >= 4,
                      "Mode::%s: Ok is reachable with len in %s: a frame shorter than 4 bytes would be accepted" % (vn, lv), b.loc(st["line"]),
                      sample={"mode": vn, "len_interval_at_ok": [lv[0], min(lv[1], 2 ** 64)] if lv else None})
            rep.check("R3.3", "%s:max-length" % vn, lv is not None and lv[1] <= want.get(vn, -1),
                      "Mode::%s: Ok is reachable with len up to %s (limit %s)" % (vn, lv[1] if lv else "?", want.get(vn)), b.loc(st["line"]))
        contract(ctx, rep, b, rows, vi, vn, want.get(vn))
        bounded = all(i["ok"] for i in rep.instances if i["rule"] == "R3.3" and i["key"].endswith(("%s:max-length" % vn, "%s:size-value" % vn))) and \
            any(i["key"].endswith("%s:size-value" % vn) for i in rep.instances if i["rule"] == "R3.3")
        for n, c in enumerate(casts):
            rep.check("R3.3", "%s:size-byte-fits:%d" % (vn, n), c["fits"] or bounded,
                      "Mode::%s: the value converted with `as u8` ranges over [%s, %s]; the size byte wraps for frames the guards let through"
                      % (vn, c["iv"][0] if c["iv"] else "?", c["iv"][1] if c["iv"] else "?"), b.loc(c["line"]),
                      sample={"mode": vn, "operand_interval": list(c["iv"]) if c["iv"] else None, "fits_u8": c["fits"],
                              "argument": "interval of the cast operand" if c["fits"] else "len <= max at Ok (intervals) and size byte == len/scale for every len <= 4200 (table)"})
    rep.floor("R3.3", 12)
    encode_order(ctx, rep)
    encode_inventory(ctx, rep)


def contract(ctx, rep, b, rows, vi, vn, hi):
    """encode_length as a finite table, evaluated for every length 0..=4200 and some huge ones: Ok(v) only for 4 <= len <= max,
    (compressed) len % 4 == 0, and v == len / scale without wrapping; every such length is accepted."""
    import tabeval
    scale = 1 if hi == 255 else 4
    tables = {}

    def call(d, rd, args, ev):
        name = rd or d
        v = tabeval.std_call(d, args, ev)
        if v is not None:
            return v
        if name.startswith("insim::net::mode::"):
            if name not in tables:
                tables[name] = absint.const_table_summary(ctx.mir, name, ctx.ast)
            tb = tables[name]
            if tb is not None:
                return tb.get(vi, tb.get(None))
        return None

    def leaf(o):
        if o[0] == "discr" and strip_refs(o[1]) == ("arg", 1):
            return vi
        if o == ("arg", 2):
            return ev.len
        return None
    from mirq import strip_refs
    model = tabeval.Model(ctx, b, None, local_prefix="insim::net::mode::", extra_leaf=lambda o, m: leaf(o), extra_call=lambda d, rd, args, m: call(d, rd, args, m.ev))
    ev = model.ev
    bad = {"rows": None, "divisible-by-4": None, "size-value": None, "range": None, "accepts-valid": None}
    undecided = None
    n_ok = 0
    for ln in list(range(0, 4201)) + [65535, 65536, 2 ** 32, 2 ** 32 + 4, 2 ** 63, 2 ** 64 - 4]:
        ev.len = ln
        try:
            m = ev.matching_rows(rows)
        except tabeval.Unknown as e:
            undecided = e.what
            break
        valid = hi is not None and 4 <= ln <= hi and ln % scale == 0
        kinds = {r[1][1] for r in m}
        if len(kinds) > 1:
            bad["rows"] = bad["rows"] or "len %d: rows with different results apply (%s)" % (ln, sorted(kinds))
            continue
        if "Ok" in kinds:
            n_ok += 1
            r = m[0][1]
            try:
                v = ev.ev(r[3][0])
            except (tabeval.Unknown, tabeval.Panic) as e:
                undecided = "size value: %s" % e
                break
            if ln % scale != 0:
                bad["divisible-by-4"] = bad["divisible-by-4"] or "len %d is accepted although it is not a multiple of %d" % (ln, scale)
            elif hi is not None and not (4 <= ln <= hi):
                bad["range"] = bad["range"] or "len %d is accepted (limits 4..=%d)" % (ln, hi)
            if v != ln // scale:
                bad["size-value"] = bad["size-value"] or "len %d is emitted with size byte %d (expected %d)" % (ln, v, ln // scale)
        elif valid:
            bad["accepts-valid"] = bad["accepts-valid"] or "the legal length %d is refused (%s)" % (ln, sorted(kinds) or "panic")
    if undecided:
        rep.fail("R3.3", "%s:table" % vn, "Mode::%s: encode_length's decision table could not be evaluated (%s)" % (vn, undecided), b.loc())
        return
    rep.check("R3.3", "%s:rows" % vn, bad["rows"] is None and n_ok > 0, "Mode::%s: %s" % (vn, bad["rows"] or "no length is accepted"), b.loc(), nontrivial=False)
    if scale == 4:
        rep.check("R3.3", "%s:divisible-by-4" % vn, bad["divisible-by-4"] is None, "Mode::%s: %s" % (vn, bad["divisible-by-4"]), b.loc(), sample={"mode": vn, "accepted_lengths": n_ok})
    rep.check("R3.3", "%s:size-value" % vn, bad["size-value"] is None and bad["range"] is None,
              "Mode::%s: the size byte must be len%s for 4 <= len <= %s: %s" % (vn, "" if scale == 1 else " / 4", hi, bad["size-value"] or bad["range"]), b.loc(),
              sample={"mode": vn, "accepted_lengths": n_ok, "domain": "0..=4200 and six lengths up to 2^64-4"})
    rep.check("R3.3", "%s:accepts-valid" % vn, bad["accepts-valid"] is None, "Mode::%s: %s" % (vn, bad["accepts-valid"]), b.loc(), sample={"mode": vn})


def encode_inventory(ctx, rep):
    """R3.5: a packet (in particular one obtained by decoding) never makes the encoder abort except through the three
    documented refusals in encode_length"""
    import absint as ai
    import panics
    from props.c04 import duration_instances
    inst = duration_instances(ctx)

    def extra(s):
        if s["fn"] == "insim::net::mode::Mode::encode_length" and s["kind"] == "assert" and s["what"] in ("div_zero", "rem_zero"):
            r33 = [i for i in rep.instances if i["rule"] == "R3.3" and i["key"].endswith((":rows", ":size-value", ":accepts-valid", ":table"))]
            if r33 and all(i["ok"] for i in r33):
                return "the divisor does not depend on the length; R3.3 evaluated encode_length's table for both modes with these very divisions (a zero divisor would trap on every row and no length would be accepted)"
            return None
        if s["fn"] == "insim::net::codec::Codec::encode" and s["kind"] == "precondition" and s["what"].endswith("index_mut"):
            r34 = [i for i in rep.instances if i["rule"] == "R3.4"]
            if r34 and all(i["ok"] for i in r34):
                return "index 0 of the frame buffer, which holds at least the placeholder byte written first (R3.4 placeholder / order / patch-at-0)"
            return None
        if panics.is_or_helper_of(ctx.mir, s["fn"], "insim_core::duration::binrw_write_duration", generic="SCALE") and s["kind"] == "assert" and s["what"] == "div_zero":
            scales = {sc for (_t, sc) in inst}
            if scales and all(sc.isdigit() and int(sc) > 0 for sc in scales):
                return "`/ SCALE`: every instantiation uses a non-zero scale %s" % sorted(scales)
        return None
    roots = ["insim::net::codec::Codec::encode", "<insim::packet::Packet as binrw::binwrite::BinWrite>::write_options"]
    inv, sites = panics.check_paths(ctx, rep, "R3.5", roots, label="encode", extra_discharge=extra)
    rep.check("R3.5", "coverage:writers", len([n for n in inv.reach if n.endswith("binrw::binwrite::BinWrite>::write_options")]) >= 130,
              "expected at least 130 BinWrite impls on the encode path (found %d)" % len([n for n in inv.reach if n.endswith("binrw::binwrite::BinWrite>::write_options")]), None,
              sample={"functions_reachable": len(inv.reach), "sites": len(sites)})
    rep.floor("R3.5", 12)


def const_array_len(ctx, o):
    """number of elements of a constant array operand (a literal `[0]`, a promoted constant or a named `const X: [u8; N]`), else None"""
    x = strip_refs(o)
    while x[0] == "cast":
        x = strip_refs(x[4])
    if x[0] == "agg" and x[1][0] == "array":
        return len(x[2]), [e[1] if e[0] == "const" else None for e in x[2]]
    if x[0] == "const" and isinstance(x[3], str):
        m = re.match(r"^&?\[[^;\]]+; (\d+)\]$", x[3].strip())
        if m:
            vals = None
            if isinstance(x[2], str) and "::" in x[2]:
                cs = ctx.ast.const(x[2].split("::")[-1])
                if len(cs) == 1 and cs[0][3]["value"].get("elems") is not None:
                    vals = [int(e["v"]) if e.get("t") == "int" else None for e in cs[0][3]["value"]["elems"]]
            return int(m.group(1)), vals
    return None


def encode_order(ctx, rep):
    """R3.4: one placeholder byte first, then the packet, then the length taken from the same buffer, then the byte that
    encode_length returned stored at index 0 of that buffer - either by rewinding the cursor and writing one byte, or by
    `data[0] = n` on the buffer taken out of the cursor."""
    b = ctx.mir.body("insim::net::codec::Codec::encode")
    if b is None:
        rep.fail("R3.4", "found", "Codec::encode not found")
        return
    rep.fn(b.name)
    from mirq import inline_calls
    ib = inline_calls(b, lambda d: d.startswith("insim::net::codec::") and "{closure" not in d and not d.endswith(("Codec::encode", "Codec::decode", "Codec::mode", "Codec::new")), depth=3)
    if ib is not b:
        rep.notes.append("R3.4: private helper(s) of insim::net::codec inlined into Codec::encode")
        b = ib
    cur = b.calls_to(r"io::cursor::Cursor::<T>::new$")
    W0 = b.calls_to(r"^std::io::Write::write$")
    P = [(bb, t) for bb, t in b.calls_to(r"binrw::binwrite::BinWrite::write$") if callee(t)[2] and callee(t)[2][0] == "insim::packet::Packet"]
    POS = b.calls_to(r"Cursor::<T>::position$")
    EL = b.calls_to(r"Mode::encode_length$")
    SP = b.calls_to(r"Cursor::<T>::set_position$")
    WA = b.calls_to(r"^std::io::Write::write_all$")
    INTO = b.calls_to(r"Cursor::<T>::into_inner$")
    IDX = b.calls_to(r"IndexMut::index_mut$")
    base_ok = all(len(x) == 1 for x in (cur, W0, P, POS, EL, INTO))
    form_a = base_ok and len(SP) == 1 and len(WA) == 1 and not IDX
    form_b = base_ok and not SP and not WA and len(IDX) == 1
    ok = form_a or form_b
    rep.check("R3.4", "anchors", ok, "Codec::encode: expected one each of Cursor::new, Write::write (placeholder), Packet::write, position, encode_length, into_inner and a patch of byte 0 "
              "(set_position + write_all, or index 0 of the buffer); found %s" % [len(x) for x in (cur, W0, P, POS, EL, SP, WA, INTO, IDX)], b.loc(),
              sample={"counts": [len(x) for x in (cur, W0, P, POS, EL, SP, WA, INTO, IDX)], "patch": "rewind+write" if form_a else "index" if form_b else "?"})
    if not ok:
        return
    cbb = cur[0][0]

    def on_cursor(t, i=0):
        return any(c[4] == cbb for c in origin_calls(b.origin(t["args"][i])))

    users = [W0[0], POS[0], INTO[0]] + ([SP[0], WA[0]] if form_a else [IDX[0]])
    same = all(on_cursor(t) for _bb, t in users) and on_cursor(P[0][1], 1)
    rep.check("R3.4", "one-buffer", same, "placeholder, packet, position, patch and into_inner must all act on the same cursor / its buffer", b.loc())
    # placeholder: exactly one byte
    pl = const_array_len(ctx, b.origin(W0[0][1]["args"][1]))
    okp = pl is not None and pl[0] == 1
    rep.check("R3.4", "placeholder", okp, "the size placeholder must be exactly one byte written first (found %s)" % fmt_origin(b.origin(W0[0][1]["args"][1])), b.loc(W0[0][1]["line"]),
              sample={"placeholder": fmt_origin(b.origin(W0[0][1]["args"][1])), "bytes": pl[0] if pl else None})
    tr = b.try_of_call(EL[0][0])
    if form_a:
        order = [W0[0][0], P[0][0], POS[0][0], EL[0][0], SP[0][0], WA[0][0], INTO[0][0]]
    else:
        order = [W0[0][0], P[0][0], POS[0][0], EL[0][0], INTO[0][0], IDX[0][0]]
    okd = all(b.dominates(order[i], order[i + 1]) for i in range(len(order) - 1))
    rep.check("R3.4", "order", okd, "required order placeholder -> Packet::write -> position -> encode_length -> patch of byte 0 is not enforced by dominance (blocks %s)" % order,
              b.loc(), sample={"blocks": order})
    # encode_length(self.mode(), position as usize)
    a0 = b.origin(EL[0][1]["args"][0])
    a1 = b.origin(EL[0][1]["args"][1])
    m0 = strip_refs(a0)
    while m0[0] == "deref":
        m0 = strip_refs(m0[1])
    okm = any(c[1].endswith("Codec::mode") for c in origin_calls(a0)) or (m0[0] == "field" and m0[3] == "mode" and strip_refs(m0[1]) in (("arg", 1), ("deref", ("arg", 1))))
    x = a1
    while x[0] == "cast":
        x = x[4]
    okl = x[0] == "call" and x[4] == POS[0][0]
    rep.check("R3.4", "length-source", okm and okl, "encode_length must be given self.mode() and the cursor position after writing (found %s, %s)" % (fmt_origin(a0), fmt_origin(a1)), b.loc(EL[0][1]["line"]))
    if form_a:
        z = b.origin(SP[0][1]["args"][1])
        rep.check("R3.4", "patch-at-0", z[0] == "const" and z[1] == 0, "the size byte must be patched at position 0", b.loc(SP[0][1]["line"]))
        wo = strip_refs(b.origin(WA[0][1]["args"][1]))
        while wo[0] == "cast":
            wo = strip_refs(wo[4])
        okn = wo[0] == "agg" and wo[1][0] == "array" and len(wo[2]) == 1 and tr is not None and any(c[4] == tr[0] for c in origin_calls(wo[2][0]))
        rep.check("R3.4", "patch-value", okn, "exactly the byte returned by encode_length must be written at position 0 (found %s)" % fmt_origin(wo), b.loc(WA[0][1]["line"]), sample={"patched": fmt_origin(wo)})
        sites = (("packet-write", P[0]), ("encode_length", EL[0]), ("patch", WA[0]))
    else:
        ibb, it = IDX[0]
        z = b.origin(it["args"][1])
        rep.check("R3.4", "patch-at-0", z[0] == "const" and z[1] == 0, "the size byte must be patched at index 0 (found %s)" % fmt_origin(z), b.loc(it["line"]))
        dest = it["dest"]["l"]
        stores = [(i, st) for i, bl in enumerate(b.blocks) for st in bl["stmts"]
                  if st["k"] == "assign" and st["place"]["l"] == dest and st["place"]["p"] == ["deref"]]
        okn = False
        found = None
        if len(stores) == 1 and stores[0][1]["rv"]["k"] == "use":
            vo = b.origin(stores[0][1]["rv"]["x"])
            found = fmt_origin(vo)
            okn = tr is not None and any(c[4] == tr[0] for c in origin_calls(vo)) and b.dominates(ibb, stores[0][0])
        rep.check("R3.4", "patch-value", okn, "exactly the byte returned by encode_length must be stored at index 0 (found %s)" % found, b.loc(it["line"]), sample={"patched": found})
        sites = (("packet-write", P[0]), ("encode_length", EL[0]))
    for nm, site in sites:
        t = b.try_of_call(site[0])
        rep.check("R3.4", "propagates:%s" % nm, t is not None and b.ret_kinds(t[3]) == {"residual"}, "the error of %s must be returned" % nm, b.loc(site[1]["line"]), nontrivial=False)
    # the returned frame is that buffer
    rep.floor("R3.4", 7)
