"""R1.3 — hand-written BinRead/BinWrite pairs (filled in incrementally)."""
from props.packets import norm, show

HAND_TYPES = ["SmallType", "CimMode", "ConInfo", "Fuel", "Fuel200", "RaceLaps", "Vehicle", "Track", "Mso"]


def run(ctx, rep):
    wire = ctx.wire
    for name in HAND_TYPES:
        ent = ctx.ast.one(name, kinds=("Struct", "Enum"))
        if ent is None:
            rep.fail("R1.3", "%s:found" % name, "hand-written codec type %s not found" % name)
            continue
        r = norm(wire.hand_segs(ent, "read", name), "read", wire)
        w = norm(wire.hand_segs(ent, "write", name), "write", wire)
        ok = len(r) == len(w)
        if ok:
            for a, b in zip(r, w):
                if (a[1], a[2]) == (b[1], b[2]):
                    continue
                if a[2] in ("tail",) and b[2] == "vec":
                    continue
                if a[2] == "b" and b[2] == "b" and a[1] == b[1]:
                    continue
                ok = False
        rep.fn(wire.hand_body_name(ent, "read"))
        rep.fn(wire.hand_body_name(ent, "write"))
        rep.check("R1.3", "%s:shape" % name, ok, "hand-written %s: read shape %s vs write shape %s" % (name, show(r), show(w)),
                  ctx.loc(ent), sample={"type": name, "read": show(r), "write": show(w)})
    rep.floor("R1.3", 9)
