"""R1.3 — hand-written BinRead/BinWrite pairs: equal wire shape, inverse discriminant tables, and for ConInfo
field provenance per wire slot and bit provenance of writer∘reader for every field."""
import re

import bits
import tables
from astq import find_nodes
from mirq import callee, fmt_origin, origin_calls, origin_fields, strip_refs
from props.packets import norm, show

HAND_TYPES = ["SmallType", "CimMode", "ConInfo", "Fuel", "Fuel200", "RaceLaps", "Vehicle", "Track", "Mso"]


def run(ctx, rep):
    wire = ctx.wire
    for name in HAND_TYPES:
        ent = ctx.ast.one(name, kinds=("Struct", "Enum"))
        if ent is None:
            rep.fail("R1.3", "%s:found" % name, "hand-written codec type %s not found" % name)
            continue
        r = norm(wire.hand_segs(ent, "read", name), "read", wire)
        w = norm(wire.hand_segs(ent, "write", name), "write", wire)
        ok = len(r) == len(w)
        if ok:
            for a, b in zip(r, w):
                if (a[1], a[2]) == (b[1], b[2]):
                    continue
                if a[2] in ("tail",) and b[2] == "vec":
                    continue
                if a[2] == "b" and b[2] == "b" and a[1] == b[1]:
                    continue
                ok = False
        rep.fn(wire.hand_body_name(ent, "read"))
        rep.fn(wire.hand_body_name(ent, "write"))
        rep.check("R1.3", "%s:shape" % name, ok, "hand-written %s: read shape %s vs write shape %s" % (name, show(r), show(w)),
                  ctx.loc(ent), sample={"type": name, "read": show(r), "write": show(w)})
    rep.floor("R1.3", 9)
    discriminants(ctx, rep)
    fuel(ctx, rep)
    struct_pair(ctx, rep, "insim::insim::contact::ConInfo")
    rep.floor("R1.3b", 20)
    rep.floor("R1.3c", 24)


def variant_of(b):
    if b["k"] == "Path" and b["path"].startswith("Self::"):
        return b["path"].split("::")[-1]
    if b["k"] == "Call" and b["func"]["k"] == "Path" and b["func"]["path"].startswith("Self::"):
        return b["func"]["path"].split("::")[-1]
    if b["k"] == "Struct" and b["path"].startswith("Self::"):
        return b["path"].split("::")[-1]
    return None


def variant_through(b):
    """the enum variant an arm body produces: `Self::X`, `Self::X(..)`, `Self::X{..}`, also wrapped in `Ok(..)` or built by
    `<expr>.map(Self::X)` / `.map(Self::X).map_err(..)` (a fallible payload conversion followed by the constructor)"""
    v = variant_of(b)
    if v:
        return v
    if b.get("k") == "Call" and b["func"].get("k") == "Path" and b["func"]["path"].split("::")[-1] in ("Ok", "Some") and b.get("args"):
        return variant_through(b["args"][0])
    if b.get("k") == "MethodCall":
        if b["method"] == "map" and b.get("args") and b["args"][0].get("k") == "Path" and b["args"][0]["path"].split("::")[0] in ("Self",):
            return b["args"][0]["path"].split("::")[-1]
        if b["method"] in ("map_err", "or_else", "ok_or", "ok_or_else"):
            return variant_through(b["recv"])
    if b.get("k") == "Block" and b.get("stmts"):
        last = b["stmts"][-1]
        if last.get("k") == "Expr" or "e" in last:
            return variant_through(last.get("e") or last)
    return None


def disc_tables(ctx, tyname):
    """(byte -> variant read table, variant -> byte write table, entity for locations) collected from every method of the type:
    the tables may live in read_options / write_options themselves or in private helpers they call"""
    rd, wr = {}, {}
    ent = None
    for e in ctx.ast.impls(tyname):
        for it in e[3]["items"]:
            if it["k"] != "Fn":
                continue
            for m in find_nodes(it["body"], lambda n: n.get("k") == "Match"):
                for arm in m["arms"]:
                    p, b = arm["pat"], arm["body"]
                    if p["k"] == "Lit" and p.get("t") == "int":
                        v = variant_through(b)
                        if v:
                            rd[int(p["v"])] = v
                            ent = ent or (e, it)
                    v = p["path"].split("::")[-1] if p["k"] in ("Path", "TupleStruct", "Struct") and p.get("path", "").split("::")[0] in ("Self", tyname) else None
                    if v and b["k"] in ("Tuple", "Array") and b["elems"] and b["elems"][0]["k"] == "Lit" and b["elems"][0].get("t") == "int":
                        wr[v] = int(b["elems"][0]["v"])
    return rd, wr, ent


def discriminants(ctx, rep):
    """reader table (byte -> variant) and writer table (variant -> byte) of SmallType / CimMode are inverse"""
    for tyname in ("SmallType", "CimMode"):
        rm = ctx.ast.method(tyname, "read_options", trait="BinRead")
        wm = ctx.ast.method(tyname, "write_options", trait="BinWrite")
        if len(rm) != 1 or len(wm) != 1:
            rep.fail("R1.3b", "%s:found" % tyname, "reader/writer of %s not found" % tyname)
            continue
        rd, wr, _ent = disc_tables(ctx, tyname)
        loc = ctx.loc(rm[0][0], rm[0][1]["ln"])
        for byte, var in sorted(rd.items()):
            rep.check("R1.3b", "%s:%s" % (tyname, var), wr.get(var) == byte, "%s: byte %d decodes to %s but %s is written as %s" % (tyname, byte, var, var, wr.get(var)), loc,
                      sample={"type": tyname, "variant": var, "read": byte, "write": wr.get(var)})
        rep.check("R1.3b", "%s:bijection" % tyname, len(set(rd.values())) == len(rd) and set(wr) == set(rd.values()),
                  "%s: reader variants %s vs writer variants %s" % (tyname, sorted(rd.values()), sorted(wr)), loc)


def fuel(ctx, rep):
    for tyname in ("Fuel", "Fuel200"):
        rm = ctx.ast.method(tyname, "read_options", trait="BinRead")
        wm = ctx.ast.method(tyname, "write_options", trait="BinWrite")
        if len(rm) != 1 or len(wm) != 1:
            rep.fail("R1.3b", "%s:found" % tyname, "reader/writer of %s not found" % tyname)
            continue
        ifs = find_nodes(rm[0][1]["body"], lambda n: n.get("k") == "If" and n["cond"].get("k") == "Binary" and n["cond"]["op"] == "==")
        rsent = int(ifs[0]["cond"]["rhs"]["v"]) if ifs and ifs[0]["cond"]["rhs"].get("k") == "Lit" else None
        rno = bool(ifs) and tables.edesc(ifs[0]["then"][0]["e"]) == ("call", "Ok", (("path", "Self::No"),))
        wsent = None
        for m in find_nodes(wm[0][1]["body"], lambda n: n.get("k") == "Match"):
            for arm in m["arms"]:
                if arm["pat"]["k"] == "Path" and arm["pat"]["path"].endswith("No") and arm["body"]["k"] == "Lit":
                    wsent = int(arm["body"]["v"])
        rep.check("R1.3b", "%s:sentinel" % tyname, rsent == wsent == 255 and rno, "%s: `No` is read from %s and written as %s (must both be 255)" % (tyname, rsent, wsent),
                  ctx.loc(rm[0][0], rm[0][1]["ln"]), sample={"type": tyname, "read_sentinel": rsent, "write_sentinel": wsent})


def struct_pair(ctx, rep, tpath):
    """field + bit provenance for a hand-written struct codec"""
    short = tpath.split("::")[-1]
    r = ctx.mir.body("<%s as binrw::binread::BinRead>::read_options" % tpath)
    w = ctx.mir.body("<%s as binrw::binwrite::BinWrite>::write_options" % tpath)
    if r is None or w is None:
        rep.fail("R1.3c", "%s:found" % short, "reader/writer bodies of %s not found" % tpath)
        return
    # private helpers of the type's module (bit packing / splitting) are part of the codec
    from mirq import inline_calls
    modp = tpath.rsplit("::", 1)[0] + "::"
    r = inline_calls(r, lambda d: d.startswith(modp) and "{closure" not in d and not d.startswith("<"), depth=3)
    w = inline_calls(w, lambda d: d.startswith(modp) and "{closure" not in d and not d.startswith("<"), depth=3)
    # reader: wire slots in path order = read/seek calls ordered by dominance
    rslots = []
    for bb, t in r.calls():
        d = callee(t)[0]
        if d == "binrw::binread::BinRead::read_options":
            rslots.append((bb, "read", callee(t)[2][0]))
        elif d == "std::io::Seek::seek":
            rslots.append((bb, "seek", None))
    rslots.sort(key=lambda s: len([1 for o in rslots if r.dominates(o[0], s[0])]))
    aggs = [st for bl in r.blocks for st in bl["stmts"] if st["k"] == "assign" and st["rv"]["k"] == "agg" and st["rv"].get("adt") == tpath]
    if len(aggs) != 1:
        rep.fail("R1.3c", "%s:aggregate" % short, "expected one %s{..} construction in the reader" % short, r.loc())
        return
    fields = dict(zip(aggs[0]["rv"]["fields"], aggs[0]["rv"]["ops"]))
    slot_of_bb = {}
    # the read call's result flows through Try::branch: map branch bb -> slot too
    for i, (bb, kind, ty) in enumerate(rslots):
        slot_of_bb[bb] = i
    field_slot, field_expr = {}, {}
    for f, op in fields.items():
        o = r.origin(op)
        reads = [c for c in origin_calls(o) if c[1] == "binrw::binread::BinRead::read_options"]
        ks = sorted({slot_of_bb[c[4]] for c in reads if c[4] in slot_of_bb})
        field_slot[f] = ks
        field_expr[f] = o
    # writer: slots in order
    wslots = [(bb, t) for bb, t in w.calls_to(r"binwrite::BinWrite::write_options$")]
    wslots.sort(key=lambda s: len([1 for o in wslots if w.dominates(o[0], s[0])]))
    rep.check("R1.3c", "%s:slot-count" % short, len(wslots) == len(rslots), "%s: reader has %d wire slots, writer %d" % (short, len(rslots), len(wslots)), w.loc(),
              sample={"reader_slots": len(rslots), "writer_slots": len(wslots)})
    # domains enforced by the writer: `if self.F > K { return Err }`
    domain = {}
    for sbb, tg, oth, o in w.switch_on(lambda o: o[0] == "bin" and o[1] == "Gt" and o[3][0] == "const"):
        fs = origin_fields(o[2]) - {"0"}
        if len(fs) == 1 and "Err" in w.ret_kinds(oth) and not (w.ret_kinds(oth) - {"Err", "residual"}):
            domain[list(fs)[0]] = o[3][1]
    # ... and, independent of where the guard is spelled (inline, in a helper, `<=` or `>`): on the writer's path table every path
    # that returns Ok establishes an upper bound for the field
    try:
        wrows = w.decision_rows()
    except Exception:
        wrows = None
    if wrows:
        per_field = {}
        ok_rows = 0
        for conds, ret, _o in wrows:
            if ret[1] != "Ok":
                continue
            ok_rows += 1
            bounds = {}
            for c in conds:
                o = c[4]
                if not (isinstance(o, tuple) and o and o[0] == "bin" and o[1] in ("Gt", "Ge", "Lt", "Le") and o[3][0] == "const" and o[3][1] is not None and c[2] in ("eq", "ne") and len(c[3]) == 1 and c[3][0] in (0, 1)):
                    continue
                fs = origin_fields(o[2]) - {"0"}
                if len(fs) != 1:
                    continue
                truth = (c[3][0] != 0) if c[2] == "eq" else (c[3][0] == 0)
                K = o[3][1]
                ub = {("Gt", False): K, ("Le", True): K, ("Ge", False): K - 1, ("Lt", True): K - 1}.get((o[1], truth))
                if ub is not None:
                    f = list(fs)[0]
                    bounds[f] = min(bounds.get(f, ub), ub)
            for f in set(per_field) | set(bounds):
                per_field.setdefault(f, []).append(bounds.get(f))
            for f in bounds:
                if len(per_field[f]) < ok_rows:
                    per_field[f] = [None] * (ok_rows - 1) + [bounds[f]]
        for f, bs in per_field.items():
            if ok_rows and len(bs) == ok_rows and all(x is not None for x in bs) and f not in domain:
                domain[f] = max(bs)
    widths = {}
    structs = ctx.mir.structs.get(tpath, {"fields": []})
    for fd in structs["fields"]:
        t = fd["ty"].split("::")[-1]
        widths[fd["name"]] = bits.WIDTH.get(t, 8)
    for k, (bb, t) in enumerate(wslots):
        wo = strip_refs(w.origin(t["args"][0]))
        wf = sorted(origin_fields(wo) - {"0"})
        rf = sorted(f for f, ks in field_slot.items() if ks == [k])
        kind = rslots[k][1] if k < len(rslots) else "?"
        if kind == "seek":
            ok = wo[0] == "const" and wo[1] == 0
            rep.check("R1.3c", "%s:slot%d:pad" % (short, k), ok, "%s slot %d is skipped by the reader but the writer emits %s (must be the constant 0)" % (short, k, fmt_origin(wo)), w.loc(t["line"]), nontrivial=False)
            continue
        rep.check("R1.3c", "%s:slot%d:fields" % (short, k), wf == rf and len(wf) >= 1,
                  "%s wire slot %d is written from %s but read into %s (field swapped, dropped or invented)" % (short, k, wf, rf), w.loc(t["line"]),
                  sample={"slot": k, "written_from": wf, "read_into": rf, "writer_expr": fmt_origin(wo)})
        if wf != rf:
            continue
        wty = callee(t)[2][0]
        sw = bits.WIDTH.get(wty.split("::")[-1], None)
        if sw is None:
            # composite slot (PlayerId, CompCarInfo ...): identity check only
            rep.check("R1.3c", "%s:slot%d:identity" % (short, k), wo[0] == "field" and field_expr[rf[0]][0] in ("field", "downcast"),
                      "%s slot %d (%s) must be copied unchanged in both directions" % (short, k, wty), w.loc(t["line"]), nontrivial=False)
            continue

        def wleaf(o):
            if o[0] == "field" and o[3] in widths and strip_refs(o[1]) == ("arg", 1):
                return (o[3], widths[o[3]])
            return None
        wbits = bits.evaluate(wo, sw, wleaf)
        # fields' enforced domains: bits above the domain are zero in any value the writer accepts
        dom_bits = {f: (domain[f].bit_length() if f in domain else widths.get(f, sw)) for f in wf}
        wbits = [0 if (isinstance(b, tuple) and b[2] >= dom_bits[b[1]]) else b for b in wbits]
        for f in rf:
            def rleaf(o, k=k):
                x = o
                if x[0] == "field" and x[1][0] == "downcast" and x[1][3] == "Continue":
                    c = [cc for cc in origin_calls(x) if cc[1] == "binrw::binread::BinRead::read_options"]
                    if c and slot_of_bb.get(c[0][4]) == k:
                        return ("slot", sw)
                return None
            fw = widths.get(f, sw)
            rbits = bits.evaluate(field_expr[f], fw, rleaf)
            composed = bits.substitute(rbits, {"slot": wbits})
            want = [("f", f, i) if i < dom_bits[f] else 0 for i in range(fw)]
            lost = [i for i in range(fw) if composed[i] != want[i]]
            rep.check("R1.3c", "%s:%s:bits" % (short, f), not lost,
                      "%s.%s does not survive encode->decode: with the writer's domain of %d bit(s), bit(s) %s come back as %s (writer `%s`, reader `%s`)"
                      % (short, f, dom_bits[f], lost, [composed[i] for i in lost][:4], fmt_origin(wo), fmt_origin(field_expr[f])), w.loc(t["line"]),
                      sample={"field": f, "slot": k, "domain_bits": dom_bits[f], "writer": fmt_origin(wo), "reader": fmt_origin(field_expr[f]), "composed": [str(x) for x in composed]})
