"""Shared helpers for the connection rules (C05, C06, C07, C09, C19): locate the read/write/read_buf bodies of the
blocking and tokio `Framed`, and answer path questions that work the same for a plain fn and for the
pre-transform MIR of an async fn (where `.await` is into_future + poll loop + Yield)."""
import re

from mirq import callee, origin_calls, strip_refs

IMPLS = {
    "blocking": {
        "read": "insim::net::blocking_impl::framed::Framed::read",
        "read_buf": "insim::net::blocking_impl::framed::Framed::read_buf",
        "write": "insim::net::blocking_impl::framed::Framed::write",
        "handshake": "insim::net::blocking_impl::framed::Framed::handshake",
        "framed": "insim::net::blocking_impl::framed::Framed",
    },
    "tokio": {
        "read": "insim::net::tokio_impl::framed::Framed::read::{closure#0}#promoted",
        "read_buf": "insim::net::tokio_impl::framed::Framed::read_buf::{closure#0}#promoted",
        "write": "insim::net::tokio_impl::framed::Framed::write::{closure#0}#promoted",
        "handshake": "insim::net::tokio_impl::framed::Framed::handshake::{closure#0}#promoted",
        "framed": "insim::net::tokio_impl::framed::Framed",
    },
}

FEATURE_OF = {"blocking": "blocking", "tokio": "tokio"}


def impls_present(ctx):
    """implementations compiled in this configuration"""
    feats = {"default": ("blocking", "tokio"), "blocking": ("blocking",), "websocket": ("tokio",), "all": ("blocking", "tokio")}[ctx.config]
    return feats


CODEC_ENTRY = ("::decode", "::encode", "::new", "::mode")
ANCHOR_METHODS = ("::read", "::read_buf", "::write", "::handshake", "::new", "::verify_version")


def body(ctx, rep, rule, impl, which):
    name = IMPLS[impl][which]
    b = ctx.mir.body(name)
    if b is None:
        rep.fail(rule, "%s:%s:found" % (impl, which), "function %s not found (anchor lost)" % name)
        return None
    rep.fn(name)
    prefix = IMPLS[impl]["framed"] + "::"

    def want(d):
        # private (non-anchor, non-async) helper methods of the same Framed impl are analysed in place - and so are helpers the
        # two implementations share: free functions of insim::net and Codec methods other than the codec's own entry points
        if "{closure" in d:
            return False
        if d.startswith(prefix) and not d.endswith(ANCHOR_METHODS):
            return True
        if re.match(r"^insim::net::[a-z_0-9]+$", d):
            return True
        if d.startswith("insim::net::codec::Codec::") and not d.endswith(CODEC_ENTRY):
            return True
        return False
    from mirq import inline_calls, inline_async
    ib = inline_async(b, lambda d: d.startswith(prefix) and not d.endswith(ANCHOR_METHODS), depth=3)
    ib = inline_calls(ib, want)
    from mirq import expand_adaptors
    ib = expand_adaptors(ib)
    ib = inline_calls(ib, want)
    if ib is not b:
        rep.notes.append("%s: private helper(s) of %s inlined for path analysis" % (rule, name))
    return ib


def call_sites(b, pattern):
    return b.calls_to(pattern)


def mentions_call_bb(o, bb):
    return any(c[4] == bb for c in origin_calls(o))


def awaited(b, call_bb):
    """for an async call site: the Future::poll call(s) that poll the future created at call_bb"""
    out = []
    for pb, t in b.calls_to(r"future::Future::poll$"):
        o = b.origin(t["args"][0])
        if mentions_call_bb(o, call_bb):
            out.append(pb)
    return out


def try_of(b, call_bb, is_async):
    """(branch bb, switch bb, continue target, break target) of the `?` applied to the (awaited) result of the call"""
    if not is_async:
        return b.try_of_call(call_bb)
    polls = awaited(b, call_bb)
    for pb in polls:
        for tb, t in b.calls_to(r"ops::try_trait::Try::branch$"):
            o = b.origin(t["args"][0])
            if mentions_call_bb(o, pb):
                sw = b.discr_switch_of_call(tb)
                if sw:
                    return tb, sw[0], sw[1].get(0), sw[1].get(1)
    return None


def ready_value_switch(b, call_bb, is_async):
    """switch on the discriminant of the value produced by call (sync) / by awaiting it (async: Poll::Ready payload)"""
    if not is_async:
        return b.discr_switch_of_call(call_bb)
    for pb in awaited(b, call_bb):
        def pred(o, pb=pb):
            return o[0] == "discr" and mentions_call_bb(o[1], pb) and not (o[1][0] == "call" and o[1][4] == pb)
        r = b.switch_on(pred)
        if r:
            return r[0]
    return None


def ok_return_blocks(b):
    """blocks that assign `_0 = Result::Ok(..)` (sync) or `_0 = Poll::Ready(Ok(..))`-equivalent: Result::Ok aggregates flowing to return"""
    out = []
    for i, bl in enumerate(b.blocks):
        for st in bl["stmts"]:
            if st["k"] == "assign" and st["rv"]["k"] == "agg" and st["rv"].get("adt") == "core::result::Result" and st["rv"]["vname"] == "Ok" \
                    and st["place"]["l"] in b.ret_places() and not st["place"]["p"]:
                out.append((i, st))          # _0, or the return place of an inlined helper whose result is returned as is (tail call)
    return out


def packet_ok_returns(b):
    """Result::Ok(packet) aggregates whose payload originates from Codec::decode (the delivered packet)"""
    out = []
    for i, st in ok_return_blocks(b):
        o = b.origin(st["rv"]["ops"][0])
        if b.may_mention(o, r"Codec::decode$"):
            out.append(i)
    return out
