"""C01 — lossless packet round trip: reader and writer are structural mirror images (all 73 kinds).

R1.1 declared symmetry of every #[binrw] field (width/position/pads/helper pairs/map idioms/no one-sided drop)
R1.2 count <-> calc pairing over the same collection
R1.3 hand-written BinRead/BinWrite pairs: equal wire shape; discriminant tables inverse; field and bit provenance
"""
from props import handpairs, symmetry
from props.packets import norm, packet_variants, show, strip_trailing_align

EXPLANATION = (
    "Mirror-image analysis of reader and writer. For every #[binrw] struct of the protocol the read-side and write-side "
    "directive sets are compared field by field (same wire shape, pads, reviewed parse_with/write_with pairs with equal const "
    "generics, reviewed inverse map idioms, br(count) paired with bw(calc = <same vec>.len() as T), no one-sided "
    "ignore/default/try/if). For the hand-written BinRead/BinWrite pairs the resolved read/write call sequences on all MIR "
    "paths must have the same shape, the discriminant tables must be inverse, and (ConInfo) every wire slot must be written "
    "from and read into the same field with every bit of the field's enforced domain surviving writer∘reader "
    "(bit-level provenance over << >> & | ! with constants). Not decided: equality of values through library conversions "
    "(codepage text, floats), Mso's textstart recomputation, anything depending on element values."
)


def run(ctx, rep):
    rep.explanation = EXPLANATION
    rep.assumptions = ["binrw implements its directives as documented", "rustc MIR construction and callee resolution are correct"]
    ent, variants = packet_variants(ctx)
    if ent is None:
        rep.fail("R1.0", "Packet", "enum insim::packet::Packet not found")
        return
    # every packet variant: payload both sides present; read/write shape of the whole payload agree
    for v in variants:
        lay = v["lay"]
        if lay is None:
            rep.fail("R1.0", "%s:payload" % v["variant"], "no payload layout", v["loc"])
            continue
        r, w = norm(lay["read"], "read", ctx.wire), strip_trailing_align(norm(lay["write"], "write", ctx.wire))
        ok = len(r) == len(w)
        if ok:
            for a, b in zip(r, w):
                if (a[1], a[2]) == (b[1], b[2]):
                    continue
                if a[2] in ("b", "s", "tail") and b[2] == "vec":
                    continue
                ok = False
        rep.check("R1.0", "%s:shape" % v["variant"], ok,
                  "packet %s: read shape %s vs write shape %s" % (v["variant"], show(r), show(w)), v["loc"],
                  sample={"packet": v["variant"], "read": show(r), "write": show(w)})
    rep.floor("R1.0", 73)
    # all #[binrw] structs of insim (+ the non-generic ones of insim_core)
    n = 0
    for (crate, modpath, file, it) in symmetry.binrw_structs(ctx, ("insim", "insim_core")):
        if it.get("generics"):
            continue
        n += 1
        rep.fn("%s::%s" % (modpath, it["name"]))
        symmetry.check_struct(ctx, rep, "R1", it["name"], modhint=modpath)
    rep.floor("R1.1", 300)
    rep.floor("R1.2", 12)
    for (where, what) in sorted(set(ctx.wire.undecidable)):
        rep.fail("R1.0", "undecidable:%s:%s" % (where, what), "wire model could not decide: %s at %s" % (what, where))
    handpairs.run(ctx, rep)
    # the size byte is part of every round trip through the codec: its two conversions must be mirror images
    # (encode: len -> len | len/4 under guards, decode: first byte -> byte | byte*4 without losing bits)
    from props import c03_mir, c04
    c03_mir.run(ctx, rep)
    c04.decode_length(ctx, rep)
    # ... and the packet reader must be confined to the frame it decodes: a reader that can run into the bytes of the next
    # buffered frame returns a packet that was never encoded (until-EOF texts, over-claimed counts)
    c04.decode(ctx, rep)
    # text up to the field width must come back unchanged: the shared text writer keeps the encoded text up to the field's width
    # and appends zero bytes only (C11's R11.3: exact width / content on the writers' path tables)
    # vehicle identifiers travel in NPL / SLC / RES ...: the hand-written reader must be the inverse of the writer for every id
    # the writer can produce (C13's tables: reader evaluated over the four-byte domain, writer / name tables)
    from props import c13
    before = len(rep.instances)
    keep_expl, keep_ass = rep.explanation, list(rep.assumptions)
    c13.run(ctx, rep)
    rep.explanation, rep.assumptions = keep_expl, keep_ass
    rep.instances[before:] = [i for i in rep.instances[before:] if i["rule"] in ("R13.0", "R13.1", "R13.2", "R13.3")]
    from props import c11
    before = len(rep.instances)
    c11.length_domain(ctx, rep)
    rep.instances[before:] = [i for i in rep.instances[before:] if i["rule"] == "R11.3"]
    rep.floors.pop("R11.4", None)
