"""C16 — game versions: totality and order-structure clauses."""
import itertools
import re

import panics
from mirq import callee, fmt_origin, origin_calls, origin_fields, strip_refs

EXPLANATION = (
    "R16.1 panic-site inventory of GameVersion::from_str, Display, cmp, eq, partial_cmp and the two wire helpers "
    "(parse_game_version / write_game_version). R16.2 Ord::cmp extracted from MIR as a finite decision table over the three component "
    "orderings and evaluated for all 27 combinations of (Less, Equal, Greater): exactly one row applies and the result is the "
    "lexicographic combination; the components are partial_cmp of (self.major, other.major), (self.minor, other.minor), "
    "(self.patch.unwrap_or(0), other.patch.unwrap_or(0)) in that argument order; eq tests the same three keys; partial_cmp is "
    "Some(cmp). R16.3 the only store to `minor` in from_str is `to_ascii_uppercase` of the consumed character. Not decided: "
    "print->parse round trip, termination of the parser loop, float edge cases unreachable through parsing."
)

GV = "insim_core::game_version::GameVersion"
ORD = {"L": -1, "E": 0, "G": 1}


def run(ctx, rep):
    rep.explanation = EXPLANATION
    rep.assumptions = ["f32/char/usize partial_cmp and f32::from_str behave as documented; NaN major versions are unreachable through parsing decimal digits"]
    cmp_table(ctx, rep)
    eq_keys(ctx, rep)
    normalise(ctx, rep)
    display_shape(ctx, rep)
    roots = ["<%s as core::str::traits::FromStr>::from_str" % GV, "<%s as core::fmt::Display>::fmt" % GV, "<%s as core::cmp::Ord>::cmp" % GV,
             "<%s as core::cmp::PartialEq>::eq" % GV, "<%s as core::cmp::PartialOrd>::partial_cmp" % GV,
             "insim::insim::ver::parse_game_version", "insim::insim::ver::write_game_version"]
    present = [r for r in roots if ctx.mir.body(r) is not None]
    rep.check("R16.1", "roots", len(present) == len(roots), "anchors missing: %s" % sorted(set(roots) - set(present)), None, nontrivial=False)
    panics.check_paths(ctx, rep, "R16.1", present, label="game version")
    rep.floor("R16.1", 2)


def component(text):
    for c in ("major", "minor", "patch"):
        if "." + c in text:
            return c
    return None


def side_comp(o):
    """(side, component) of a comparison operand: ('self'|'other', 'major'|'minor'|'patch'), or None"""
    txt = fmt_origin(o)
    fs = origin_fields(o) & {"major", "minor", "patch"}
    if len(fs) != 1:
        return None
    a1, a2 = _mentions_arg(o, 1), _mentions_arg(o, 2)
    if a1 == a2:
        return None
    return ("self" if a1 else "other", next(iter(fs)))


def _mentions_arg(o, i):
    if isinstance(o, tuple):
        if o and o[0] == "arg" and len(o) > 1 and o[1] == i:
            return True
        return any(_mentions_arg(x, i) for x in o if isinstance(x, (tuple, list)))
    if isinstance(o, list):
        return any(_mentions_arg(x, i) for x in o)
    return False


def _revision_or_zero(o):
    """the operand is `patch.unwrap_or(0)` / `unwrap_or_default()` (a missing revision counts as 0)"""
    for x in origin_calls(o):
        if x[1].endswith("Option::<T>::unwrap_or") and len(x[3]) > 1 and x[3][1][0] == "const" and x[3][1][1] == 0:
            return True
        if x[1].endswith("Option::<T>::unwrap_or_default"):
            return True
    return False


def cmp_table(ctx, rep):
    """R16.2: Ord::cmp normalised (private helpers inlined, `then_with` / `map_or` chains expanded into the matches they stand
    for) and extracted as a decision table; the component comparisons are the table's inputs, and the table is evaluated for
    all 27 combinations of their outcomes against the lexicographic order (number, letter, revision-or-0)."""
    import tabeval
    from mirq import expand_adaptors, inline_calls
    b0 = ctx.mir.body("<%s as core::cmp::Ord>::cmp" % GV)
    if b0 is None:
        rep.fail("R16.2", "cmp:found", "Ord::cmp for GameVersion not found")
        return
    rep.fn(b0.name)
    b = inline_calls(b0, lambda d: d.startswith(GV + "::") and "{closure" not in d, depth=2)
    b = expand_adaptors(b)
    b = inline_calls(b, lambda d: d.startswith(GV + "::") and "{closure" not in d, depth=2)
    calls = b.calls_to(r"PartialOrd::partial_cmp$|cmp::Ord::cmp$")
    comps = {}
    for bb, t in calls:
        a, c = b.origin(t["args"][0]), b.origin(t["args"][1])
        sa, sc = side_comp(a), side_comp(c)
        comp = sa[1] if sa else None
        ok = sa is not None and sc is not None and sa[0] == "self" and sc[0] == "other" and sa[1] == sc[1]
        if ok and comp == "patch":
            ok = _revision_or_zero(a) and _revision_or_zero(c)
        comps[comp] = bb
        rep.check("R16.2", "cmp:component:%s" % comp, ok, "component comparison must be (self.%s, other.%s)%s; found (%s, %s)" % (
            comp, comp, " with a missing revision counting as 0" if comp == "patch" else "", fmt_origin(a), fmt_origin(c)),
            b0.loc(t["line"]), sample={"component": comp, "lhs": fmt_origin(a), "rhs": fmt_origin(c)})
    rep.check("R16.2", "cmp:components", set(comps) == {"major", "minor", "patch"}, "expected comparisons of major, minor and patch (found %s)" % sorted(c for c in comps if c), b0.loc())
    rows = b.decision_rows()
    cur = {}
    ENC = {"L": 255, "E": 0, "G": 1}
    DEC = {255: "L", -1: "L", 0: "E", 1: "G"}

    def call(d, rd, args, model):
        if re.search(r"PartialOrd::partial_cmp$|cmp::Ord::cmp$", d) and len(args) == 2:
            sa, sc = side_comp(args[0]), side_comp(args[1])
            if sa is None or sc is None or sa[1] != sc[1]:
                raise tabeval.Unknown("comparison of %s with %s" % (fmt_origin(args[0]), fmt_origin(args[1])))
            o = cur[sa[1]]
            if sa[0] == "other":       # swapped operands
                o = {"L": "G", "G": "L", "E": "E"}[o]
            v = ("enum", ENC[o])
            return ("opt", True, v) if d.endswith("partial_cmp") else v
        if d.endswith("Ordering::reverse"):
            v = model.ev.ev(args[0])
            return ("enum", {255: 1, 1: 255, 0: 0}[v[1]])
        if d.endswith("Ordering::then"):
            v = model.ev.ev(args[0])
            return v if v[1] != 0 else model.ev.ev(args[1])
        return None
    model = tabeval.Model(ctx, b, None, local_prefix=GV, extra_call=call)
    # discriminant switches on an Ordering list -1 as 255 or as -1 depending on the width rustc chose: normalise
    nrows = []
    for conds, ret, others in rows:
        nc = tuple((c[0], c[1], c[2], tuple(x & 0xFF for x in c[3]), c[4]) for c in conds)
        nrows.append((nc, ret, others))
    n = 0
    for (ma, mi, pa) in itertools.product("LEG", repeat=3):
        cur.update({"major": ma, "minor": mi, "patch": pa})
        model.ev.reset()
        results = set()
        try:
            for r in model.ev.matching_rows(nrows):
                ret = r[1]
                if ret[1] in ("Less", "Equal", "Greater"):
                    results.add(ret[1][0])
                elif ret[3]:
                    v = model.ev.ev(ret[3][0])
                    results.add(DEC.get(v[1], "?") if isinstance(v, tuple) and v[0] == "enum" else "?")
                else:
                    results.add("?")
        except (tabeval.Unknown, tabeval.Panic) as e:
            rep.fail("R16.2", "cmp:unrecognised", "the comparison table could not be evaluated (%s)" % e, b0.loc())
            break
        want = ma if ma != "E" else (mi if mi != "E" else pa)
        n += 1
        rep.check("R16.2", "cmp:row:%s%s%s" % (ma, mi, pa), results == {want},
                  "cmp with (number %s, letter %s, revision %s) returns %s, lexicographic order requires %s" % (ma, mi, pa, sorted(results), want), b0.loc(),
                  sample={"orderings": [ma, mi, pa], "result": sorted(results)} if n <= 3 else None)
    rep.floor("R16.2", 27)
    p = ctx.mir.body("<%s as core::cmp::PartialOrd>::partial_cmp" % GV)
    okp = False
    if p is not None:
        rep.fn(p.name)
        for bl in p.blocks:
            for st in bl["stmts"]:
                if st["k"] == "assign" and st["place"]["l"] == 0 and st["rv"]["k"] == "agg" and st["rv"].get("vname") == "Some":
                    o = p.origin(st["rv"]["ops"][0])
                    okp = o[0] == "call" and (o[2] or o[1]).endswith("GameVersion as core::cmp::Ord>::cmp") and fmt_origin(o[3][0]).endswith("arg1") and fmt_origin(o[3][1]).endswith("arg2")
    rep.check("R16.2", "partial_cmp", okp, "partial_cmp must be Some(self.cmp(other))", p.loc() if p else None)


def eq_keys(ctx, rep):
    from mirq import inline_calls
    b = ctx.mir.body("<%s as core::cmp::PartialEq>::eq" % GV)
    if b is None:
        rep.fail("R16.2", "eq:found", "PartialEq::eq for GameVersion not found")
        return
    rep.fn(b.name)
    b = inline_calls(b, lambda d: d.startswith(GV + "::") and "{closure" not in d, depth=2)
    tests = []
    for bl in b.blocks:
        for st in bl["stmts"]:
            if st["k"] == "assign" and st["rv"]["k"] == "bin" and st["rv"]["op"] in ("Eq", "Ne"):
                l, r = b.origin(st["rv"]["l"]), b.origin(st["rv"]["r"])
                tests.append((st["rv"]["op"], l, r))
    comps = {}
    okp = False
    for op, l, r in tests:
        sl, sr = side_comp(l), side_comp(r)
        if sl is None or sr is None:
            comps[None] = False
            continue
        comps[sl[1]] = sl[1] == sr[1] and {sl[0], sr[0]} == {"self", "other"}
        if sl[1] == "patch":
            okp = _revision_or_zero(l) and _revision_or_zero(r)
    shown = [(op, fmt_origin(l), fmt_origin(r)) for op, l, r in tests]
    rep.check("R16.2", "eq:keys", comps == {"major": True, "minor": True, "patch": True} and okp and len(tests) == 3,
              "eq must compare exactly (number, letter, revision-or-0) of self and other; found %s" % shown, b.loc(), sample={"tests": shown})
    rows = b.decision_rows()
    falses = [r for r in rows if r[1][1] == "use" and r[1][2] == ("0",)]
    rep.check("R16.2", "eq:conjunction", len(falses) == 2 and len(rows) == 3, "eq must be the conjunction of the three tests (rows %d)" % len(rows), b.loc(), nontrivial=False)


def display_shape(ctx, rep):
    """R16.4: Display prints exactly what the parser reads back: on every path the formatted operands are number, letter and
    (when present) revision, in that order, each through its `Display` impl with default options and with no literal text in
    between.  The parser accepts `digits/dot` then one ASCII letter then digits only, and f32's Display never uses an exponent
    (its Debug/LowerExp forms do), so any other formatting trait, option or separator makes some printed version unparseable."""
    import ast
    b = ctx.mir.body("<%s as core::fmt::Display>::fmt" % GV)
    if b is None:
        rep.fail("R16.4", "found", "Display::fmt for GameVersion not found")
        return
    rep.fn("<%s as core::fmt::Display>::fmt" % GV)
    ctors = b.calls_to(r"core::fmt::rt::Argument::<'_>::new_\w+$")
    bad = sorted({callee(t)[0].split("::")[-1] for _bb, t in ctors if not callee(t)[0].endswith("::new_display")})
    rep.check("R16.4", "display-trait-only", bool(ctors) and not bad,
              "GameVersion's Display formats a component with %s; only the Display form of number/letter/revision is read back by from_str (f32 Debug/exp forms print 1e-5, 1e16)" % (bad or "no recognised formatter"),
              b.loc(), sample={"constructors": sorted({callee(t)[0].split("::")[-1] for _bb, t in ctors})})
    # templates: default placeholders only
    tmpl_ok = True
    seen = []
    for bb, t in b.calls_to(r"core::fmt::Arguments::<'a>::new\w*$"):
        o = b.origin(t["args"][0])
        x = o
        while x[0] in ("ref", "deref"):
            x = x[1]
        raw = None
        if x[0] == "const" and isinstance(x[2], str) and x[2].startswith("b\""):
            try:
                raw = ast.literal_eval(x[2])
            except Exception:
                raw = None
        seen.append(x[2] if x[0] == "const" else fmt_origin(x))
        if raw is None or any(c not in (0xC0, 0x00) for c in raw):
            tmpl_ok = False
    others = [callee(t)[0] for _bb, t in b.calls() if re.search(r"Formatter::<'a>::(write_str|write_char|pad\w*|debug_\w+)$", callee(t)[0] or "")]
    rep.check("R16.4", "no-literal-text-or-options", tmpl_ok and bool(seen) and not others,
              "GameVersion's Display must print its components back to back with default formatting (templates %s, other writes %s)" % (seen, others), b.loc(),
              sample={"templates": seen})
    # order of operands per path

    def classify(kind, bb, idx, node):
        if kind == "term" and node["k"] == "call" and re.search(r"fmt::rt::Argument::<'_>::new_\w+$", callee(node)[0] or ""):
            o = strip_refs(b.origin(node["args"][0]))
            while o[0] in ("field", "downcast", "deref", "ref") and not (o[0] == "field" and o[3] in ("major", "minor", "patch")):
                o = o[1]
            return o[3] if o[0] == "field" else "?"
        return None
    seqs = b.event_paths(classify)
    want = {("major", "minor", "patch"), ("major", "minor")}
    got = {tuple(e for e in s_ if isinstance(e, str)) for s_ in seqs}
    got.discard(())
    rep.check("R16.4", "component-order", got == want, "Display must print number, letter, revision-if-any in that order (paths print %s)" % sorted(got), b.loc(), sample={"paths": sorted(got)})


def normalise(ctx, rep):
    b = ctx.mir.body("<%s as core::str::traits::FromStr>::from_str" % GV)
    if b is None:
        rep.fail("R16.3", "from_str:found", "from_str not found")
        return
    rep.fn(b.name)
    # the parser's phases may live in private helper functions of the module (parse_minor ..): analysed in place
    from mirq import inline_calls, expand_adaptors
    mod = GV.rsplit("::", 1)[0] + "::"
    b = inline_calls(b, lambda d: d.startswith(mod) and "{closure" not in d and not d.startswith("<"), depth=3)
    b = expand_adaptors(b)
    stores = []
    for bl in b.blocks:
        for st in bl["stmts"]:
            if st["k"] == "assign" and st["place"]["p"] and any(isinstance(p, dict) and p.get("name") == "minor" for p in st["place"]["p"]):
                stores.append(b.origin(st["rv"]["x"]) if st["rv"]["k"] == "use" else ("rv",))

    def uppercased(o):
        """every way the stored letter can be produced goes through to_ascii_uppercase"""
        alts = b.alternatives(o)
        return bool(alts) and all(a[0] == "call" and (a[1] or "").endswith("to_ascii_uppercase") for a in alts)
    ok = len(stores) == 1 and uppercased(stores[0])
    rep.check("R16.3", "letter-uppercased", ok, "the letter must be stored through to_ascii_uppercase (stores: %s)" % [fmt_origin(s) for s in stores], b.loc(),
              sample={"stores": [fmt_origin(s) for s in stores]})
    guard = b.calls_to(r"is_ascii_alphabetic$")
    rep.check("R16.3", "letter-checked", len(guard) == 1, "the letter must be checked with is_ascii_alphabetic before being stored", b.loc(), nontrivial=False)
