"""C16 — game versions: totality and order-structure clauses."""
import itertools
import re

import panics
from mirq import callee, fmt_origin, origin_calls, origin_fields, strip_refs

EXPLANATION = (
    "R16.1 panic-site inventory of GameVersion::from_str, Display, cmp, eq, partial_cmp and the two wire helpers "
    "(parse_game_version / write_game_version). R16.2 Ord::cmp extracted from MIR as a finite decision table over the three component "
    "orderings and evaluated for all 27 combinations of (Less, Equal, Greater): exactly one row applies and the result is the "
    "lexicographic combination; the components are partial_cmp of (self.major, other.major), (self.minor, other.minor), "
    "(self.patch.unwrap_or(0), other.patch.unwrap_or(0)) in that argument order; eq tests the same three keys; partial_cmp is "
    "Some(cmp). R16.3 the only store to `minor` in from_str is `to_ascii_uppercase` of the consumed character. Not decided: "
    "print->parse round trip, termination of the parser loop, float edge cases unreachable through parsing."
)

GV = "insim_core::game_version::GameVersion"
ORD = {"L": -1, "E": 0, "G": 1}


def run(ctx, rep):
    rep.explanation = EXPLANATION
    rep.assumptions = ["f32/char/usize partial_cmp and f32::from_str behave as documented; NaN major versions are unreachable through parsing decimal digits"]
    cmp_table(ctx, rep)
    eq_keys(ctx, rep)
    normalise(ctx, rep)
    display_shape(ctx, rep)
    roots = ["<%s as core::str::traits::FromStr>::from_str" % GV, "<%s as core::fmt::Display>::fmt" % GV, "<%s as core::cmp::Ord>::cmp" % GV,
             "<%s as core::cmp::PartialEq>::eq" % GV, "<%s as core::cmp::PartialOrd>::partial_cmp" % GV,
             "insim::insim::ver::parse_game_version", "insim::insim::ver::write_game_version"]
    present = [r for r in roots if ctx.mir.body(r) is not None]
    rep.check("R16.1", "roots", len(present) == len(roots), "anchors missing: %s" % sorted(set(roots) - set(present)), None, nontrivial=False)
    panics.check_paths(ctx, rep, "R16.1", present, label="game version")
    rep.floor("R16.1", 2)


def component(text):
    for c in ("major", "minor", "patch"):
        if "." + c in text:
            return c
    return None


def cmp_table(ctx, rep):
    b = ctx.mir.body("<%s as core::cmp::Ord>::cmp" % GV)
    if b is None:
        rep.fail("R16.2", "cmp:found", "Ord::cmp for GameVersion not found")
        return
    rep.fn(b.name)
    calls = b.calls_to(r"PartialOrd::partial_cmp$")
    comps = {}
    for bb, t in calls:
        a, c = b.origin(t["args"][0]), b.origin(t["args"][1])
        fa, fc = origin_fields(a) - {"0"}, origin_fields(c) - {"0"}
        sa, sc = fmt_origin(a), fmt_origin(c)
        comp = component(sa)
        ok = comp is not None and fa == fc == {comp} and "arg1" in sa and "arg2" in sc and "arg2" not in sa and "arg1" not in sc
        if comp == "patch":
            ok = ok and all(any(x[1].endswith("Option::<T>::unwrap_or") and x[3][1][0] == "const" and x[3][1][1] == 0 for x in origin_calls(o)) for o in (a, c))
        comps[comp] = bb
        rep.check("R16.2", "cmp:component:%s" % comp, ok, "component comparison must be (self.%s, other.%s)%s; found (%s, %s)" % (comp, comp, " with a missing revision counting as 0" if comp == "patch" else "", sa, sc),
                  b.loc(t["line"]), sample={"component": comp, "lhs": sa, "rhs": sc})
    rep.check("R16.2", "cmp:components", set(comps) == {"major", "minor", "patch"}, "expected comparisons of major, minor and patch (found %s)" % sorted(c for c in comps if c), b.loc())
    rows = b.decision_rows()
    bad = []
    n = 0
    for (ma, mi, pa) in itertools.product("LEG", repeat=3):
        asg = {"major": ma, "minor": mi, "patch": pa}
        hits = []
        for conds, ret, others in rows:
            ok = True
            for c in conds:
                comp = component(c[1])
                if comp is None:
                    ok = None
                    break
                if "as Some.0" in c[1]:
                    v = ORD[asg[comp]] & 0xFF if ORD[asg[comp]] < 0 else ORD[asg[comp]]
                    vals = [x & 0xFF for x in c[3]]
                else:
                    v = 1       # partial_cmp returned Some
                    vals = list(c[3])
                sat = (v in vals) if c[2] in ("eq", "any") else (v not in vals)
                if not sat:
                    ok = False
                    break
            if ok is None:
                bad.append((asg, "row with an unrecognised condition %s" % (conds,)))
            elif ok:
                hits.append(ret)
        results = set()
        for ret in hits:
            if ret[1] in ("Less", "Equal", "Greater"):
                results.add(ret[1][0])
            elif ret[1] == "use" and ret[2]:
                comp = component(ret[2][0])
                results.add(asg[comp] if comp else "?")
            else:
                results.add("?")
        want = ma if ma != "E" else (mi if mi != "E" else pa)
        n += 1
        rep.check("R16.2", "cmp:row:%s%s%s" % (ma, mi, pa), results == {want},
                  "cmp with (number %s, letter %s, revision %s) returns %s, lexicographic order requires %s" % (ma, mi, pa, sorted(results), want), b.loc(),
                  sample={"orderings": [ma, mi, pa], "result": sorted(results)} if n <= 3 else None)
    for x in bad[:3]:
        rep.fail("R16.2", "cmp:unrecognised", str(x), b.loc())
    rep.floor("R16.2", 27)
    p = ctx.mir.body("<%s as core::cmp::PartialOrd>::partial_cmp" % GV)
    okp = False
    if p is not None:
        rep.fn(p.name)
        for bl in p.blocks:
            for st in bl["stmts"]:
                if st["k"] == "assign" and st["place"]["l"] == 0 and st["rv"]["k"] == "agg" and st["rv"].get("vname") == "Some":
                    o = p.origin(st["rv"]["ops"][0])
                    okp = o[0] == "call" and (o[2] or o[1]).endswith("GameVersion as core::cmp::Ord>::cmp") and fmt_origin(o[3][0]).endswith("arg1") and fmt_origin(o[3][1]).endswith("arg2")
    rep.check("R16.2", "partial_cmp", okp, "partial_cmp must be Some(self.cmp(other))", p.loc() if p else None)


def eq_keys(ctx, rep):
    b = ctx.mir.body("<%s as core::cmp::PartialEq>::eq" % GV)
    if b is None:
        rep.fail("R16.2", "eq:found", "PartialEq::eq for GameVersion not found")
        return
    rep.fn(b.name)
    tests = []
    for bl in b.blocks:
        for st in bl["stmts"]:
            if st["k"] == "assign" and st["rv"]["k"] == "bin" and st["rv"]["op"] == "Eq":
                l, r = b.origin(st["rv"]["l"]), b.origin(st["rv"]["r"])
                tests.append((fmt_origin(l), fmt_origin(r)))
    comps = {}
    for l, r in tests:
        c = component(l)
        comps[c] = component(r) == c and "arg1" in l and "arg2" in r
    okp = any("unwrap_or(*arg1.patch, 0)" in l and "unwrap_or(*arg2.patch, 0)" in r for l, r in tests)
    rep.check("R16.2", "eq:keys", comps == {"major": True, "minor": True, "patch": True} and okp and len(tests) == 3,
              "eq must compare exactly (number, letter, revision-or-0) of self and other; found %s" % tests, b.loc(), sample={"tests": tests})
    rows = b.decision_rows()
    falses = [r for r in rows if r[1][1] == "use" and r[1][2] == ("0",)]
    rep.check("R16.2", "eq:conjunction", len(falses) == 2 and len(rows) == 3, "eq must be the conjunction of the three tests (rows %d)" % len(rows), b.loc(), nontrivial=False)


def display_shape(ctx, rep):
    """R16.4: Display prints exactly what the parser reads back: on every path the formatted operands are number, letter and
    (when present) revision, in that order, each through its `Display` impl with default options and with no literal text in
    between.  The parser accepts `digits/dot` then one ASCII letter then digits only, and f32's Display never uses an exponent
    (its Debug/LowerExp forms do), so any other formatting trait, option or separator makes some printed version unparseable."""
    import ast
    b = ctx.mir.body("<%s as core::fmt::Display>::fmt" % GV)
    if b is None:
        rep.fail("R16.4", "found", "Display::fmt for GameVersion not found")
        return
    rep.fn("<%s as core::fmt::Display>::fmt" % GV)
    ctors = b.calls_to(r"core::fmt::rt::Argument::<'_>::new_\w+$")
    bad = sorted({callee(t)[0].split("::")[-1] for _bb, t in ctors if not callee(t)[0].endswith("::new_display")})
    rep.check("R16.4", "display-trait-only", bool(ctors) and not bad,
              "GameVersion's Display formats a component with %s; only the Display form of number/letter/revision is read back by from_str (f32 Debug/exp forms print 1e-5, 1e16)" % (bad or "no recognised formatter"),
              b.loc(), sample={"constructors": sorted({callee(t)[0].split("::")[-1] for _bb, t in ctors})})
    # templates: default placeholders only
    tmpl_ok = True
    seen = []
    for bb, t in b.calls_to(r"core::fmt::Arguments::<'a>::new\w*$"):
        o = b.origin(t["args"][0])
        x = o
        while x[0] in ("ref", "deref"):
            x = x[1]
        raw = None
        if x[0] == "const" and isinstance(x[2], str) and x[2].startswith("b\""):
            try:
                raw = ast.literal_eval(x[2])
            except Exception:
                raw = None
        seen.append(x[2] if x[0] == "const" else fmt_origin(x))
        if raw is None or any(c not in (0xC0, 0x00) for c in raw):
            tmpl_ok = False
    others = [callee(t)[0] for _bb, t in b.calls() if re.search(r"Formatter::<'a>::(write_str|write_char|pad\w*|debug_\w+)$", callee(t)[0] or "")]
    rep.check("R16.4", "no-literal-text-or-options", tmpl_ok and bool(seen) and not others,
              "GameVersion's Display must print its components back to back with default formatting (templates %s, other writes %s)" % (seen, others), b.loc(),
              sample={"templates": seen})
    # order of operands per path

    def classify(kind, bb, idx, node):
        if kind == "term" and node["k"] == "call" and re.search(r"fmt::rt::Argument::<'_>::new_\w+$", callee(node)[0] or ""):
            o = strip_refs(b.origin(node["args"][0]))
            while o[0] in ("field", "downcast", "deref", "ref") and not (o[0] == "field" and o[3] in ("major", "minor", "patch")):
                o = o[1]
            return o[3] if o[0] == "field" else "?"
        return None
    seqs = b.event_paths(classify)
    want = {("major", "minor", "patch"), ("major", "minor")}
    got = {tuple(e for e in s_ if isinstance(e, str)) for s_ in seqs}
    got.discard(())
    rep.check("R16.4", "component-order", got == want, "Display must print number, letter, revision-if-any in that order (paths print %s)" % sorted(got), b.loc(), sample={"paths": sorted(got)})


def normalise(ctx, rep):
    b = ctx.mir.body("<%s as core::str::traits::FromStr>::from_str" % GV)
    if b is None:
        rep.fail("R16.3", "from_str:found", "from_str not found")
        return
    rep.fn(b.name)
    stores = []
    for bl in b.blocks:
        for st in bl["stmts"]:
            if st["k"] == "assign" and st["place"]["p"] and any(isinstance(p, dict) and p.get("name") == "minor" for p in st["place"]["p"]):
                stores.append(b.origin(st["rv"]["x"]) if st["rv"]["k"] == "use" else ("rv",))
    ok = len(stores) == 1 and stores[0][0] == "call" and stores[0][1].endswith("to_ascii_uppercase")
    rep.check("R16.3", "letter-uppercased", ok, "the letter must be stored through to_ascii_uppercase (stores: %s)" % [fmt_origin(s) for s in stores], b.loc(),
              sample={"stores": [fmt_origin(s) for s in stores]})
    guard = b.calls_to(r"is_ascii_alphabetic$")
    rep.check("R16.3", "letter-checked", len(guard) == 1, "the letter must be checked with is_ascii_alphabetic before being stored", b.loc(), nontrivial=False)
