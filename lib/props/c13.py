"""C13 — vehicle identifiers map one-to-one onto their 4 wire bytes (table coherence)."""
import tables
from astq import find_nodes

EXPLANATION = (
    "Tables of insim_core::vehicle::Vehicle from the syntax tree: for each of the built-in cars write(v) = Display(v) bytes + NUL, "
    "exactly one read row maps those bytes back to v, every read key is three ASCII alphanumerics + NUL (reachable under the "
    "built-in test), Debug = Display, all-zero <-> Unknown, the built-in-shaped catch-all is an error and the other catch-all is "
    "Mod(u32::from_le_bytes); Mod is written as a u32 under the little-endian root; the built-in predicate is the conjunction "
    "(bytes 0..=2 alphanumeric) && byte 3 == 0; PlcAllowedCarsSet uses the same constant per car in both directions. Not decided: "
    "the predicate's library implementation for all 2^32 values."
)


def run(ctx, rep):
    rep.explanation = EXPLANATION
    rep.assumptions = ["u8::is_ascii_alphanumeric and u32::from_le_bytes behave as documented; binrw writes u32 little-endian under #[brw(little)]"]
    ent = ctx.ast.one("Vehicle", kinds=("Enum",), crate="insim_core")
    if ent is None:
        rep.fail("R13.0", "Vehicle", "enum Vehicle not found")
        return
    variants = [v["name"] for v in ent[3]["variants"]]
    builtins = [v["name"] for v in ent[3]["variants"] if v["shape"] == "unit" and v["name"] != "Unknown"]
    rep.check("R13.0", "variants", "Mod" in variants and "Unknown" in variants and len(builtins) >= 20, "variant list %s" % variants, ctx.loc(ent), nontrivial=False)

    def m1(name, trait):
        ms = ctx.ast.method("Vehicle", name, trait=trait, crate="insim_core")
        if len(ms) != 1:
            rep.fail("R13.0", "fn:%s:%s" % (trait, name), "impl %s for Vehicle::%s not found" % (trait, name))
            return None
        rep.fn("<insim_core::vehicle::Vehicle as %s>::%s" % (trait, name))
        return ms[0]

    # ---- writer
    wm = m1("write_options", "BinWrite")
    write = {}
    if wm:
        mt = tables.first_match(wm[1]["body"])
        for (p, b, g, ln) in tables.rows(mt["arms"]) if mt else []:
            if p[0] == "var" and b[0] == "method" and b[1] == "write_options":
                write[p[1]] = (b[2], ln)
    # ---- display / debug
    names = {}
    for trait in ("Display", "Debug"):
        dm = m1("fmt", trait)
        t = {}
        if dm:
            mt = tables.first_match(dm[1]["body"])
            for (p, b, g, ln) in tables.rows(mt["arms"]) if mt else []:
                if p[0] == "var" and b[0] == "macro" and b[1] == "write" and len(b[2]) >= 2 and b[2][1][0] == "str":
                    t[p[1]] = (b[2][1][1], ln, len(b[2]))
        names[trait] = t
    # ---- reader
    rm = m1("read_options", "BinRead")
    read_rows = []
    pred_ok = False
    if rm:
        mt = None
        for m in find_nodes(rm[1]["body"], lambda n: n.get("k") == "Match"):
            if m["e"].get("k") == "Tuple":
                mt = m
        if mt is None:
            rep.fail("R13.0", "read:table", "reader match over (bytes, is_builtin) not found", ctx.loc(rm[0], rm[1]["ln"]))
        else:
            scr = [x.get("path") for x in mt["e"]["elems"]]
            rep.check("R13.1", "read:scrutinee", scr == ["bytes", "is_builtin"], "reader must match on (bytes, is_builtin): %s" % scr, ctx.loc(rm[0], mt["ln"]), nontrivial=False)
            read_rows = tables.rows(mt["arms"])
        # predicate: let is_builtin = bytes[0..=2].iter().all(|c| c.is_ascii_alphanumeric()) && bytes[3] == 0;
        lets = find_nodes(rm[1]["body"], lambda n: n.get("k") == "Let" and n["pat"].get("name") == "is_builtin")
        if len(lets) == 1 and lets[0]["init"]:
            e = lets[0]["init"]
            if e.get("k") == "Binary" and e["op"] == "&&":
                l, r = e["lhs"], e["rhs"]
                lok = l.get("k") == "MethodCall" and l["method"] == "all" and find_nodes(l, lambda n: n.get("k") == "MethodCall" and n["method"] == "is_ascii_alphanumeric") \
                    and find_nodes(l, lambda n: n.get("k") == "Range" and n["inclusive"] and (n["lo"] or {}).get("v") == "0" and (n["hi"] or {}).get("v") == "2")
                rok = r.get("k") == "Binary" and r["op"] == "==" and r["lhs"].get("k") == "Index" and r["lhs"]["index"].get("v") == "3" and r["rhs"].get("v") == "0"
                pred_ok = bool(lok) and bool(rok)
        rep.check("R13.1", "read:predicate", pred_ok, "built-in test must be `bytes[0..=2] all ascii alphanumeric && bytes[3] == 0`", ctx.loc(rm[0], rm[1]["ln"]),
                  sample={"predicate_recognised": pred_ok})
    read = {}
    catch_builtin_err = catch_mod = unknown_row = False
    seen = {}
    for (p, b, g, ln) in read_rows:
        if p[0] != "tuple" or len(p[1]) != 2:
            rep.fail("R13.1", "read:row-shape", "unexpected reader row %s" % (p,), ctx.loc(rm[0], ln))
            continue
        pb, pf = p[1]
        bs = tables.bytes_of(pb) if pb[0] == "seq" else None
        var = b[2][0][1].split("::")[-1] if b[0] == "call" and b[1] == "Ok" and b[2] and b[2][0][0] == "path" else None
        if bs is not None:
            rep.check("R13.1", "read:%s:distinct" % var, bs not in seen, "read key %r appears twice" % bs, ctx.loc(rm[0], ln), nontrivial=False)
            seen[bs] = var
            if bs == b"\0\0\0\0":
                unknown_row = var == "Unknown" and pf[0] == "wild"
                # it must precede every row it could shadow: first row
                continue
            ok_key = len(bs) == 4 and bs[3] == 0 and all(chr(c).isalnum() and c < 128 for c in bs[:3])
            rep.check("R13.1", "read:%s:key" % var, ok_key and pf == ("lit", True),
                      "read key %r for %s must be 3 ASCII alphanumerics + NUL guarded by is_builtin = true" % (bs, var), ctx.loc(rm[0], ln),
                      sample={"variant": var, "key": list(bs)})
            read.setdefault(var, []).append(bs)
        elif pb[0] == "wild" and pf == ("lit", True):
            catch_builtin_err = b[0] == "call" and b[1] == "Err"
        elif pb[0] == "wild" and pf == ("lit", False):
            catch_mod = b == ("call", "Ok", (("call", "Vehicle::Mod", (("call", "u32::from_le_bytes", (("path", "bytes"),)),)),))
    loc_r = ctx.loc(rm[0], rm[1]["ln"]) if rm else None
    rep.check("R13.1", "read:unknown", unknown_row, "[0,0,0,0] must decode to Vehicle::Unknown", loc_r)
    rep.check("R13.1", "read:builtin-catch-all", catch_builtin_err, "an unrecognised built-in-shaped name must be an error", loc_r)
    rep.check("R13.2", "read:mod", catch_mod, "anything else must decode as Vehicle::Mod(u32::from_le_bytes(bytes))", loc_r)
    for v in builtins:
        d = names["Display"].get(v)
        g = names["Debug"].get(v)
        w = write.get(v)
        loc = ctx.loc(wm[0], w[1]) if (wm and w) else ctx.loc(ent)
        wb = tables.bytes_of(w[0]) if w else None
        rep.check("R13.1", "%s:write=display" % v, d is not None and wb == d[0].encode() + b"\0" and d[2] == 2,
                  "write(%s) = %r but Display prints %r" % (v, wb, d[0] if d else None), loc, sample={"variant": v, "wire": list(wb) if wb else None, "display": d[0] if d else None})
        rep.check("R13.1", "%s:debug=display" % v, g is not None and d is not None and g[0] == d[0], "Debug %r vs Display %r" % (g[0] if g else None, d[0] if d else None), loc, nontrivial=False)
        rep.check("R13.1", "%s:read-inverse" % v, read.get(v) == [wb], "read rows for %s: %r, written form %r" % (v, read.get(v), wb), loc)
    extra = set(read) - set(builtins)
    rep.check("R13.1", "read:no-foreign-rows", not extra, "reader has rows for non built-in variants %s" % sorted(extra), loc_r, nontrivial=False)
    # Mod / Unknown writer rows
    wm_mod = write.get("Mod")
    rep.check("R13.2", "write:mod", wm_mod is not None and wm_mod[0] == ("path", "vehmod"), "Mod must be written as its u32 (found %s)" % (wm_mod[0] if wm_mod else None,),
              ctx.loc(wm[0], wm_mod[1]) if wm_mod else None)
    wu = write.get("Unknown")
    rep.check("R13.1", "write:unknown", wu is not None and tables.bytes_of(wu[0]) == b"\0\0\0\0", "Unknown must be written as four zero bytes", ctx.loc(wm[0], wu[1]) if wu else None)
    rep.floor("R13.1", 3 * 20 + 20)
    # ---- R13.3 PlcAllowedCarsSet: same constant per car in both directions
    fb = ctx.ast.method("PlcAllowedCarsSet", "from_bits_truncate", crate="insim")
    bt = ctx.ast.method("PlcAllowedCarsSet", "bits", crate="insim")
    if len(fb) == 1 and len(bt) == 1:
        rep.fn("insim::insim::plc::PlcAllowedCarsSet::from_bits_truncate")
        rep.fn("insim::insim::plc::PlcAllowedCarsSet::bits")
        dec = {}
        for iff in find_nodes(fb[0][1]["body"], lambda n: n.get("k") == "If"):
            c = iff["cond"]
            # (value & Self::X) == Self::X
            if c.get("k") == "Binary" and c["op"] == "==" and c["lhs"].get("k") == "Binary" and c["lhs"]["op"] == "&":
                k1 = c["lhs"]["rhs"].get("path")
                k2 = c["rhs"].get("path")
                ins = find_nodes(iff["then"], lambda n: n.get("k") == "MethodCall" and n["method"] == "insert")
                car = ins[0]["args"][0].get("path", "").split("::")[-1] if ins else None
                rep.check("R13.3", "decode:%s:mask" % car, k1 == k2 and k1 is not None, "test `(value & %s) == %s` uses two different constants" % (k1, k2), ctx.loc(fb[0][0], iff["ln"]), nontrivial=False)
                rep.check("R13.3", "decode:%s:once" % car, car not in dec, "car %s inserted by two tests" % car, ctx.loc(fb[0][0], iff["ln"]), nontrivial=False)
                dec[car] = k1
        enc = {}
        mt = tables.first_match(bt[0][1]["body"])
        for (p, b, g, ln) in tables.rows(mt["arms"]) if mt else []:
            if p[0] == "var" and b[0] == "path":
                enc[p[1]] = b[1]
        for v in builtins:
            rep.check("R13.3", "%s:same-constant" % v, v in dec and dec.get(v) == enc.get(v),
                      "PlcAllowedCarsSet: %s decoded from %s but encoded as %s" % (v, dec.get(v), enc.get(v)), ctx.loc(bt[0][0], bt[0][1]["ln"]),
                      sample={"car": v, "const": dec.get(v)})
        rep.check("R13.3", "distinct-constants", len(set(dec.values())) == len(dec), "two cars share one constant", ctx.loc(fb[0][0], fb[0][1]["ln"]), nontrivial=False)
    else:
        rep.fail("R13.3", "found", "PlcAllowedCarsSet::from_bits_truncate / bits not found")
    rep.floor("R13.3", 20)
