"""C13 — vehicle identifiers map one-to-one onto their 4 wire bytes (table coherence)."""
import tables
from astq import find_nodes

EXPLANATION = (
    "Tables of insim_core::vehicle::Vehicle from the syntax tree: for each of the built-in cars write(v) = Display(v) bytes + NUL, "
    "exactly one read row maps those bytes back to v, every read key is three ASCII alphanumerics + NUL (reachable under the "
    "built-in test), Debug = Display, all-zero <-> Unknown, the built-in-shaped catch-all is an error and the other catch-all is "
    "Mod(u32::from_le_bytes); Mod is written as a u32 under the little-endian root; the built-in predicate is the conjunction "
    "(bytes 0..=2 alphanumeric) && byte 3 == 0; PlcAllowedCarsSet uses the same constant per car in both directions. Not decided: "
    "the predicate's library implementation for all 2^32 values."
)


def run(ctx, rep):
    rep.explanation = EXPLANATION
    rep.assumptions = ["u8::is_ascii_alphanumeric and u32::from_le_bytes behave as documented; binrw writes u32 little-endian under #[brw(little)]"]
    ent = ctx.ast.one("Vehicle", kinds=("Enum",), crate="insim_core")
    if ent is None:
        rep.fail("R13.0", "Vehicle", "enum Vehicle not found")
        return
    variants = [v["name"] for v in ent[3]["variants"]]
    builtins = [v["name"] for v in ent[3]["variants"] if v["shape"] == "unit" and v["name"] != "Unknown"]
    rep.check("R13.0", "variants", "Mod" in variants and "Unknown" in variants and len(builtins) >= 20, "variant list %s" % variants, ctx.loc(ent), nontrivial=False)

    def m1(name, trait):
        ms = ctx.ast.method("Vehicle", name, trait=trait, crate="insim_core")
        if len(ms) != 1:
            rep.fail("R13.0", "fn:%s:%s" % (trait, name), "impl %s for Vehicle::%s not found" % (trait, name))
            return None
        rep.fn("<insim_core::vehicle::Vehicle as %s>::%s" % (trait, name))
        return ms[0]

    # ---- writer
    wm = m1("write_options", "BinWrite")
    write = {}
    if wm:
        mt = tables.first_match(wm[1]["body"])
        for (p, b, g, ln) in tables.rows(mt["arms"]) if mt else []:
            if p[0] != "var":
                continue
            if b[0] == "return" and b[1] is not None:
                b = b[1]
            if b[0] == "method" and b[1] == "write_options":
                write[p[1]] = (b[2], ln)           # `[b'X', b'F', b'G', 0].write_options(..)` / `vehmod.write_options(..)`
            elif b[0] in ("seq", "path"):
                write[p[1]] = (b, ln)              # the arm yields the wire bytes, written once after the match
    # ---- display / debug
    names = {}
    for trait in ("Display", "Debug"):
        dm = m1("fmt", trait)
        t = {}
        if dm:
            def namelike(m):
                rs = tables.rows(m["arms"])
                return len([1 for (p, b, g, ln) in rs if p[0] == "var" and b[0] == "macro" and b[1] == "write"]) >= 10
            _e, _it, mt = tables.follow_match(ctx.ast, "Vehicle", dm[0], dm[1], namelike, crate="insim_core")
            if mt is None:
                mt = tables.first_match(dm[1]["body"])
            for (p, b, g, ln) in tables.rows(mt["arms"]) if mt else []:
                if p[0] == "var" and b[0] == "macro" and b[1] == "write" and len(b[2]) >= 2 and b[2][1][0] == "str":
                    t[p[1]] = (b[2][1][1], ln, len(b[2]))
        names[trait] = t
    # ---- reader: decision table from MIR, evaluated over a domain of inputs (c13_mir)
    from props import c13_mir
    c13_mir.run(ctx, rep, {v: names["Display"][v][0] for v in builtins if v in names["Display"]})
    for v in builtins:
        d = names["Display"].get(v)
        g = names["Debug"].get(v)
        w = write.get(v)
        loc = ctx.loc(wm[0], w[1]) if (wm and w) else ctx.loc(ent)
        wb = tables.bytes_of(w[0]) if w else None
        rep.check("R13.1", "%s:write=display" % v, d is not None and wb == d[0].encode() + b"\0" and d[2] == 2,
                  "write(%s) = %r but Display prints %r" % (v, wb, d[0] if d else None), loc, sample={"variant": v, "wire": list(wb) if wb else None, "display": d[0] if d else None})
        rep.check("R13.1", "%s:debug=display" % v, g is not None and d is not None and g[0] == d[0], "Debug %r vs Display %r" % (g[0] if g else None, d[0] if d else None), loc, nontrivial=False)
    # Mod / Unknown writer rows
    wm_mod = write.get("Mod")
    rep.check("R13.2", "write:mod", wm_mod is not None and wm_mod[0] == ("path", "vehmod"), "Mod must be written as its u32 (found %s)" % (wm_mod[0] if wm_mod else None,),
              ctx.loc(wm[0], wm_mod[1]) if wm_mod else None)
    wu = write.get("Unknown")
    wub = tables.bytes_of(wu[0]) if wu else None
    if wu and wub is None and wu[0][0] == "path":
        # a named constant: resolve it through the AST (`const UNKNOWN_WIRE_BYTES: [u8; 4] = [0, 0, 0, 0]`)
        cs = ctx.ast.const(wu[0][1].split("::")[-1], crate="insim_core")
        if len(cs) == 1 and cs[0][3]["value"].get("elems") is not None and all(e.get("t") == "int" for e in cs[0][3]["value"]["elems"]):
            wub = bytes(int(e["v"]) for e in cs[0][3]["value"]["elems"])
    rep.check("R13.1", "write:unknown", wub == b"\0\0\0\0", "Unknown must be written as four zero bytes (found %r)" % (wub,), ctx.loc(wm[0], wu[1]) if wu else None)
    rep.floor("R13.1", 3 * 20)
    # ---- R13.3 PlcAllowedCarsSet: same constant per car in both directions
    fb = ctx.ast.method("PlcAllowedCarsSet", "from_bits_truncate", crate="insim")
    bt = ctx.ast.method("PlcAllowedCarsSet", "bits", crate="insim")
    if len(fb) == 1 and len(bt) == 1:
        rep.fn("insim::insim::plc::PlcAllowedCarsSet::from_bits_truncate")
        rep.fn("insim::insim::plc::PlcAllowedCarsSet::bits")
        dec = {}
        for iff in find_nodes(fb[0][1]["body"], lambda n: n.get("k") == "If"):
            c = iff["cond"]
            # (value & Self::X) == Self::X
            if c.get("k") == "Binary" and c["op"] == "==" and c["lhs"].get("k") == "Binary" and c["lhs"]["op"] == "&":
                k1 = c["lhs"]["rhs"].get("path")
                k2 = c["rhs"].get("path")
                ins = find_nodes(iff["then"], lambda n: n.get("k") == "MethodCall" and n["method"] == "insert")
                car = ins[0]["args"][0].get("path", "").split("::")[-1] if ins else None
                rep.check("R13.3", "decode:%s:mask" % car, k1 == k2 and k1 is not None, "test `(value & %s) == %s` uses two different constants" % (k1, k2), ctx.loc(fb[0][0], iff["ln"]), nontrivial=False)
                rep.check("R13.3", "decode:%s:once" % car, car not in dec, "car %s inserted by two tests" % car, ctx.loc(fb[0][0], iff["ln"]), nontrivial=False)
                dec[car] = k1
        enc = {}
        mt = tables.first_match(bt[0][1]["body"])
        for (p, b, g, ln) in tables.rows(mt["arms"]) if mt else []:
            if p[0] == "var" and b[0] == "path":
                enc[p[1]] = b[1]
        for v in builtins:
            rep.check("R13.3", "%s:same-constant" % v, v in dec and dec.get(v) == enc.get(v),
                      "PlcAllowedCarsSet: %s decoded from %s but encoded as %s" % (v, dec.get(v), enc.get(v)), ctx.loc(bt[0][0], bt[0][1]["ln"]),
                      sample={"car": v, "const": dec.get(v)})
        rep.check("R13.3", "distinct-constants", len(set(dec.values())) == len(dec), "two cars share one constant", ctx.loc(fb[0][0], fb[0][1]["ln"]), nontrivial=False)
    else:
        rep.fail("R13.3", "found", "PlcAllowedCarsSet::from_bits_truncate / bits not found")
    rep.floor("R13.3", 20)
