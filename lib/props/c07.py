"""C07 — keep-alive requests are answered exactly once, and only they are."""
from mirq import callee, fmt_origin, origin_calls, strip_refs
from props import net

EXPLANATION = (
    "R7.1: Packet::maybe_pong is extracted from MIR as a finite decision table over its switch edges; exactly one row returns Some, "
    "its conditions are (variant Tiny, sub-type discriminant = TinyType::None, request id byte = 0) and its value is "
    "Packet::Tiny(Tiny{reqi: RequestId(0), subt: None}); every other row returns None. R7.2: in both read loops the only call that "
    "writes to the connection is Framed::write applied to self and the Some payload of maybe_pong(decoded packet); that call is "
    "dominated by the Some edge, lies on every path from that edge to `return Ok(packet)` (written before the packet is handed out), "
    "is not re-reachable within one loop iteration (at most once per packet), its error is propagated, and read/read_buf contain no "
    "other call on self.inner that writes. Not decided: transport behaviour; histories (the rules are per packet and the loop returns "
    "after each delivered packet)."
)


def run(ctx, rep):
    rep.explanation = EXPLANATION
    rep.assumptions = ["enum discriminants and constant operands as evaluated by rustc"]
    table(ctx, rep)
    for impl in net.impls_present(ctx):
        loop_rules(ctx, rep, impl)
    rep.floor("R7.2", 6 * len(net.impls_present(ctx)))


def table(ctx, rep):
    b = ctx.mir.body("insim::packet::Packet::maybe_pong")
    if b is None:
        rep.fail("R7.1", "maybe_pong:found", "Packet::maybe_pong not found")
        return
    rep.fn(b.name)
    pk = ctx.mir.enums.get("insim::packet::Packet")
    tt = ctx.mir.enum_variants("insim::insim::tiny::TinyType")
    tiny_idx = [v["idx"] for v in pk["variants"] if v["name"] == "Tiny"] if pk else []
    rep.check("R7.1", "anchors", bool(tiny_idx) and tt is not None and "None" in tt, "Packet::Tiny / TinyType::None not found", b.loc(), nontrivial=False)
    if not tiny_idx or tt is None:
        return
    rep.check("R7.1", "TinyType::None=0", tt["None"] == 0, "TinyType::None must be sub-type 0 (found %s)" % tt["None"], b.loc())
    rows = b.decision_rows()
    some = [r for r in rows if r[1][1] == "Some"]
    none = [r for r in rows if r[1][1] == "None"]
    other = [r for r in rows if r[1][1] not in ("Some", "None")]
    rep.check("R7.1", "rows", len(some) == 1 and not other and len(none) >= 1,
              "maybe_pong must have exactly one replying row and otherwise return None (Some rows %d, other %s)" % (len(some), [r[1] for r in other]), b.loc(),
              sample={"rows": [[list(map(list, r[0])), list(r[1])] for r in sorted(rows)][:6]})
    if len(some) == 1:
        conds = {(c[1], c[2], c[3]) for c in some[0][0]}
        want = {("discr(*arg1)", "eq", (tiny_idx[0],)), ("discr(*arg1 as Tiny.0.subt)", "eq", (tt["None"],)), ("*arg1 as Tiny.0.reqi.0", "eq", (0,))}
        rep.check("R7.1", "reply-conditions", conds == want,
                  "a reply must require exactly: variant Tiny, sub-type NONE, request id 0; found %s" % sorted(conds), b.loc(),
                  sample={"conditions": sorted(map(list, conds))})
        val = some[0][1][2]
        rep.check("R7.1", "reply-value", val == ("Tiny{Tiny{RequestId{0}, None{}}}",),
                  "the reply must be Packet::Tiny(Tiny{reqi: RequestId(0), subt: TinyType::None}); found %s" % (val,), b.loc(), sample={"value": list(val)})
    for r in none:
        pass
    # every non-replying row is reached by falsifying at least one of the three conditions (complement is None)
    if len(some) == 1:
        pos = {(c[1], c[3]) for c in some[0][0]}
        for n, r in enumerate(sorted(none)):
            neg = [(c[1], c[3]) for c in r[0] if c[2] == "ne"]
            rep.check("R7.1", "none-row:%d" % n, any(x in pos for x in neg), "a None row does not falsify a reply condition: %s" % (r[0],), b.loc(), nontrivial=False)


def loop_rules(ctx, rep, impl):
    is_async = impl == "tokio"
    b = net.body(ctx, rep, "R7.2", impl, "read")
    if b is None:
        return
    M = b.calls_to(r"Packet::maybe_pong$")
    W = [(bb, t) for bb, t in b.calls() if (callee(t)[0] or "").endswith("framed::Framed::write")]
    rep.check("R7.2", "%s:anchors" % impl, len(M) == 1 and len(W) == 1,
              "%s read: expected one maybe_pong call and one Framed::write call (found %d / %d)" % (impl, len(M), len(W)), b.loc(),
              sample={"impl": impl, "maybe_pong_sites": len(M), "write_sites": len(W)})
    if len(M) != 1 or len(W) != 1:
        return
    mbb, mt = M[0]
    wbb, wt = W[0]
    # maybe_pong is applied to the packet that decode produced
    mo = b.origin(mt["args"][0])
    rep.check("R7.2", "%s:pong-of-decoded" % impl, any(c[1].endswith("Codec::decode") for c in origin_calls(mo)),
              "maybe_pong must inspect the packet just decoded (origin %s)" % fmt_origin(mo), b.loc(mt["line"]))
    sw = b.discr_switch_of_call(mbb)
    if sw is None:
        rep.fail("R7.2", "%s:guard" % impl, "the result of maybe_pong is not matched on", b.loc(mt["line"]))
        return
    sbb, targets, otherwise, _o = sw
    some_t = targets.get(1)
    # argument is the Some payload of that very call, receiver is self
    a0 = strip_refs(b.origin(wt["args"][0]))
    a1 = b.origin(wt["args"][1])
    self_ok = a0 == ("arg", 1) or (a0[0] == "field" and strip_refs(a0[1]) == ("arg", 1) and a0[2] == 0)
    pay_ok = a1[0] == "downcast" and a1[3] == "Some" and a1[1][0] == "call" and a1[1][4] == mbb or \
        (a1[0] == "field" and a1[1][0] == "downcast" and a1[1][1][0] == "call" and a1[1][1][4] == mbb)
    rep.check("R7.2", "%s:reply-is-pong" % impl, self_ok and pay_ok,
              "the written packet must be exactly the value maybe_pong returned (receiver %s, argument %s)" % (a0, fmt_origin(a1)), b.loc(wt["line"]),
              sample={"impl": impl, "argument": fmt_origin(a1)})
    # dominated by the Some edge
    without = b.reach(0, avoid_edges={(sbb, some_t)}) if some_t is not None else set(range(b.n))
    rep.check("R7.2", "%s:only-on-some" % impl, some_t is not None and wbb not in without,
              "the reply can be written on a path that does not go through `maybe_pong() == Some`", b.loc(wt["line"]))
    # must pass through the write before returning Ok(packet)
    oks = net.packet_ok_returns(b)
    rep.check("R7.2", "%s:return-anchor" % impl, len(oks) >= 1, "no `return Ok(packet)` of the decoded packet found", b.loc(), nontrivial=False)
    if some_t is not None:
        skip = b.reach(some_t, avoid_blocks={wbb})
        rep.check("R7.2", "%s:reply-before-return" % impl, not (set(oks) & skip),
                  "from the keep-alive branch the packet can be returned without the reply having been written first", b.loc(wt["line"]))
        if is_async:
            polls = net.awaited(b, wbb)
            okp = len(polls) == 1 and not (set(oks) & b.reach(some_t, avoid_blocks=set(polls)))
            rep.check("R7.2", "%s:reply-awaited" % impl, okp, "the reply future must be awaited before the packet is returned (polls %s)" % polls, b.loc(wt["line"]))
    # at most once per packet
    again = b.reach_within_iteration(wt["target"]) if wt.get("target") is not None else set()
    rep.check("R7.2", "%s:at-most-once" % impl, wbb not in again, "the reply write is re-reachable within the same loop iteration", b.loc(wt["line"]))
    # error propagated
    tr = net.try_of(b, wbb, is_async)
    rep.check("R7.2", "%s:error-propagated" % impl, tr is not None and "residual" in b.ret_kinds(tr[3]),
              "a failed reply write must surface as the read's error", b.loc(wt["line"]))
    # nothing else writes: no call on self.inner in read, and read_buf's only transport call is a read
    others = []
    for bb, t in b.calls():
        if t["args"] and "inner" in str(strip_refs(b.origin(t["args"][0])))[:200] and bb != wbb:
            d = callee(t)[0]
            others.append(d)
    rb = net.body(ctx, rep, "R7.2", impl, "read_buf")
    rb_calls = []
    if rb is not None:
        for bb, t in rb.calls():
            from mirq import is_self_field
            if t["args"] and is_self_field(rb.origin(t["args"][0]), "inner"):
                rb_calls.append(callee(t)[0])
    okrb = all(("Read::read" in (d or "")) or ("AsyncReadExt::read" in (d or "")) for d in rb_calls) and len(rb_calls) == 1
    rep.check("R7.2", "%s:no-other-writes" % impl, not others and okrb,
              "read/read_buf touch the transport other than through one read call and the reply write (read: %s, read_buf: %s)" % (others, rb_calls), b.loc(),
              sample={"impl": impl, "read_buf_transport_calls": rb_calls})
