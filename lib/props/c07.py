"""C07 — keep-alive requests are answered exactly once, and only they are."""
from mirq import callee, fmt_origin, origin_calls, strip_refs
from props import net

THOROUGH_CONFIGS = ["default", "blocking", "websocket", "all"]

EXPLANATION = (
    "R7.1: Packet::maybe_pong is extracted from MIR as a finite decision table over its switch edges; exactly one row returns Some, "
    "its conditions are (variant Tiny, sub-type discriminant = TinyType::None, request id byte = 0) and its value is "
    "Packet::Tiny(Tiny{reqi: RequestId(0), subt: None}); every other row returns None. R7.2: in both read loops the only call that "
    "writes to the connection is Framed::write applied to self and the Some payload of maybe_pong(decoded packet); that call is "
    "dominated by the Some edge, lies on every path from that edge to `return Ok(packet)` (written before the packet is handed out), "
    "is not re-reachable within one loop iteration (at most once per packet), its error is propagated, and read/read_buf contain no "
    "other call on self.inner that writes; the reply leaves through Framed::write, whose complete-write rules (C06) make it one whole frame. Not decided: transport behaviour; histories (the rules are per packet and the loop returns "
    "after each delivered packet)."
)


def run(ctx, rep):
    rep.explanation = EXPLANATION
    rep.assumptions = ["enum discriminants and constant operands as evaluated by rustc"]
    table(ctx, rep)
    plain_decoding(ctx, rep)
    for impl in net.impls_present(ctx):
        loop_rules(ctx, rep, impl)
    rep.floor("R7.2", 5 * len(net.impls_present(ctx)))
    # "exactly one TINY_NONE frame": the reply goes out through Framed::write, which must hand the whole encoded frame to a
    # complete-write call - a single write that may stop short leaves a truncated reply on the wire (C06's R6.1 / R6.2)
    from props import c06
    c06.write_rules(ctx, rep)


def plain_decoding(ctx, rep):
    """R7.3: the two fields maybe_pong tests are what was on the wire: IS_TINY's `reqi` and `subt` are read by the plain derived
    reader - no read-side directive that can substitute a value (`try`, `default`, `map`, `if`, `ignore`, `calc`, `parse_with` ..):
    with `try` an unknown sub-type byte would silently become the default variant NONE and be answered as a keep-alive."""
    try:
        lay = ctx.wire.layout("Tiny", None, "insim::insim::tiny")
    except Exception as ex:
        rep.fail("R7.3", "Tiny:layout", "layout of IS_TINY not available (%s)" % ex)
        return
    ent = lay.get("ent")
    if ent is None:
        rep.fail("R7.3", "Tiny:found", "struct Tiny not found")
        return
    names = {fi["name"] for fi in lay["fields"]}
    rep.check("R7.3", "Tiny:fields", {"reqi", "subt"} <= names, "IS_TINY must have the fields reqi and subt (found %s)" % sorted(names), ctx.loc(ent), nontrivial=False)
    structural = {"pad_before", "pad_after", "align_before", "align_after", "little", "big", "magic", "assert", "dbg"}
    for fi in lay["fields"]:
        if fi["name"] not in ("reqi", "subt"):
            continue
        extra = sorted(set(fi["dirs"]["read"].keys()) - structural)
        rep.check("R7.3", "Tiny.%s:plain-read" % fi["name"], not extra,
                  "IS_TINY.%s is read with %s: the value maybe_pong tests would no longer be the byte that was received" % (fi["name"], extra), ctx.loc(ent, fi["ln"]),
                  sample={"field": fi["name"], "read_directives": sorted(fi["dirs"]["read"].keys())})
    rep.floor("R7.3", 2)


def table(ctx, rep):
    b = ctx.mir.body("insim::packet::Packet::maybe_pong")
    if b is None:
        rep.fail("R7.1", "maybe_pong:found", "Packet::maybe_pong not found")
        return
    rep.fn(b.name)
    pk = ctx.mir.enums.get("insim::packet::Packet")
    tt = ctx.mir.enum_variants("insim::insim::tiny::TinyType")
    tiny_idx = [v["idx"] for v in pk["variants"] if v["name"] == "Tiny"] if pk else []
    rep.check("R7.1", "anchors", bool(tiny_idx) and tt is not None and "None" in tt, "Packet::Tiny / TinyType::None not found", b.loc(), nontrivial=False)
    if not tiny_idx or tt is None:
        return
    rep.check("R7.1", "TinyType::None=0", tt["None"] == 0, "TinyType::None must be sub-type 0 (found %s)" % tt["None"], b.loc())
    from mirq import inline_calls
    b = inline_calls(b, lambda d: d.startswith("insim::") or d.startswith("<insim::"), depth=3)
    rows = b.decision_rows()
    some = [r for r in rows if r[1][1] == "Some"]
    none = [r for r in rows if r[1][1] == "None"]
    other = [r for r in rows if r[1][1] not in ("Some", "None")]
    rep.check("R7.1", "rows", len(some) == 1 and not other and len(none) >= 1,
              "maybe_pong must have exactly one replying row and otherwise return None (Some rows %d, other %s)" % (len(some), [r[1] for r in other]), b.loc(),
              sample={"rows": [[list(map(list, r[0])), list(r[1])] for r in sorted(rows)][:6]})
    if len(some) == 1:
        conds = {(c[1], c[2], c[3]) for c in some[0][0]}
        want = {("discr(*arg1)", "eq", (tiny_idx[0],)), ("discr(*arg1 as Tiny.0.subt)", "eq", (tt["None"],)), ("*arg1 as Tiny.0.reqi.0", "eq", (0,))}
        rep.check("R7.1", "reply-conditions", conds == want,
                  "a reply must require exactly: variant Tiny, sub-type NONE, request id 0; found %s" % sorted(conds), b.loc(),
                  sample={"conditions": sorted(map(list, conds))})
        val = some[0][1][2]
        rep.check("R7.1", "reply-value", val == ("Tiny{Tiny{RequestId{0}, None{}}}",),
                  "the reply must be Packet::Tiny(Tiny{reqi: RequestId(0), subt: TinyType::None}); found %s" % (val,), b.loc(), sample={"value": list(val)})
    for r in none:
        pass
    # every non-replying row is reached by falsifying at least one of the three conditions (complement is None)
    if len(some) == 1:
        pos = {(c[1], c[3]) for c in some[0][0]}
        for n, r in enumerate(sorted(none)):
            neg = [(c[1], c[3]) for c in r[0] if c[2] == "ne"]
            rep.check("R7.1", "none-row:%d" % n, any(x in pos for x in neg), "a None row does not falsify a reply condition: %s" % (r[0],), b.loc(), nontrivial=False)


def loop_rules(ctx, rep, impl):
    """multi-site formulation: any number of decode / maybe_pong / write / return sites (helpers are inlined)"""
    from mirq import is_self_field
    is_async = impl == "tokio"
    b = net.body(ctx, rep, "R7.2", impl, "read")
    if b is None:
        return
    DEC = b.calls_to(r"Codec::decode$")
    M = b.calls_to(r"Packet::maybe_pong$")
    W = [(bb, t) for bb, t in b.calls() if (callee(t)[0] or "").endswith("framed::Framed::write")]
    oks = net.packet_ok_returns(b)
    rep.check("R7.2", "%s:anchors" % impl, len(DEC) >= 1 and len(M) >= 1 and len(W) >= 1 and len(oks) >= 1,
              "%s read: expected decode, maybe_pong, Framed::write and `return Ok(packet)` sites (found %d / %d / %d / %d)" % (impl, len(DEC), len(M), len(W), len(oks)), b.loc(),
              sample={"impl": impl, "decode_sites": len(DEC), "maybe_pong_sites": len(M), "write_sites": len(W), "packet_returns": len(oks)})
    if not (DEC and M and W and oks):
        return
    mblocks = {bb for bb, _t in M}
    dblocks = {bb for bb, _t in DEC}
    # every delivered packet was inspected for a keep-alive: no path decode -> return Ok(packet) avoids maybe_pong
    for n, (dbb, dt) in enumerate(DEC):
        esc = b.reach_v(avoid_blocks=mblocks, via=dbb, avoid_after=dblocks)
        rep.check("R7.2", "%s:every-packet-inspected:%d" % (impl, n), not (set(oks) & esc),
                  "a decoded packet can be returned to the caller without passing maybe_pong(): a keep-alive taking that path is never answered", b.loc(dt["line"]),
                  sample={"impl": impl, "decode_block": dbb})
    some_edges = {}
    for n, (mbb, mt) in enumerate(M):
        mo = b.origin(mt["args"][0])
        rep.check("R7.2", "%s:pong-of-decoded:%d" % (impl, n), b.may_mention(mo, r"Codec::decode$"),
                  "maybe_pong must inspect the packet just decoded (origin %s)" % fmt_origin(mo), b.loc(mt["line"]))
        sw = b.discr_switch_of_call(mbb)
        if sw is None:
            rep.fail("R7.2", "%s:guard:%d" % (impl, n), "the result of maybe_pong is not matched on", b.loc(mt["line"]))
            continue
        sbb, targets, otherwise, _o = sw
        some_t = targets.get(1)
        some_edges[mbb] = (sbb, some_t)
        mine = [(wbb, wt) for wbb, wt in W if any(c[4] == mbb for c in b.may_calls(b.origin(wt["args"][1])))]
        rep.check("R7.2", "%s:reply-site:%d" % (impl, n), len(mine) == 1, "expected exactly one write of this maybe_pong's reply (found %d)" % len(mine), b.loc(mt["line"]), nontrivial=False)
        if len(mine) != 1 or some_t is None:
            continue
        wbb, wt = mine[0]
        skip = b.reach(some_t, avoid_blocks={wbb})
        rep.check("R7.2", "%s:reply-before-return:%d" % (impl, n), not (set(oks) & skip),
                  "from the keep-alive branch the packet can be returned without the reply having been written first", b.loc(wt["line"]))
        if is_async:
            polls = net.awaited(b, wbb)
            okp = len(polls) == 1 and not (set(oks) & b.reach(some_t, avoid_blocks=set(polls)))
            rep.check("R7.2", "%s:reply-awaited:%d" % (impl, n), okp, "the reply future must be awaited before the packet is returned (polls %s)" % polls, b.loc(wt["line"]))
    for n, (wbb, wt) in enumerate(W):
        a0 = strip_refs(b.origin(wt["args"][0]))
        a1 = b.origin(wt["args"][1])
        self_ok = a0 == ("arg", 1) or (a0[0] == "field" and strip_refs(a0[1]) == ("arg", 1) and a0[2] == 0)
        x = a1[1] if a1[0] == "field" else a1
        src = x[1] if x[0] == "downcast" and x[3] == "Some" else None
        if src is not None and src[0] != "call":
            # the Option travelled through a helper's `Ok(..)` and a `?`: what it can stand for under those projections
            alts = [strip_refs(y) for y in b.alternatives(src)]
            if alts and all(y == alts[0] for y in alts):
                src = alts[0]
        pay_ok = src is not None and src[0] == "call" and src[4] in some_edges
        rep.check("R7.2", "%s:reply-is-pong:%d" % (impl, n), self_ok and pay_ok,
                  "the only thing read() may write is the value maybe_pong returned (receiver %s, argument %s)" % (a0, fmt_origin(a1)), b.loc(wt["line"]),
                  sample={"impl": impl, "argument": fmt_origin(a1)})
        if pay_ok:
            sbb, some_t = some_edges[src[4]]
            without = b.reach(0, avoid_edges={(sbb, some_t)}) if some_t is not None else set(range(b.n))
            rep.check("R7.2", "%s:only-on-some:%d" % (impl, n), some_t is not None and wbb not in without,
                      "the reply can be written on a path that does not go through `maybe_pong() == Some`", b.loc(wt["line"]))
        again = b.reach_within_iteration(wt["target"]) if wt.get("target") is not None else set()
        rep.check("R7.2", "%s:at-most-once:%d" % (impl, n), wbb not in again and not (dblocks & set()) , "the reply write is re-reachable within the same loop iteration", b.loc(wt["line"]))
        polls = net.awaited(b, wbb) if is_async else [wbb]
        rep.check("R7.2", "%s:error-propagated:%d" % (impl, n), any(b.error_returned(pb) for pb in polls),
                  "a failed reply write must surface as the read's error", b.loc(wt["line"]))
    # every failure of the reply write ends the read with an error: on the path table, a path that takes the Err answer of
    # the write (directly, through `?`, or out of the awaited future) must return Err - not the packet, not another iteration
    from mirq import simplify
    try:
        rows = b.decision_rows()
    except Exception as ex:
        rows = None
        rep.fail("R7.2", "%s:reply-failure-returned" % impl, "path table of read not extractable (%s)" % ex, b.loc())
    if rows is not None:
        for n, (wbb, wt) in enumerate(W):
            srcs = set(net.awaited(b, wbb)) if is_async else {wbb}

            def of_write(x):
                x = simplify(x)
                if x[0] == "call" and (x[1] or "").endswith("Try::branch") and x[3]:
                    x = simplify(x[3][0])
                if x[0] == "field" and x[1][0] == "downcast" and x[1][3] == "Ready":
                    x = x[1][1]
                    return x[0] == "call" and len(x) > 4 and x[4] in srcs and is_async
                return x[0] == "call" and len(x) > 4 and x[4] in srcs and not is_async
            bad = []
            nerr = 0
            for conds, ret, _o in rows:
                if not any(c[4][0] == "discr" and c[2] == "eq" and tuple(c[3]) == (1,) and of_write(c[4][1]) for c in conds):
                    continue
                nerr += 1
                kind = ret[1]
                if kind == "use" and len(ret) > 3 and ret[3]:
                    # `return helper(..)`: what the helper returned on this path
                    x = simplify(ret[3][0])
                    if x[0] == "call" and (x[1] or "").endswith("FromResidual::from_residual"):
                        kind = "Err"
                    elif x[0] == "agg" and x[1][0] == "adt" and x[1][1] == "core::result::Result":
                        kind = x[1][3]
                if not (kind == "Err" or (kind.startswith("call:") and "from_residual" in kind) or kind == "diverge"):
                    bad.append(kind)
            rep.check("R7.2", "%s:reply-failure-returned:%d" % (impl, n), nerr >= 1 and not bad,
                      "a failed reply write must end read() with that error; %d failure path(s) found, of which some end in %s (the keep-alive is handed over although no reply was written)"
                      % (nerr, sorted(set(bad))), b.loc(wt["line"]), sample={"impl": impl, "failure_paths": nerr})
    # nothing else writes: no call on self.inner in read, and read_buf's only transport call is a read
    others = []
    for bb, t in b.calls():
        if t["args"] and is_self_field(b.origin(t["args"][0]), "inner"):
            others.append(callee(t)[0])
    rb = net.body(ctx, rep, "R7.2", impl, "read_buf")
    rb_calls = []
    if rb is not None:
        for bb, t in rb.calls():
            if t["args"] and is_self_field(rb.origin(t["args"][0]), "inner"):
                rb_calls.append(callee(t)[0])
    okrb = all(("Read::read" in (d or "")) or ("AsyncReadExt::read" in (d or "")) for d in rb_calls) and len(rb_calls) == 1
    rep.check("R7.2", "%s:no-other-writes" % impl, not others and okrb,
              "read/read_buf touch the transport other than through one read call and the reply write (read: %s, read_buf: %s)" % (others, rb_calls), b.loc(),
              sample={"impl": impl, "read_buf_transport_calls": rb_calls})
