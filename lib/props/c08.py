"""C08 — UDP datagrams are delivered intact for arbitrarily long sessions (adaptor clauses)."""
import re

from mirq import callee, fmt_origin, is_self_field, origin_calls, strip_refs
from props import c06, net

THOROUGH_CONFIGS = ["default", "blocking", "websocket", "all"]

EXPLANATION = (
    "R8.1: in every UDP adaptor read function each datagram-receive call (recv / try_recv / poll_recv ...) writes into storage "
    "owned by the adaptor whose static capacity is at least MAX_SIZE_PACKET (a local [u8; N], N const-evaluated), never into the "
    "caller-supplied slice/ReadBuf: the connection offers whatever spare capacity its BytesMut has left, which is smaller than a "
    "datagram after enough traffic, and a datagram received into a short buffer is truncated by the kernel. R8.2: the receive is "
    "reachable only when the adaptor's own buffer is empty (buffered packets are served first), every received byte is appended to "
    "that buffer (count = the receive call's result), and the caller is served from it. R8.3 = C06/R6.3 for the UDP adaptors (one "
    "send of the whole slice per write). Not decided: BytesMut capacity dynamics, kernel behaviour."
)

RECV = re.compile(r"UdpSocket::(recv|try_recv|poll_recv|recv_from|try_recv_from|poll_recv_from|peek|poll_peek|try_recv_buf|recv_buf)")

READERS = [
    ("blocking", "<insim::net::blocking_impl::udp::UdpStream as std::io::Read>::read", "udp-blocking"),
    ("tokio", "<insim::net::tokio_impl::udp::UdpStream as tokio::io::async_read::AsyncRead>::poll_read", "udp-tokio-async"),
    ("tokio", "<insim::net::tokio_impl::udp::UdpStream as std::io::Read>::read", "udp-tokio-sync"),
]


def scratch_of(o):
    """(kind, detail): 'owned' with array length, 'caller', or 'unknown' for the origin of a receive buffer"""
    x = o
    for _ in range(12):
        if x[0] in ("ref", "deref"):
            x = x[1]
        elif x[0] == "cast":
            x = x[4]
        elif x[0] == "call" and (x[1].endswith("ReadBuf::<'a>::new") or x[1].endswith("ReadBuf::new") or "ReadBuf" in x[1] and x[1].endswith("::new")):
            x = x[3][0]
        elif x[0] == "call" and ("index" in x[1] or "as_mut" in x[1] or "deref_mut" in x[1]):
            x = x[3][0]
        else:
            break
    if x[0] == "repeat":
        try:
            return "owned", int(x[2])
        except ValueError:
            return "unknown", "array length %s" % x[2]
    if x[0] == "arg":
        return "caller", "parameter %d" % x[1]
    if x[0] == "agg" and x[1][0] == "array":
        return "owned", len(x[2])
    return "unknown", fmt_origin(x)


def run(ctx, rep):
    rep.explanation = EXPLANATION
    rep.assumptions = ["a datagram received into a buffer shorter than the datagram is truncated (UDP socket semantics)",
                       "the connection's read buffer offers only its spare capacity (C05/R5.3 decides that shape)"]
    maxp = ctx.mir.const_val("insim::MAX_SIZE_PACKET")
    rep.check("R8.1", "MAX_SIZE_PACKET", maxp == 1020, "MAX_SIZE_PACKET must be 1020 (found %s)" % maxp, None, nontrivial=False)
    present = net.impls_present(ctx)
    n = 0
    for feat, name, tag in READERS:
        if feat not in present:
            continue
        b = ctx.mir.body(name)
        if b is None:
            rep.fail("R8.1", "%s:found" % tag, "%s not found" % name)
            continue
        rep.fn(name)
        recvs = [(bb, t) for bb, t in b.calls() if RECV.search(callee(t)[0] or "")]
        rep.check("R8.1", "%s:receive-site" % tag, len(recvs) == 1, "%s: expected exactly one datagram receive call (found %s)" % (tag, [callee(t)[0] for _b, t in recvs]), b.loc(), nontrivial=False)
        for (bb, t) in recvs:
            n += 1
            d = callee(t)[0]
            bufarg = t["args"][2] if "poll_" in d else t["args"][1]
            o = b.origin(bufarg)
            kind, detail = scratch_of(o)
            ok = kind == "owned" and isinstance(detail, int) and maxp is not None and detail >= maxp
            rep.check("R8.1", "%s:receive-buffer" % tag, ok,
                      "%s: %s receives the datagram into %s (%s); it must receive into adaptor-owned storage of at least MAX_SIZE_PACKET bytes, otherwise a datagram larger than the caller's remaining space is truncated and the packets in it are lost"
                      % (tag, d.split("::")[-1], kind, detail), b.loc(t["line"]), sample={"adaptor": tag, "callee": d, "buffer": kind, "detail": detail})
            # R8.2 served from own buffer first
            sws = b.switch_on(lambda oo: (oo[0] == "call" and oo[1].endswith("BytesMut::is_empty") and is_self_buffer(oo[3][0])) or
                              (oo[0] == "un" and oo[2][0] == "call" and oo[2][1].endswith("BytesMut::is_empty") and is_self_buffer(oo[2][3][0])))
            okf = False
            if len(sws) >= 1:
                sbb, targets, otherwise, oo = sws[0]
                neg = oo[0] == "un"
                nonempty_t = targets.get(0) if not neg else otherwise
                empty_t = otherwise if not neg else targets.get(0)
                okf = bb not in b.reach(0, avoid_edges={(sbb, empty_t)})
            rep.check("R8.2", "%s:buffer-first" % tag, okf, "%s: the socket is read although the adaptor still holds undelivered bytes (or no emptiness test exists)" % tag, b.loc(t["line"]))
            # all received bytes appended
            ext = [(eb, et) for eb, et in b.calls_to(r"BytesMut::(extend_from_slice|put_slice|put)$|Extend::extend$") if is_self_buffer(b.origin(et["args"][0]))]
            oka = False
            for eb, et in ext:
                eo = b.origin(et["args"][1])
                if any(c[4] == bb for c in origin_calls(eo)) or any(c[1].endswith("ReadBuf::<'a>::filled") or c[1].endswith("filled") for c in origin_calls(eo)):
                    k2, d2 = scratch_of(strip_to_base(eo))
                    oka = True
            rep.check("R8.2", "%s:append-received" % tag, oka, "%s: the received bytes must be appended to the adaptor's own buffer" % tag, b.loc(t["line"]))
    rep.floor("R8.1", 1 + 2 * len([1 for f, _n, _t in READERS if f in present]))
    # R8.3: one send per write
    before = len(rep.instances)
    c06.adaptors(ctx, rep)
    for i in rep.instances[before:]:
        if i["rule"] == "R6.3":
            i["rule"] = "R8.3"
            i["key"] = i["key"].replace("R6.3:", "R8.3:")
    rep.floors.pop("R6.3", None)
    rep.floor("R8.3", 1)


def is_self_buffer(o):
    x = strip_refs(o)
    if x[0] == "field" and x[3] == "buffer":
        return True
    return False


def strip_to_base(o):
    x = o
    for _ in range(10):
        if x[0] in ("ref", "deref"):
            x = x[1]
        elif x[0] == "call" and x[3]:
            x = x[3][0]
        else:
            break
    return x
