"""C08 — UDP datagrams are delivered intact for arbitrarily long sessions (adaptor clauses)."""
import re

from mirq import callee, fmt_origin, is_self_field, origin_calls, strip_refs
from props import c06, net

THOROUGH_CONFIGS = ["default", "blocking", "websocket", "all"]

EXPLANATION = (
    "R8.1: in every UDP adaptor read function each datagram-receive call (recv / try_recv / poll_recv ...) writes into storage "
    "owned by the adaptor whose static capacity is at least MAX_SIZE_PACKET (a local [u8; N], N const-evaluated), never into the "
    "caller-supplied slice/ReadBuf: the connection offers whatever spare capacity its BytesMut has left, which is smaller than a "
    "datagram after enough traffic, and a datagram received into a short buffer is truncated by the kernel. R8.2: the receive is "
    "reachable only when the adaptor's own buffer is empty (buffered packets are served first), every received byte is appended to "
    "that buffer (count = the receive call's result), and the caller is served from it. R8.3 = C06/R6.3 for the UDP adaptors (one "
    "send of the whole slice per write). Not decided: BytesMut capacity dynamics, kernel behaviour."
)

RECV = re.compile(r"UdpSocket::(recv|try_recv|poll_recv|recv_from|try_recv_from|poll_recv_from|peek|poll_peek|try_recv_buf|recv_buf)")

READERS = [
    ("blocking", "<insim::net::blocking_impl::udp::UdpStream as std::io::Read>::read", "udp-blocking"),
    ("tokio", "<insim::net::tokio_impl::udp::UdpStream as tokio::io::async_read::AsyncRead>::poll_read", "udp-tokio-async"),
    ("tokio", "<insim::net::tokio_impl::udp::UdpStream as std::io::Read>::read", "udp-tokio-sync"),
]


def scratch_of(o):
    """(kind, detail): 'owned' with array length, 'caller', or 'unknown' for the origin of a receive buffer"""
    x = o
    for _ in range(12):
        if x[0] in ("ref", "deref"):
            x = x[1]
        elif x[0] == "cast":
            x = x[4]
        elif x[0] == "call" and (x[1].endswith("ReadBuf::<'a>::new") or x[1].endswith("ReadBuf::new") or "ReadBuf" in x[1] and x[1].endswith("::new")):
            x = x[3][0]
        elif x[0] == "call" and ("index" in x[1] or "as_mut" in x[1] or "deref_mut" in x[1]):
            x = x[3][0]
        else:
            break
    if x[0] == "repeat":
        try:
            return "owned", int(x[2])
        except ValueError:
            return "unknown", "array length %s" % x[2]
    if x[0] == "arg":
        return "caller", "parameter %d" % x[1]
    if x[0] == "agg" and x[1][0] == "array":
        return "owned", len(x[2])
    return "unknown", fmt_origin(x)


def run(ctx, rep):
    rep.explanation = EXPLANATION
    rep.assumptions = ["a datagram received into a buffer shorter than the datagram is truncated (UDP socket semantics)",
                       "the connection's read buffer offers only its spare capacity (C05/R5.3 decides that shape)"]
    maxp = ctx.mir.const_val("insim::MAX_SIZE_PACKET")
    rep.check("R8.1", "MAX_SIZE_PACKET", maxp == 1020, "MAX_SIZE_PACKET must be 1020 (found %s)" % maxp, None, nontrivial=False)
    present = net.impls_present(ctx)
    n = 0
    for feat, name, tag in READERS:
        if feat not in present:
            continue
        b = ctx.mir.body(name)
        if b is None:
            rep.fail("R8.1", "%s:found" % tag, "%s not found" % name)
            continue
        rep.fn(name)
        from mirq import inline_calls
        pfx = PREFIX.get(tag)
        if pfx:
            b = inline_calls(b, lambda d, pfx=pfx: d.startswith(pfx) and "{closure" not in d, depth=3)          # private helpers of the adaptor
        recvs = [(bb, t) for bb, t in b.calls() if RECV.search(callee(t)[0] or "")]
        rep.check("R8.1", "%s:receive-site" % tag, len(recvs) == 1, "%s: expected exactly one datagram receive call (found %s)" % (tag, [callee(t)[0] for _b, t in recvs]), b.loc(), nontrivial=False)
        for (bb, t) in recvs:
            n += 1
            d = callee(t)[0]
            bufarg = t["args"][2] if "poll_" in d else t["args"][1]
            o = b.origin(bufarg)
            kind, detail = scratch_of(o)
            ok = kind == "owned" and isinstance(detail, int) and maxp is not None and detail >= maxp
            rep.check("R8.1", "%s:receive-buffer" % tag, ok,
                      "%s: %s receives the datagram into %s (%s); it must receive into adaptor-owned storage of at least MAX_SIZE_PACKET bytes, otherwise a datagram larger than the caller's remaining space is truncated and the packets in it are lost"
                      % (tag, d.split("::")[-1], kind, detail), b.loc(t["line"]), sample={"adaptor": tag, "callee": d, "buffer": kind, "detail": detail})
            # R8.2 served from own buffer first
            sws = b.switch_on(lambda oo: (oo[0] == "call" and oo[1].endswith("BytesMut::is_empty") and is_self_buffer(oo[3][0])) or
                              (oo[0] == "un" and oo[2][0] == "call" and oo[2][1].endswith("BytesMut::is_empty") and is_self_buffer(oo[2][3][0])))
            okf = False
            if len(sws) >= 1:
                sbb, targets, otherwise, oo = sws[0]
                neg = oo[0] == "un"
                nonempty_t = targets.get(0) if not neg else otherwise
                empty_t = otherwise if not neg else targets.get(0)
                okf = bb not in b.reach(0, avoid_edges={(sbb, empty_t)})
            rep.check("R8.2", "%s:buffer-first" % tag, okf, "%s: the socket is read although the adaptor still holds undelivered bytes (or no emptiness test exists)" % tag, b.loc(t["line"]))
            # all received bytes appended
            ext = [(eb, et) for eb, et in b.calls_to(r"BytesMut::(extend_from_slice|put_slice|put)$|Extend::extend$") if is_self_buffer(b.origin(et["args"][0]))]
            oka = False
            for eb, et in ext:
                eo = b.origin(et["args"][1])
                if any(c[4] == bb for c in origin_calls(eo)) or any(c[1].endswith("ReadBuf::<'a>::filled") or c[1].endswith("filled") for c in origin_calls(eo)):
                    k2, d2 = scratch_of(strip_to_base(eo))
                    oka = True
            rep.check("R8.2", "%s:append-received" % tag, oka, "%s: the received bytes must be appended to the adaptor's own buffer" % tag, b.loc(t["line"]))
    rep.floor("R8.1", 1 + 2 * len([1 for f, _n, _t in READERS if f in present]))
    for feat, name, tag in READERS:
        if feat in present and ctx.mir.body(name) is not None:
            serve_exact(ctx, rep, name, tag)
    rep.floor("R8.4", 3 * len([1 for f, _n, _t in READERS if f in present]))
    # R8.3: one send per write
    before = len(rep.instances)
    c06.adaptors(ctx, rep)
    keep = []
    for i in rep.instances[before:]:
        if i["rule"] == "R6.3" and "websocket" not in i["key"]:      # the WebSocket writer belongs to C20/R20.2
            i["rule"] = "R8.3"
            i["key"] = i["key"].replace("R6.3:", "R8.3:")
            keep.append(i)
    rep.instances[before:] = keep
    rep.floors.pop("R6.3", None)
    rep.floor("R8.3", 1)
    # "each written packet leaves as exactly one datagram holding exactly its frame": over UDP every transport call is one
    # datagram, so the connection's write must make exactly one complete-write call with exactly the bytes of one encode
    # (C06's R6.1 / R6.2, part of this property as well)
    c06.write_rules(ctx, rep)
    # "every packet of every received datagram is delivered intact and in order, however many packets share it": the decoder
    # must take exactly the announced frame off the buffer and parse nothing else (R4.2, shared with C04 / C05)
    from props import c04
    c04.decode(ctx, rep)


APPEND = re.compile(r"BytesMut::(extend_from_slice|put_slice|put|reserve)$|Extend::extend$|BufMut::(put_slice|put)$")
SERVE = re.compile(r"Buf::copy_to_bytes$|BytesMut::split_to$|Buf::advance$")
PREFIX = {"udp-blocking": "insim::net::blocking_impl::udp::UdpStream::", "udp-tokio-async": "insim::net::tokio_impl::udp::UdpStream::",
          "udp-tokio-sync": "insim::net::tokio_impl::udp::UdpStream::"}


def serve_exact(ctx, rep, name, tag):
    """R8.4: the adaptor buffer is changed only by appending received bytes and by serving the caller; a serve removes exactly
    min(caller's room, buffered) bytes from the front and those are the bytes the caller gets - so the part of a datagram that
    does not fit the caller's room stays buffered for the next read (private helpers of the adaptor are analysed in place)."""
    from mirq import inline_calls
    b0 = ctx.mir.body(name)
    pre = PREFIX[tag]
    b = inline_calls(b0, lambda d: d.startswith(pre) and "{closure" not in d)
    muts = []
    for bb, t in b.calls():
        for ai, a in enumerate(t["args"]):
            if t["argtys"][ai].startswith("&mut") and is_self_buffer(b.origin(a)):
                muts.append((bb, t, callee(t)[0] or ""))
    other = sorted({d for _bb, _t, d in muts if not APPEND.search(d) and not SERVE.search(d)})
    rep.check("R8.4", "%s:only-append-and-serve" % tag, not other,
              "%s: the adaptor buffer is changed by %s; only appending received bytes and serving a counted prefix may change it (anything else can drop the undelivered rest of a datagram)" % (tag, other),
              b0.loc(), sample={"adaptor": tag, "mutators": sorted({d for _bb, _t, d in muts})})
    serves = [(bb, t, d) for bb, t, d in muts if SERVE.search(d)]
    rep.check("R8.4", "%s:serve-site" % tag, len(serves) >= 1, "%s: no counted removal from the adaptor buffer found" % tag, b0.loc(), nontrivial=False)
    okc = bool(serves)
    why = ""
    for bb, t, d in serves:
        co = b.origin(t["args"][1])
        x = co
        while x[0] == "cast":
            x = x[4]
        good = x[0] == "call" and (x[1].endswith("Ord::min") or x[1].endswith("cmp::min")) and len(x[3]) == 2
        if good:
            kinds = set()
            for a in x[3]:
                aa = a
                while aa[0] == "cast":
                    aa = aa[4]
                if aa[0] == "call" and aa[1].endswith(("::len", "remaining")) and aa[3]:
                    kinds.add("own" if is_self_buffer(aa[3][0]) else ("caller" if strip_refs(aa[3][0])[0] == "arg" else "other"))
                else:
                    kinds.add("other")
            good = kinds == {"own", "caller"}
        if not good:
            okc = False
            why = "%s removes %s bytes" % (d.split("::")[-1], fmt_origin(co))
    rep.check("R8.4", "%s:serve-count" % tag, okc,
              "%s: a read must take exactly min(caller's room, buffered bytes) from the front of the adaptor buffer (%s)" % (tag, why), b0.loc(),
              sample={"adaptor": tag, "serves": [d for _bb, _t, d in serves]})
    # the bytes handed to the caller are the removed prefix
    outs = [(bb, t) for bb, t in b.calls_to(r"Buf::copy_to_slice$|ReadBuf::<'a>::put_slice$|copy_from_slice$")]
    okd = False
    for bb, t in outs:
        src = b.origin(t["args"][0]) if callee(t)[0].endswith("copy_to_slice") else b.origin(t["args"][1])
        if any(c[4] in [sb for sb, _t, _d in serves] for c in origin_calls(src)):
            okd = True
    rep.check("R8.4", "%s:served-bytes" % tag, okd, "%s: the bytes given to the caller must be the prefix removed from the adaptor buffer" % tag, b0.loc())


def is_self_buffer(o):
    x = strip_refs(o)
    if x[0] == "field" and x[3] == "buffer":
        return True
    return False


def strip_to_base(o):
    x = o
    for _ in range(10):
        if x[0] in ("ref", "deref"):
            x = x[1]
        elif x[0] == "call" and x[3]:
            x = x[3][0]
        else:
            break
    return x
