"""C05 — stream reassembly: shape of the read loop, identical rule set for the blocking and the tokio connection."""
from mirq import callee, fmt_origin, is_self_field, origin_calls, strip_refs
from props import net

THOROUGH_CONFIGS = ["default", "blocking", "websocket", "all"]

EXPLANATION = (
    "Path rules on the MIR of Framed::read / read_buf (blocking: optimized MIR; tokio: pre-transform coroutine MIR with Yield "
    "edges), same rules for both: R5.1 every path from function entry to the transport read passes the `buffer is empty` edge or "
    "the `decode returned None` edge (decode before read, so buffered frames are drained first); R5.2 a transport read of 0 returns "
    "Err(Disconnected), any other count continues the loop, an error is returned; R5.3 in read_buf the count given to advance_mut "
    "is exactly the transport's return value and is applied only on the success edge, the error edge returns without touching the "
    "buffer, the spare-capacity slice is built from chunk_mut's own pointer and length; R5.4 who-may-mutate: self.buffer is handed "
    "mutably only to Codec::decode, chunk_mut and advance_mut anywhere in the two Framed impls; R5.5 a decode error is propagated. "
    "Together with C04/R4.2 (frame split off before parsing) an undecodable frame cannot disturb its successors. Not decided: "
    "independence from every segmentation over all histories (BytesMut arithmetic), soundness of the unsafe spare-capacity fill."
)

MUTATORS_ALLOWED = ("insim::net::codec::Codec::decode", "bytes::buf::buf_mut::BufMut::chunk_mut", "bytes::buf::buf_mut::BufMut::advance_mut")
READERS_ALLOWED = ("bytes::bytes_mut::BytesMut::is_empty", "bytes::bytes_mut::BytesMut::len", "core::fmt::rt::Argument::<'_>::new_debug",
                   "bytes::bytes_mut::BytesMut::with_capacity", "bytes::bytes_mut::BytesMut::capacity")


def run(ctx, rep):
    rep.explanation = EXPLANATION
    rep.assumptions = ["the inner transport does not read from the uninitialised spare capacity and reports the number of bytes it initialised",
                       "BytesMut::chunk_mut/advance_mut behave as documented"]
    for impl in net.impls_present(ctx):
        read_rules(ctx, rep, impl)
        read_buf_rules(ctx, rep, impl)
        mutators(ctx, rep, impl)
    # the decoder the loop relies on: removes exactly the announced frame before parsing it, and parses nothing else - so what a
    # packet decodes to cannot depend on which bytes happen to be buffered behind it (R4.2, shared with C04)
    from props import c04
    c04.decode(ctx, rep)
    # ... and the length it announces is a function of the size byte alone (value, range, progress): a length test against
    # anything else - how much happens to be buffered - makes the result depend on segmentation (R4.1, shared with C04)
    c04.decode_length(ctx, rep)
    rep.floor("R5.1", 3 * len(net.impls_present(ctx)))
    rep.floor("R5.3", 4 * len(net.impls_present(ctx)))


def read_rules(ctx, rep, impl):
    """multi-site formulation (private helpers are inlined): any number of decode / read_buf / return sites"""
    is_async = impl == "tokio"
    b = net.body(ctx, rep, "R5.1", impl, "read")
    if b is None:
        return
    DEC = b.calls_to(r"Codec::decode$")
    RB = [(bb, t) for bb, t in b.calls() if (callee(t)[0] or "").endswith("framed::Framed::read_buf")]
    oks = net.packet_ok_returns(b)
    rep.check("R5.1", "%s:anchors" % impl, len(DEC) >= 1 and len(RB) >= 1 and len(oks) >= 1,
              "%s read: expected Codec::decode, read_buf and `return Ok(packet)` sites (found %d / %d / %d)" % (impl, len(DEC), len(RB), len(oks)), b.loc(),
              sample={"impl": impl, "decode_sites": len(DEC), "read_buf_sites": len(RB), "packet_returns": len(oks)})
    if not (DEC and RB and oks):
        return
    dblocks = {bb for bb, _t in DEC}
    rblocks = {bb for bb, _t in RB}
    for n, (dbb, dt) in enumerate(DEC):
        rep.check("R5.1", "%s:decode-args:%d" % (impl, n), is_self_field(b.origin(dt["args"][0]), "codec") and is_self_field(b.origin(dt["args"][1]), "buffer"),
                  "decode must be applied to self.codec and self.buffer", b.loc(dt["line"]), nontrivial=False)
    # edges on which the buffer is known to be empty
    empty_edges = set()
    for sbb, targets, otherwise, o in b.switch_on(lambda o: True):
        neg = False
        oo = o
        if oo[0] == "un" and oo[1] == "Not":
            neg = True
            oo = oo[2]
        if oo[0] == "call" and oo[1].endswith("BytesMut::is_empty") and oo[3] and is_self_field(oo[3][0], "buffer"):
            zero_t = targets.get(0)
            empty_t = zero_t if neg else otherwise
            empty_edges.add((sbb, empty_t))
    # edges on which a decode result is known to be None: direct match on decode()?'s Option
    none_edges = set()
    for dbb, dt in DEC:
        tr = b.try_of_call(dbb)
        if tr:
            for sbb, targets, otherwise, o in b.switch_on(lambda o, tb=tr[0]: o[0] == "discr" and net.mentions_call_bb(o[1], tb) and not (o[1][0] == "call")):
                none_edges.add((sbb, targets.get(0, otherwise)))
    direct = len(none_edges) >= 1
    for n, (rbb, rt) in enumerate(RB):
        if direct:
            reach = b.reach_v(avoid_edges=empty_edges | none_edges)
            why = "neither found the buffer empty nor got `None` from decode"
        else:
            # decode's Option is matched after passing through a helper's return value: the statically visible part is that
            # every path to the transport read runs decode (or finds the buffer empty) first
            reach = b.reach_v(avoid_blocks=dblocks, avoid_edges=empty_edges)
            why = "neither found the buffer empty nor ran decode"
        rep.check("R5.1", "%s:decode-before-read:%d" % (impl, n), rbb not in reach,
                  "the transport can be read on a path that %s: buffered frames would be delayed or reordered" % why, b.loc(rt["line"]),
                  sample={"impl": impl, "empty_edges": sorted(empty_edges), "none_edges": sorted(none_edges), "direct_option_match": direct})
        # and again before the next transport read
        nxt = b.reach(rt["target"], avoid_blocks=dblocks, avoid_edges=empty_edges) if rt.get("target") is not None else set()
        rep.check("R5.1", "%s:decode-between-reads:%d" % (impl, n), not (rblocks & nxt),
                  "two transport reads can follow each other without decode (or an empty-buffer test) in between", b.loc(rt["line"]))
    # R5.6 a decoded packet is handed out before any further transport read
    opt_sw = [s for s in b.switch_on(lambda o: o[0] == "discr" and b.may_mention(o[1], r"Codec::decode$") and o[1][0] != "call")
              if any("Option" in (ty or "") for ty in [b.locals[0]["ty"]]) or True]
    n56 = 0
    for sbb, targets, otherwise, o in opt_sw:
        # Option switch: Some = 1
        if 1 not in targets and otherwise is None:
            continue
        oty = fmt_origin(o)
        if "Continue" in oty and "Some" not in oty and not o[1][0] == "phi" and o[1][0] == "call":
            continue
        some_t = targets.get(1)
        if some_t is None:
            continue
        # only switches on Option<Packet> (not on the ControlFlow of `?`): the Some edge must be able to reach a packet return
        if not (set(oks) & b.reach(some_t)):
            continue
        n56 += 1
        lost = b.reach_v(via=some_t, avoid_after=set(oks)) & rblocks
        rep.check("R5.6", "%s:decoded-packet-delivered:%d" % (impl, n56 - 1), not lost,
                  "after decode produced a packet the transport can be read again before that packet is returned (the packet is dropped)", b.loc(),
                  sample={"impl": impl, "switch_block": sbb})
    rep.check("R5.6", "%s:sites" % impl, n56 >= 1, "no match on decode's Option found", b.loc(), nontrivial=False)
    # R5.5 decode error propagated
    for n, (dbb, dt) in enumerate(DEC):
        rep.check("R5.5", "%s:decode-error:%d" % (impl, n), b.error_returned(dbb), "a decode error must be returned to the caller", b.loc(dt["line"]))
    # R5.2 zero / non-zero / error, per read_buf site
    for n, (rbb, rt) in enumerate(RB):
        zero_rule(ctx, rep, b, impl, is_async, rbb, rt, n)


def zero_rule(ctx, rep, b, impl, is_async, rbb, rt, n):
    """R5.2 for one read_buf site: the byte count it yields (the Ok / Continue payload of its - awaited, timed - result) is
    tested against zero; the zero edge returns Err(Disconnected); the other edge goes back to decoding; a transport error is
    returned.  Works for `match r { Ok(0) => .., Ok(_) => .., Err(e) => .. }` and for `let n = r?; if n == 0 { .. }` alike."""
    if is_async:
        tmo = [x for x in b.calls_to(r"tokio::time::timeout::timeout$") if net.mentions_call_bb(b.origin(x[1]["args"][1]), rbb)]
        rep.check("R5.2", "%s:timeout-wraps-read_buf:%d" % (impl, n), len(tmo) == 1, "the timeout must wrap the read_buf future", b.loc(rt["line"]), nontrivial=False)

    def is_count(oo):
        """the usize inside Ok(..)/Continue(..) of the value that read_buf produced"""
        x = oo
        while x[0] == "cast":
            x = x[4]
        if x[0] == "field":
            x = x[1]
        return x[0] == "downcast" and x[3] in ("Ok", "Continue") and net.mentions_call_bb(oo, rbb) and not any(
            y[0] == "downcast" and y[3] in ("Err", "Break") for y in _chain(oo))

    zsw = []          # (switch block, zero target, non-zero target)
    for sbb, targets, otherwise, o in b.switch_on(lambda oo: is_count(oo) or (oo[0] == "bin" and oo[1] in ("Eq", "Ne", "Gt", "Lt", "Ge", "Le") and
                                                                          ((is_count(oo[2]) and oo[3][0] == "const") or (is_count(oo[3]) and oo[2][0] == "const")))):
        if o[0] == "bin":
            cl, k = (0, o[3][1]) if is_count(o[2]) else (o[2][1], 0)
            if k is None or cl is None:
                continue
            a, c = (0, k) if is_count(o[2]) else (cl, 0)
            truth0 = {"Eq": a == c, "Ne": a != c, "Gt": a > c, "Lt": a < c, "Ge": a >= c, "Le": a <= c}[o[1]]      # predicate value when the count is 0
            a1, c1 = (1, k) if is_count(o[2]) else (cl, 1)
            truth1 = {"Eq": a1 == c1, "Ne": a1 != c1, "Gt": a1 > c1, "Lt": a1 < c1, "Ge": a1 >= c1, "Le": a1 <= c1}[o[1]]
            if truth0 == truth1:
                continue          # not a zero test
            f_t = targets.get(0, otherwise)
            t_t = otherwise if 0 in targets else targets.get(1, otherwise)
            zsw.append((sbb, t_t if truth0 else f_t, f_t if truth0 else t_t))
        elif 0 in targets:
            zsw.append((sbb, targets[0], otherwise))
    # drop-elaboration duplicates: keep the dominating test
    if len(zsw) > 1:
        dom = [z for z in zsw if all(b.dominates(z[0], o2[0]) for o2 in zsw)]
        zsw = dom or zsw
    if not zsw:
        rep.fail("R5.2", "%s:result-match:%d" % (impl, n), "the byte count read_buf returns is never tested against 0", b.loc(rt["line"]))
    rep.check("R5.2", "%s:zero-test:%d" % (impl, n), len(zsw) == 1, "expected one test of the byte count against 0 (found %d)" % len(zsw), b.loc(rt["line"]))
    if len(zsw) == 1:
        zbb, zero_t, nonzero_t = zsw[0]
        kz = b.ret_kinds(zero_t)
        if kz != {"Err"}:
            # through an inlined helper the Err value reaches the caller's `?`: decide the exits variant-sensitively
            kv = b.ret_kinds_v(zero_t)
            if kv and kv <= {"Err", "residual"}:
                kz = {"Err"}
        rep.check("R5.2", "%s:zero-is-disconnect:%d" % (impl, n), kz == {"Err"}, "a transport read of 0 bytes must return Err(Disconnected) (found exits %s)" % sorted(kz), b.loc(rt["line"]),
                  sample={"impl": impl, "zero_exits": sorted(kz)})
        disc = False
        for i in b.reach(zero_t, avoid_edges={(zbb, nonzero_t)}):
            for st in b.blocks[i]["stmts"]:
                if st["k"] == "assign" and st["rv"]["k"] == "agg" and st["rv"].get("adt") == "insim::error::Error" and st["rv"]["vname"] == "Disconnected":
                    disc = True
        rep.check("R5.2", "%s:disconnected-variant:%d" % (impl, n), disc, "the zero-read exit must construct Error::Disconnected", b.loc(rt["line"]), nontrivial=False)
        # a non-zero read goes on (back to decode): it must not return without having tried to decode, and must not be an error
        kn = b.ret_kinds(nonzero_t)
        dblocks = {bb for bb, _t in b.calls_to(r"Codec::decode$")}
        rblocks = {bb for bb, t2 in b.calls() if (callee(t2)[0] or "").endswith("framed::Framed::read_buf")}
        esc = b.reach_v(avoid_blocks=dblocks, via=nonzero_t, avoid_after=rblocks)
        rets = [i for i in esc if b.blocks[i]["term"] and b.blocks[i]["term"]["k"] == "return"]
        rep.check("R5.2", "%s:nonzero-continues:%d" % (impl, n), not rets,
                  "after a non-zero read the function can return without running decode on the new bytes (exits %s)" % sorted(kn), b.loc(rt["line"]))
    rep.check("R5.2", "%s:error-returned:%d" % (impl, n), b.error_returned(rbb), "a transport error must be returned to the caller", b.loc(rt["line"]))


def _chain(o):
    x = o
    for _ in range(30):
        if not isinstance(x, tuple) or not x:
            return
        yield x
        if x[0] in ("field", "downcast", "deref", "ref"):
            x = x[1]
        elif x[0] == "cast":
            x = x[4]
        else:
            return


def read_buf_rules(ctx, rep, impl):
    is_async = impl == "tokio"
    b = net.body(ctx, rep, "R5.3", impl, "read_buf")
    if b is None:
        return
    reads = [(bb, t) for bb, t in b.calls() if t["args"] and is_self_field(b.origin(t["args"][0]), "inner")]
    adv = b.calls_to(r"BufMut::advance_mut$")
    chk = b.calls_to(r"BufMut::chunk_mut$")
    rep.check("R5.3", "%s:anchors" % impl, len(reads) == 1 and len(adv) == 1 and len(chk) == 1,
              "%s read_buf: expected one transport call, one chunk_mut, one advance_mut (found %d/%d/%d)" % (impl, len(reads), len(chk), len(adv)), b.loc())
    if not (len(reads) == 1 and len(adv) == 1 and len(chk) == 1):
        return
    rbb, rt = reads[0]
    d = callee(rt)[0]
    want = "tokio::io::util::async_read_ext::AsyncReadExt::read" if is_async else "std::io::Read::read"
    rep.check("R5.3", "%s:read-api" % impl, d == want, "the transport call must be %s (found %s): read_exact/read_to_end would block past a frame or lose bytes on error" % (want, d),
              b.loc(rt["line"]), sample={"impl": impl, "callee": d})
    abb, at = adv[0]
    ao = b.origin(at["args"][1])
    tr = net.try_of(b, rbb, is_async)
    src_ok = tr is not None and ao[0] == "downcast" and ao[3] == "Continue" and ao[1][0] == "call" and ao[1][4] == tr[0] or \
        (tr is not None and ao[0] == "field" and ao[1][0] == "downcast" and ao[1][3] == "Continue" and ao[1][1][0] == "call" and ao[1][1][4] == tr[0])
    rep.check("R5.3", "%s:advance-by-count" % impl, bool(src_ok) and is_self_field(b.origin(at["args"][0]), "buffer"),
              "advance_mut must be given exactly the transport's returned count (found %s)" % fmt_origin(ao), b.loc(at["line"]), sample={"impl": impl, "advance_by": fmt_origin(ao)})
    if tr:
        rep.check("R5.3", "%s:advance-on-success-only" % impl, abb not in b.reach(tr[3]) and abb in b.reach(tr[2]),
                  "advance_mut must be applied on the success edge only", b.loc(at["line"]))
        err_calls = [callee(t)[0] for i in b.reach(tr[3]) for t in [b.blocks[i]["term"]] if t and t["k"] == "call" and t["args"] and "buffer" in str(b.origin(t["args"][0]))[:300]]
        rep.check("R5.3", "%s:error-leaves-buffer" % impl, not err_calls and b.ret_kinds(tr[3]) == {"residual"},
                  "the error edge must return without touching the buffer (calls %s)" % err_calls, b.loc(rt["line"]))
    # spare capacity slice: from_raw_parts_mut(chunk.as_mut_ptr(), chunk.len()) of the same chunk_mut call
    so = strip_refs(b.origin(rt["args"][1]))
    ok = so[0] == "call" and so[1].endswith("from_raw_parts_mut")
    if ok:
        p, l = so[3][0], so[3][1]
        cb = chk[0][0]
        ok = p[0] == "call" and p[1].endswith("as_mut_ptr") and l[0] == "call" and l[1].endswith("UninitSlice::len") and net.mentions_call_bb(p, cb) and net.mentions_call_bb(l, cb)
    rep.check("R5.3", "%s:slice-is-spare-capacity" % impl, ok, "the slice handed to the transport must be (chunk_mut().as_mut_ptr(), chunk_mut().len()) of one chunk (found %s)" % fmt_origin(so), b.loc(rt["line"]))
    if is_async:
        # no suspension between the completed transport read and advance_mut
        polls = net.awaited(b, rbb)
        ys = [i for i, bl in enumerate(b.blocks) if bl["term"] and bl["term"]["k"] == "yield"]
        between = set()
        if tr:
            between = b.reach(tr[2], avoid_blocks={abb})
        rep.check("R5.3", "%s:no-yield-before-advance" % impl, not (set(ys) & between) and len(polls) == 1,
                  "a suspension point lies between the transport read completing and advance_mut: cancelling there loses the bytes", b.loc(at["line"]))


def _helper_like(d, prefix):
    """a private helper of the Framed impl, or a helper both implementations share (free function of insim::net, Codec method
    other than the codec's entry points)"""
    import re
    if d.startswith(prefix) and not d.endswith(net.ANCHOR_METHODS):
        return True
    if re.match(r"^insim::net::[a-z_0-9]+$", d):
        return True
    return d.startswith("insim::net::codec::Codec::") and not d.endswith(net.CODEC_ENTRY)


def _param_mutators(ctx, fn, argno, prefix, depth):
    """callees outside MUTATORS_ALLOWED to which parameter `argno` of the helper fn is handed mutably (None: not decidable)"""
    from mirq import strip_refs
    hb = ctx.mir.body(fn)
    if hb is None or depth > 2:
        return None
    bad = []
    for bb, t in hb.calls():
        for ai, a in enumerate(t["args"]):
            o = strip_refs(hb.origin(a))
            while o[0] == "deref":
                o = strip_refs(o[1])
            if o != ("arg", argno) or "&mut" not in t["argtys"][ai]:
                continue
            d = callee(t)[0]
            if d in MUTATORS_ALLOWED:
                continue
            if d and _helper_like(d, prefix) and ctx.mir.body(d) is not None:
                sub = _param_mutators(ctx, d, ai + 1, prefix, depth + 1)
                if sub is None:
                    return None
                bad.extend(sub)
            else:
                bad.append(d)
    return bad


def mutators(ctx, rep, impl):
    """R5.4: who may touch self.buffer, over every method of the Framed impl"""
    prefix = net.IMPLS[impl]["framed"] + "::"
    n = 0
    for name in ctx.mir.bodies:
        if not name.startswith(prefix) or ("#promoted" in name) != (impl == "tokio" and "{closure#0}" in name):
            if not name.startswith(prefix):
                continue
            # tokio: analyse the promoted coroutine bodies and the plain (non-async) methods; skip post-transform closures
            if impl == "tokio" and "{closure#0}" in name and not name.endswith("#promoted"):
                continue
        b = ctx.mir.body(name)
        for bb, t in b.calls():
            for ai, a in enumerate(t["args"]):
                o = b.origin(a)
                if not is_self_field(o, "buffer"):
                    continue
                d = callee(t)[0]
                n += 1
                mutable = "&mut" in t["argtys"][ai]
                if mutable:
                    ok = d in MUTATORS_ALLOWED
                    why = "self.buffer is handed mutably to %s; only Codec::decode, chunk_mut and advance_mut may change the receive buffer" % d
                    if not ok and d and _helper_like(d, prefix) and ctx.mir.body(d) is not None:
                        # a private helper of the same impl that receives the buffer: it may do with its parameter only what the impl may
                        bad_in_helper = _param_mutators(ctx, d, ai + 1, prefix, 0)
                        ok = bad_in_helper is not None and not bad_in_helper
                        why = "self.buffer is handed mutably to the helper %s, which changes it through %s" % (d, bad_in_helper)
                else:
                    ok = True
                    why = ""
                ordinal = len([1 for i in rep.instances if i["key"].startswith("R5.4:%s:%s:" % (name, (d or "?").split("::")[-1]))])
                rep.check("R5.4", "%s:%s:%d" % (name, (d or "?").split("::")[-1], ordinal), ok, why, b.loc(t["line"]), nontrivial=mutable,
                          sample={"function": name, "callee": d, "mutable": mutable} if mutable else None)
        # direct assignments to self.buffer outside `new`
        for bl in b.blocks:
            for st in bl["stmts"]:
                if st["k"] == "assign" and st["place"]["p"]:
                    names = [p.get("name") for p in st["place"]["p"] if isinstance(p, dict)]
                    if "buffer" in names and not name.endswith("::new"):
                        rep.fail("R5.4", "%s:assign" % name, "self.buffer is overwritten in %s" % name, b.loc(st["line"]))
    rep.check("R5.4", "%s:sites" % impl, n >= 4, "expected at least 4 uses of self.buffer in the %s Framed impl (found %d)" % (impl, n), None, nontrivial=False)
