"""C19 — cancelling a pending async read loses nothing (suspension-state analysis on coroutine layouts)."""
import json
import os

from core import VERIF
from mirq import callee
from props import net

THOROUGH_CONFIGS = ["default", "blocking", "websocket", "all"]

EXPLANATION = (
    "A6: rustc's CoroutineLayout of the tokio Framed::read future gives, for every suspension point, the locals that stay alive "
    "while the future is parked. R19.1: at every suspension point of read (recursively through the workspace coroutines it awaits) "
    "the saved state must not contain, by value, a decoded Packet or a byte container (Bytes, BytesMut, Vec) and no dependency future "
    "that tokio documents as not cancel-safe (WriteAllBuf, WriteAll, ReadExact, ...): anything parked there is destroyed when the "
    "read future is dropped by select!, while the connection buffer (reached through &mut self) survives. R19.2: read_buf awaits only "
    "AsyncReadExt::read (cancel-safe) and commits the bytes with advance_mut before any further suspension. R19.3: the adaptors' "
    "poll_read return Pending only on their source's own Pending edge, before any byte was consumed into a local. Bytes leave the async "
    "receive buffer only through the decoder (who-may-shorten rule shared with C05). Not decided: "
    "exhaustive schedule equivalence; behaviour of external transports under cancellation."
)


def load():
    with open(os.path.join(VERIF, "spec", "cancel_safety.json")) as fh:
        return json.load(fh)


def awaitee_name(v):
    for s in v["saved"]:
        if s["name"] == "__awaitee":
            for a in s["adts"]:
                if a.startswith("coroutine:"):
                    return a.split("coroutine:")[1].replace("::{closure#0}", "").split("::")[-1]
            for a in s["adts"]:
                if not a.startswith(("dyn:", "closure:")):
                    return a.split("::")[-1]
    return "?"


def short(n):
    return n.replace("::{closure#0}", "").split("::")[-1]


def suspensions(ctx, rep, name, tbl):
    """suspension records of one coroutine: awaitee, nested workspace coroutines held in the awaitee, what is held by value"""
    raw = ctx.mir.bodies.get(name)
    if raw is None or not raw.get("layout"):
        return None
    rep.fn(name)
    out = []
    for v in raw["layout"]:
        if not v["saved"]:
            continue
        held = set()
        nested = []
        for s in v["saved"]:
            for a in s["adts"]:
                if a.startswith("coroutine:insim"):
                    nested.append(a.split("coroutine:")[1])
                held.add(a)
        out.append({
            "aw": awaitee_name(v), "loc": "%s:%s" % (v["at"]["file"], v["at"]["line"]), "nested": nested,
            "carriers": sorted(a for a in held if a in tbl["data_carriers"] and a != "alloc::string::String"),
            "unsafe": sorted(a for a in held if a in tbl["unsafe"]),
            "unknown": sorted(a for a in held if ("tokio::io::util::" in a or "tokio::time::" in a) and a not in tbl["safe"] and a not in tbl["unsafe"] and a not in tbl["transparent"]
                              and a not in tbl.get("inert", ())),
            "saved": [s["ty"][:90] for s in v["saved"]]})
    return out


def leaves(ctx, rep, name, tbl, depth=0, seen=()):
    """flatten a workspace coroutine into its dependency-future suspensions; what intermediate private coroutines hold while
    they wait is added to every leaf below them, so extracting a helper `async fn` does not change the result"""
    if name in seen or depth > 5:
        return []
    sus = suspensions(ctx, rep, name, tbl)
    if sus is None:
        return None
    out = []
    for v in sus:
        if v["nested"]:
            for n in v["nested"]:
                sub = leaves(ctx, rep, n, tbl, depth + 1, seen + (name,))
                if sub is None:
                    return None
                for lf in sub:
                    out.append(dict(lf, carriers=sorted(set(lf["carriers"]) | set(v["carriers"])), unsafe=sorted(set(lf["unsafe"]) | set(v["unsafe"])),
                                    unknown=sorted(set(lf["unknown"]) | set(v["unknown"]))))
        else:
            out.append(v)
    return out


def check_coroutine(ctx, rep, name, label, tbl):
    """R19.1 over the suspension points of the read future; instance keys name the root, the workspace coroutine awaited by
    the root (first hop) and the dependency future finally awaited - not the chain of private helpers in between"""
    sus = suspensions(ctx, rep, name, tbl)
    if sus is None:
        rep.fail("R19.1", "%s:layout" % label, "coroutine layout of %s not found" % name)
        return
    for v in sus:
        # leaves below this suspension (dependency futures finally awaited through workspace coroutines)
        merged = {}
        for n in v["nested"]:
            sub = leaves(ctx, rep, n, tbl, 1, (name,))
            if sub is None:
                rep.fail("R19.1", "%s:layout:%s" % (label, short(n)), "coroutine layout of %s not found" % n)
                continue
            for lf in sub:
                m = merged.setdefault(lf["aw"], {"carriers": set(), "unsafe": set(), "unknown": set(), "loc": lf["loc"], "saved": lf["saved"]})
                m["carriers"] |= set(lf["carriers"])
                m["unsafe"] |= set(lf["unsafe"])
                m["unknown"] |= set(lf["unknown"])
        # the suspension is named by what is finally awaited there, not by the (private) coroutines in between
        what = "+".join(sorted(merged)) if merged else v["aw"]
        key = "%s:holds-at(%s)" % (label, what)
        rep.check("R19.1", key + ":no-data-parked", not v["carriers"],
                  "while %s is suspended waiting for %s (`%s.await`) it holds %s by value: dropping the read future there (a select! tick) destroys data already removed from the connection buffer" % (label, what, v["aw"], v["carriers"]),
                  v["loc"], sample={"coroutine": label, "await": v["aw"], "finally_awaits": what, "saved": v["saved"]})
        for u in v["unsafe"]:
            rep.fail("R19.1", key + ":unsafe-future:" + u.split("::")[-1],
                     "while %s is suspended at `%s.await` it holds %s, which tokio documents as not cancel-safe (a partially written frame stays on the wire)" % (label, v["aw"], u), v["loc"])
        rep.check("R19.1", key + ":futures-classified", not v["unknown"], "unclassified dependency futures held across `%s.await`: %s" % (v["aw"], v["unknown"]), v["loc"], nontrivial=False)
        for aw, m in sorted(merged.items()):
            k2 = "%s:below(%s)" % (label, aw)
            rep.check("R19.1", k2 + ":no-data-parked", not m["carriers"],
                      "while %s waits for %s, the coroutine(s) it awaits hold %s by value: dropping the read future there (a select! tick) destroys data already removed from the connection buffer" % (label, aw, sorted(m["carriers"])),
                      m["loc"], sample={"coroutine": label, "await": aw, "saved": m["saved"]})
            for u in sorted(m["unsafe"]):
                rep.fail("R19.1", k2 + ":unsafe-future:" + u.split("::")[-1],
                         "while %s waits for %s it (transitively) holds %s, which tokio documents as not cancel-safe (a partially written frame stays on the wire)" % (label, aw, u), m["loc"])
            rep.check("R19.1", k2 + ":futures-classified", not m["unknown"], "unclassified dependency futures held across `%s.await`: %s" % (aw, sorted(m["unknown"])), m["loc"], nontrivial=False)


def run(ctx, rep):
    rep.explanation = EXPLANATION
    rep.assumptions = ["tokio's documented cancel-safety of AsyncReadExt::read, timeout, write_all_buf (spec/cancel_safety.json)",
                       "rustc's coroutine layout lists every local live across each suspension point"]
    if "tokio" not in net.impls_present(ctx):
        rep.notes.append("tokio not part of configuration %s" % ctx.config)
        return
    tbl = load()
    check_coroutine(ctx, rep, "insim::net::tokio_impl::framed::Framed::read::{closure#0}", "read", tbl)
    rep.floor("R19.1", 4)
    # R19.2 read_buf
    b = net.body(ctx, rep, "R19.2", "tokio", "read_buf")
    if b is not None:
        from mirq import is_self_field
        reads = [(bb, t) for bb, t in b.calls() if t["args"] and is_self_field(b.origin(t["args"][0]), "inner")]
        d = callee(reads[0][1])[0] if len(reads) == 1 else None
        rep.check("R19.2", "read_buf:cancel-safe-read", d == "tokio::io::util::async_read_ext::AsyncReadExt::read",
                  "read_buf must await AsyncReadExt::read only (found %s)" % [callee(t)[0] for _b, t in reads], b.loc(), sample={"callee": d})
        ys = [i for i, bl in enumerate(b.blocks) if bl["term"] and bl["term"]["k"] == "yield"]
        adv = b.calls_to(r"BufMut::advance_mut$")
        rep.check("R19.2", "read_buf:one-suspension", len(ys) == 1 and len(adv) == 1 and not (set(ys) & b.reach(adv[0][1]["target"])) if adv else False,
                  "read_buf must suspend only while waiting for the transport and never after advance_mut (yields %s)" % ys, b.loc())
        if len(reads) == 1 and adv:
            tr = net.try_of(b, reads[0][0], True)
            between = b.reach(tr[2], avoid_blocks={adv[0][0]}) if tr else set(ys)
            rep.check("R19.2", "read_buf:commit-before-yield", tr is not None and not (set(ys) & between),
                      "a suspension point lies between the completed transport read and advance_mut", b.loc(adv[0][1]["line"]))
    # R19.3 adaptors
    for name, src, tag in (("<insim::net::tokio_impl::udp::UdpStream as tokio::io::async_read::AsyncRead>::poll_read", r"UdpSocket::poll_recv", "udp"),
                           ("<insim::net::tokio_impl::websocket::WebsocketStream as tokio::io::async_read::AsyncRead>::poll_read", r"Stream::poll_next$", "websocket")):
        if tag == "websocket" and ctx.config not in ("default", "all", "websocket"):
            continue
        pb = ctx.mir.body(name)
        if pb is None:
            rep.fail("R19.3", "%s:found" % tag, "%s not found" % name)
            continue
        rep.fn(name)
        from mirq import inline_calls
        modp = name[1:].split(" as ")[0].rsplit("::", 1)[0] + "::"
        pb = inline_calls(pb, lambda d, modp=modp: d.startswith(modp) and "{closure" not in d and " as " not in d, depth=3)
        srcs = pb.calls_to(src)
        ok = len(srcs) == 1
        pend = 0
        if ok:
            # on the path table: every path that returns Pending took the source's own Pending answer (tests of one discriminant
            # that contradict each other come from the match lowering and are not paths of the program)
            sbb = srcs[0][0]
            try:
                rows = pb.decision_rows()
            except Exception:
                rows = None
            ok = rows is not None
            for conds, ret, _o in rows or ():
                if ret[1] != "Pending":
                    continue
                allowed = None
                feasible = True
                for c in conds:
                    o = c[4]
                    if o[0] == "discr" and o[1][0] == "call" and len(o[1]) > 4 and o[1][4] == sbb:
                        if c[2] == "eq":
                            allowed = set(c[3]) if allowed is None else allowed & set(c[3])
                        elif c[2] == "ne" and allowed is not None:
                            allowed = allowed - set(c[3])
                        elif c[2] == "ne":
                            allowed = {0, 1} - set(c[3])
                        if not allowed:
                            feasible = False
                if not feasible:
                    continue
                pend += 1
                if allowed != {1}:
                    ok = False
            ok = ok and pend >= 1
        rep.check("R19.3", "%s:pending-only-from-source" % tag, ok, "%s poll_read may return Pending after it has consumed data into a local" % tag, pb.loc(), sample={"adaptor": tag, "pending_blocks": pend})
    rep.floor("R19.3", 1)
    # "no partial frame is left on the outgoing side": the async write hands one contiguous buffer - the result of one encode -
    # to one complete-write call (C06's R6.1 / R6.2 for the tokio implementation); two buffers or two calls would put a
    # suspension point inside a frame
    from props import c06
    c06.write_rules(ctx, rep, only="tokio")
    # "no received byte is lost": bytes leave the async receive buffer only through the decoder - a clear / truncate / reassignment
    # of self.buffer on the path that resumes after a dropped read throws away the head of a frame (C05's R5.4 for tokio)
    from props import c05
    c05.mutators(ctx, rep, "tokio")
