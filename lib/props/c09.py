"""C09 — InSim version gate accepts version 9 only, and only when enabled."""
from mirq import callee, fmt_origin, is_self_field, origin_calls, strip_refs
from props import net

THOROUGH_CONFIGS = ["default", "blocking", "websocket", "all"]

EXPLANATION = (
    "R9.1: Packet::maybe_verify_version extracted from MIR as a decision table: Err(IncompatibleVersion(x)) iff variant Ver and "
    "insimver != VERSION with x that very field; Ok otherwise; VERSION = 9 by const evaluation. R9.2: in both read loops the gate call "
    "is dominated by the true edge of a test of self.verify_version, inspects the packet just decoded, its Err is propagated with `?`, "
    "it lies on every path from the enabled edge to `return Ok(packet)`, and between decode and return the only error exits are the "
    "gate and the keep-alive reply. The builder forwards its verify_version flag to the connection in the TCP/UDP branches. IS_VER's layout "
    "equals the specification's on both sides, so the compared value is the reported InSimVer byte. "
    "Not decided: histories beyond one packet (the loop returns after each delivered packet)."
)


def run(ctx, rep):
    rep.explanation = EXPLANATION
    rep.assumptions = ["constant operands as evaluated by rustc"]
    table(ctx, rep)
    for impl in net.impls_present(ctx):
        loop_rules(ctx, rep, impl)
        flag_writers(ctx, rep, impl)
    from props import c18
    c18.connect(ctx, rep, flag_only=True)
    constructors(ctx, rep)
    ver_layout(ctx, rep)
    rep.floor("R9.2", 4 * len(net.impls_present(ctx)))
    rep.floor("R9.3", 2 * len(net.impls_present(ctx)))


def ver_layout(ctx, rep):
    """R9.6 "carrying that value": the number the gate compares is the one the host reported - IS_VER's fields sit where the
    specification puts them on both sides (C02's layout comparison, for the version packet), so `insimver` is the one InSimVer
    byte and nothing else (a wider read would fold the spare byte into it)"""
    from props.c02 import compare_seq
    from props.packets import norm, packet_variants, show
    ent, variants = packet_variants(ctx)
    vs = [v for v in (variants or []) if ctx.spec.bind["packet"].get(v["variant"]) == "VER"]
    if len(vs) != 1 or vs[0]["lay"] is None:
        rep.fail("R9.6", "Ver:found", "the IS_VER packet variant / its payload struct was not found")
        return
    v = vs[0]
    sseg = ctx.spec.segs(ctx.spec.packets["VER"]["tokens"])
    lay = v["lay"]
    loc = ctx.loc(lay["ent"]) if lay.get("ent") else v["loc"]
    for side in ("read", "write"):
        code = norm(lay[side], side, ctx.wire)
        diff = compare_seq(code, sseg, v["variant"], side == "read")
        rep.check("R9.6", "Ver:%s" % side, diff is None, "IS_VER %s-side layout differs from the specification: %s | code: %s | spec: %s" % (side, diff, show(code), show(sseg)),
                  loc, sample={"packet": "VER", "side": side, "code": show(code)})


GATE = "insim::packet::Packet::maybe_verify_version"


def constructors(ctx, rep):
    """R9.5 who-may-construct: Error::IncompatibleVersion is built only by the gate (or a helper that only the gate calls):
    the flag decides whether the gate runs (R9.2), so no other code may reject a peer's version."""
    import panics
    sites = []
    for n in sorted(ctx.mir.bodies):
        if n.endswith("#promoted") and n[:-len("#promoted")] in ctx.mir.bodies and not ctx.mir.bodies[n[:-len("#promoted")]].get("coroutine"):
            continue
        raw = ctx.mir.bodies[n]
        for bl in raw["blocks"]:
            for st in bl["stmts"]:
                if st["k"] == "assign" and st["rv"]["k"] == "agg" and st["rv"].get("agg") == "adt" and st["rv"].get("adt") == "insim::error::Error" \
                        and st["rv"].get("vname") == "IncompatibleVersion":
                    # a copy of an existing IncompatibleVersion value (derived Clone) constructs nothing new
                    bb_ = ctx.mir.body(n)
                    x = bb_.origin(st["rv"]["ops"][0]) if bb_ is not None and st["rv"]["ops"] else None
                    for _ in range(6):
                        if x is None:
                            break
                        if x[0] in ("ref", "deref"):
                            x = x[1]
                        elif x[0] == "call" and (x[1] or "").endswith("Clone::clone") and x[3]:
                            x = x[3][0]
                        else:
                            break
                    if x is not None and x[0] == "field" and x[1][0] == "downcast" and x[1][3] == "IncompatibleVersion":
                        continue
                    sites.append((n.split("#")[0], st.get("line")))
    rep.check("R9.5", "constructed", len(sites) >= 1, "no construction of Error::IncompatibleVersion found (anchor lost)", None, nontrivial=False)
    for fn, line in sorted(set(sites)):
        f = fn.split("::{closure")[0]
        ok = f == GATE
        g = f
        for _ in range(3):
            if ok:
                break
            g = panics.sole_caller(ctx.mir, g)
            if g is None:
                break
            ok = g == GATE
        b = ctx.mir.body(fn)
        rep.check("R9.5", "constructor:%s" % f, ok,
                  "Error::IncompatibleVersion is constructed in %s: only Packet::maybe_verify_version (which read() calls under the verify_version flag) may reject a version" % f,
                  b.loc(line) if b is not None else None, sample={"function": f})
    rep.floor("R9.5", 2)


def table(ctx, rep):
    b = ctx.mir.body("insim::packet::Packet::maybe_verify_version")
    if b is None:
        rep.fail("R9.1", "found", "Packet::maybe_verify_version not found")
        return
    rep.fn(b.name)
    from mirq import inline_calls
    b = inline_calls(b, lambda d: d.startswith("insim::") or d.startswith("<insim::"), depth=3)
    ver = ctx.mir.const_val("insim::VERSION")
    rep.check("R9.1", "VERSION=9", ver == 9, "insim::VERSION must be 9 (found %s)" % ver, b.loc(), sample={"VERSION": ver})
    pk = ctx.mir.enums.get("insim::packet::Packet")
    ver_idx = [v["idx"] for v in pk["variants"] if v["name"] == "Ver"] if pk else []
    if not ver_idx:
        rep.fail("R9.1", "anchors", "Packet::Ver not found")
        return
    rows = b.decision_rows()
    errs = [r for r in rows if r[1][1] == "Err"]
    oks = [r for r in rows if r[1][1] == "Ok"]
    other = [r for r in rows if r[1][1] not in ("Ok", "Err")]
    rep.check("R9.1", "rows", len(errs) == 1 and len(oks) >= 2 and not other, "expected one rejecting row and Ok otherwise (Err rows %d, other %s)" % (len(errs), other), b.loc(),
              sample={"rows": [[list(map(list, r[0])), list(r[1])] for r in sorted(rows)]})
    if len(errs) == 1:
        conds = {(c[1], c[2], c[3]) for c in errs[0][0]}
        want = {("discr(*arg1)", "eq", (ver_idx[0],)), ("*arg1 as Ver.0.insimver", "ne", (ver,))}
        rep.check("R9.1", "reject-conditions", conds == want,
                  "rejection must require exactly: variant Ver and insimver != %s; found %s" % (ver, sorted(conds)), b.loc(), sample={"conditions": sorted(map(list, conds))})
        from mirq import simplify, fmt_origin as _fmt
        shown = tuple(_fmt(simplify(x)) for x in errs[0][1][3]) if len(errs[0][1]) > 3 and errs[0][1][3] else errs[0][1][2]
        rep.check("R9.1", "reject-value", shown == ("IncompatibleVersion{*arg1 as Ver.0.insimver}",) or errs[0][1][2] == ("IncompatibleVersion{*arg1 as Ver.0.insimver}",),
                  "the error must carry the received InSim version; found %s" % (errs[0][1][2],), b.loc())
    for n, r in enumerate(sorted(oks)):
        conds = [(c[1], c[2], c[3]) for c in r[0]]
        okc = ("discr(*arg1)", "ne", (ver_idx[0],)) in conds or any(("insimver" in c[0]) for c in conds)
        rep.check("R9.1", "ok-row:%d" % n, okc, "an accepting row is not explained by `not Ver` or `insimver == VERSION`: %s" % conds, b.loc(), nontrivial=False)


def loop_rules(ctx, rep, impl):
    """multi-site formulation (private helpers are inlined): any number of gate calls, flag tests, decode and return sites"""
    is_async = impl == "tokio"
    b = net.body(ctx, rep, "R9.2", impl, "read")
    if b is None:
        return
    G = b.calls_to(r"Packet::maybe_verify_version$")
    DEC = b.calls_to(r"Codec::decode$")
    oks = net.packet_ok_returns(b)
    F = b.switch_on(lambda o: is_self_field(o, "verify_version"))
    rep.check("R9.2", "%s:anchor" % impl, len(G) >= 1 and len(F) >= 1 and len(DEC) >= 1 and len(oks) >= 1,
              "%s read: expected gate call(s), test(s) of self.verify_version, decode and `return Ok(packet)` sites (found %d / %d / %d / %d)" % (impl, len(G), len(F), len(DEC), len(oks)), b.loc(),
              sample={"impl": impl, "gate_sites": len(G), "flag_tests": len(F), "decode_sites": len(DEC), "packet_returns": len(oks)})
    if not (G and F and DEC and oks):
        return
    on_edges, off_edges = set(), set()
    for sbb, targets, otherwise, _o in F:
        off_t = targets.get(0)
        on_t = otherwise if off_t is not None else targets.get(1)
        if off_t is None:
            off_t = otherwise
        on_edges.add((sbb, on_t))
        off_edges.add((sbb, off_t))
    gblocks = {bb for bb, _t in G}
    dblocks = {bb for bb, _t in DEC}
    for n, (gbb, gt) in enumerate(G):
        go = b.origin(gt["args"][0])
        rep.check("R9.2", "%s:gate-of-decoded:%d" % (impl, n), b.may_mention(go, r"Codec::decode$"),
                  "the gate must inspect the packet just decoded (origin %s)" % fmt_origin(go), b.loc(gt["line"]))
        rep.check("R9.2", "%s:only-when-enabled:%d" % (impl, n), gbb not in b.reach(0, avoid_edges=on_edges),
                  "the gate is reachable with verification disabled", b.loc(gt["line"]))
        rep.check("R9.2", "%s:error-propagated:%d" % (impl, n), b.error_returned(gbb),
                  "the gate's Err must be returned with `?`", b.loc(gt["line"]))
    # with verification enabled no decoded packet reaches the caller without passing a gate
    for n, (dbb, dt) in enumerate(DEC):
        esc = b.reach_v(avoid_blocks=gblocks, avoid_edges=off_edges, via=dbb, avoid_after=dblocks)
        rep.check("R9.2", "%s:always-when-enabled:%d" % (impl, n), not (set(oks) & esc),
                  "with verification enabled a packet can be returned without passing the gate", b.loc(dt["line"]), sample={"impl": impl, "decode_block": dbb})
    # value-preserving plumbing: the error (if any) that comes out is the one that went in
    plumbing = ("Try::branch", "Future::poll", "new_unchecked", "into_future", "get_context", "{closure#0}",
                "Result::<T, E>::map", "Result::<T, E>::map_err", "convert::Into::into", "convert::From::from")

    def direct_sources(o, seen, depth=0):
        """the call(s) whose error value this residual carries (looking through `?`/await plumbing and phis)"""
        if depth > 25 or not isinstance(o, tuple):
            return set()
        k = o[0]
        if k == "call":
            if any(o[1].endswith(p_) or (o[2] or "").endswith(p_) for p_ in plumbing):
                out = set()
                for a in o[3][:1]:
                    out |= direct_sources(a, seen, depth + 1)
                return out
            if o[1].endswith("FromResidual::from_residual"):
                # a helper's own `?`: look at what it carried
                out = set()
                for a in o[3][:1]:
                    out |= direct_sources(a, seen, depth + 1)
                return out
            return {o[1]}
        if k == "phi":
            if o[1] in seen:
                return set()
            seen.add(o[1])
            out = set()
            for alt in b.phi_alternatives(o[1]):
                out |= direct_sources(alt, seen, depth + 1)
            return out
        if k in ("field", "downcast", "ref", "deref", "cast"):
            return direct_sources(o[4] if k == "cast" else o[1], seen, depth + 1)
        if k == "agg":
            out = set()
            for a in o[2]:
                out |= direct_sources(a, seen, depth + 1)
            return out
        return set()
    err_exits = []
    for bb, t in b.calls_to(r"FromResidual::from_residual$"):
        o = b.origin(t["args"][0])
        try:
            alts = b.alternatives(o) or [o]          # `(phi as Break.0)`: only the alternatives built as a failure carry an error
        except Exception:
            alts = [o]
        srcs = set()
        for a in alts:
            srcs |= direct_sources(a, set())
        err_exits.append((bb, sorted(srcs)))
    allowed = ("Codec::decode", "Packet::maybe_verify_version", "framed::Framed::write", "framed::Framed::read_buf", "tokio::time::timeout::timeout")
    bad = [(bb, s) for bb, s in err_exits if not (s and all(any(x.endswith(a) for a in allowed) for x in s))]
    rep.check("R9.2", "%s:no-other-rejection" % impl, not bad, "read has error exits that do not come from decode, the gate, the reply write or the transport read: %s" % bad, b.loc(),
              sample={"impl": impl, "error_exits": [s for _b, s in err_exits]})


def flag_writers(ctx, rep, impl):
    """R9.3 who-may-write: self.verify_version is set by the constructor (false) and by the setter (its argument) only;
    a read that changes the flag makes the gate depend on the packet history"""
    from mirq import strip_refs
    prefix = net.IMPLS[impl]["framed"] + "::"
    n = 0
    for name in sorted(ctx.mir.bodies):
        if not name.startswith(prefix):
            continue
        if impl == "tokio" and "{closure#0}" in name and not name.endswith("#promoted"):
            continue
        b = ctx.mir.body(name)
        for bl in b.blocks:
            for st in bl["stmts"]:
                if st["k"] == "assign" and st["place"]["p"] and any(isinstance(p, dict) and p.get("name") == "verify_version" for p in st["place"]["p"]):
                    n += 1
                    src = b.origin(st["rv"]["x"]) if st["rv"]["k"] == "use" else ("rv", st["rv"]["k"])
                    meth = name[len(prefix):].split("::")[0]
                    ok = meth == "verify_version" and strip_refs(src) == ("arg", 2)
                    rep.check("R9.3", "%s:%s:assign" % (impl, meth), ok,
                              "%s assigns self.verify_version (from %s): only the `verify_version(bool)` setter may change the flag, otherwise the gate depends on what was received before" % (name, fmt_origin(src)),
                              b.loc(st["line"]), sample={"function": name, "source": fmt_origin(src)})
                if st["k"] == "assign" and st["rv"]["k"] == "agg" and st["rv"].get("adt") == net.IMPLS[impl]["framed"]:
                    n += 1
                    i = st["rv"]["fields"].index("verify_version")
                    o = b.origin(st["rv"]["ops"][i])
                    rep.check("R9.3", "%s:new:initial" % impl, name.endswith("::new") and o[0] == "const" and o[1] == 0, "a connection must start with verification off until configured (found %s in %s)" % (fmt_origin(o), name),
                              b.loc(st["line"]), nontrivial=False)
        # a &mut borrow of the flag handed to a call
        for bb, t in b.calls():
            for a, ty in zip(t["args"], t.get("argtys") or []):
                if ty.startswith("&mut") and is_self_field(b.origin(a), "verify_version"):
                    rep.fail("R9.3", "%s:%s:borrowed" % (impl, name[len(prefix):]), "self.verify_version is lent mutably to %s" % callee(t)[0], b.loc(t["line"]))
