"""C09 — InSim version gate accepts version 9 only, and only when enabled."""
from mirq import callee, fmt_origin, is_self_field, origin_calls, strip_refs
from props import net

EXPLANATION = (
    "R9.1: Packet::maybe_verify_version extracted from MIR as a decision table: Err(IncompatibleVersion(x)) iff variant Ver and "
    "insimver != VERSION with x that very field; Ok otherwise; VERSION = 9 by const evaluation. R9.2: in both read loops the gate call "
    "is dominated by the true edge of a test of self.verify_version, inspects the packet just decoded, its Err is propagated with `?`, "
    "it lies on every path from the enabled edge to `return Ok(packet)`, and between decode and return the only error exits are the "
    "gate and the keep-alive reply. The builder forwards its verify_version flag to the connection in the TCP/UDP branches. "
    "Not decided: histories beyond one packet (the loop returns after each delivered packet)."
)


def run(ctx, rep):
    rep.explanation = EXPLANATION
    rep.assumptions = ["constant operands as evaluated by rustc"]
    table(ctx, rep)
    for impl in net.impls_present(ctx):
        loop_rules(ctx, rep, impl)
    rep.floor("R9.2", 5 * len(net.impls_present(ctx)))


def table(ctx, rep):
    b = ctx.mir.body("insim::packet::Packet::maybe_verify_version")
    if b is None:
        rep.fail("R9.1", "found", "Packet::maybe_verify_version not found")
        return
    rep.fn(b.name)
    ver = ctx.mir.const_val("insim::VERSION")
    rep.check("R9.1", "VERSION=9", ver == 9, "insim::VERSION must be 9 (found %s)" % ver, b.loc(), sample={"VERSION": ver})
    pk = ctx.mir.enums.get("insim::packet::Packet")
    ver_idx = [v["idx"] for v in pk["variants"] if v["name"] == "Ver"] if pk else []
    if not ver_idx:
        rep.fail("R9.1", "anchors", "Packet::Ver not found")
        return
    rows = b.decision_rows()
    errs = [r for r in rows if r[1][1] == "Err"]
    oks = [r for r in rows if r[1][1] == "Ok"]
    other = [r for r in rows if r[1][1] not in ("Ok", "Err")]
    rep.check("R9.1", "rows", len(errs) == 1 and len(oks) >= 2 and not other, "expected one rejecting row and Ok otherwise (Err rows %d, other %s)" % (len(errs), other), b.loc(),
              sample={"rows": [[list(map(list, r[0])), list(r[1])] for r in sorted(rows)]})
    if len(errs) == 1:
        conds = {(c[1], c[2], c[3]) for c in errs[0][0]}
        want = {("discr(*arg1)", "eq", (ver_idx[0],)), ("(*arg1 as Ver.0.insimver Ne %s)" % ver, "ne", (0,))}
        alt = {("discr(*arg1)", "eq", (ver_idx[0],)), ("(*arg1 as Ver.0.insimver Eq %s)" % ver, "eq", (0,))}
        rep.check("R9.1", "reject-conditions", conds in (want, alt),
                  "rejection must require exactly: variant Ver and insimver != %s; found %s" % (ver, sorted(conds)), b.loc(), sample={"conditions": sorted(map(list, conds))})
        rep.check("R9.1", "reject-value", errs[0][1][2] == ("IncompatibleVersion{*arg1 as Ver.0.insimver}",),
                  "the error must carry the received InSim version; found %s" % (errs[0][1][2],), b.loc())
    for n, r in enumerate(sorted(oks)):
        conds = [(c[1], c[2], c[3]) for c in r[0]]
        okc = ("discr(*arg1)", "ne", (ver_idx[0],)) in conds or any(("insimver" in c[0]) for c in conds)
        rep.check("R9.1", "ok-row:%d" % n, okc, "an accepting row is not explained by `not Ver` or `insimver == VERSION`: %s" % conds, b.loc(), nontrivial=False)


def loop_rules(ctx, rep, impl):
    is_async = impl == "tokio"
    b = net.body(ctx, rep, "R9.2", impl, "read")
    if b is None:
        return
    G = b.calls_to(r"Packet::maybe_verify_version$")
    rep.check("R9.2", "%s:anchor" % impl, len(G) == 1, "%s read: expected exactly one gate call (found %d)" % (impl, len(G)), b.loc(), sample={"impl": impl, "sites": len(G)})
    if len(G) != 1:
        return
    gbb, gt = G[0]
    go = b.origin(gt["args"][0])
    rep.check("R9.2", "%s:gate-of-decoded" % impl, any(c[1].endswith("Codec::decode") for c in origin_calls(go)),
              "the gate must inspect the packet just decoded (origin %s)" % fmt_origin(go), b.loc(gt["line"]))
    # enabled test: switch on self.verify_version
    sws = b.switch_on(lambda o: is_self_field(o, "verify_version"))
    rep.check("R9.2", "%s:flag-test" % impl, len(sws) == 1, "expected one test of self.verify_version (found %d)" % len(sws), b.loc())
    if len(sws) != 1:
        return
    sbb, targets, otherwise, _o = sws[0]
    off_t = targets.get(0)
    on_t = otherwise if off_t is not None else targets.get(1)
    rep.check("R9.2", "%s:only-when-enabled" % impl, gbb not in b.reach(0, avoid_edges={(sbb, on_t)}),
              "the gate is reachable with verification disabled", b.loc(gt["line"]))
    oks = net.packet_ok_returns(b)
    rep.check("R9.2", "%s:always-when-enabled" % impl, bool(oks) and not (set(oks) & b.reach(on_t, avoid_blocks={gbb})),
              "with verification enabled a packet can be returned without passing the gate", b.loc(gt["line"]))
    tr = b.try_of_call(gbb)
    rep.check("R9.2", "%s:error-propagated" % impl, tr is not None and "residual" in b.ret_kinds(tr[3]) and b.ret_kinds(tr[3]) <= {"residual"},
              "the gate's Err must be returned with `?`", b.loc(gt["line"]))
    # the disabled edge reaches the return without any packet-dependent error exit other than the pong write
    dec = b.calls_to(r"Codec::decode$")
    err_exits = []
    plumbing = ("Try::branch", "Future::poll", "new_unchecked", "into_future", "get_context", "{closure#0}")
    for bb, t in b.calls_to(r"FromResidual::from_residual$"):
        o = b.origin(t["args"][0])
        src = None
        for c in origin_calls(o):      # pre-order: outermost first
            if not any(c[1].endswith(p) or (c[2] or "").endswith(p) for p in plumbing):
                src = c[1]
                break
        err_exits.append((bb, src))
    allowed = ("Codec::decode", "Packet::maybe_verify_version", "framed::Framed::write", "framed::Framed::read_buf", "tokio::time::timeout::timeout")
    bad = [(bb, s) for bb, s in err_exits if not (s and any(s.endswith(a) for a in allowed))]
    rep.check("R9.2", "%s:no-other-rejection" % impl, not bad, "read has error exits that do not come from decode, the gate, the reply write or the transport read: %s" % bad, b.loc(),
              sample={"impl": impl, "error_exits": [s for _b, s in err_exits]})
    # the builder forwards its flag
