"""C20 — the WebSocket relay transport carries the same byte stream as TCP (adaptor clauses)."""
import re

from mirq import callee, fmt_origin, origin_calls, strip_refs
from props import c06, net

THOROUGH_CONFIGS = ["default", "blocking", "websocket", "all"]

EXPLANATION = (
    "R20.1 on the MIR of WebsocketStream::poll_read: the next message is polled only after the adaptor buffer was found empty (or the "
    "caller has no room); a Binary payload is appended whole to the adaptor buffer with Extend::extend (no truncation, no fixed-size "
    "copy) and the loop is re-entered; every other Ok message leaves the buffer untouched and re-enters the loop; end of stream "
    "returns Ready(Ok(())) with nothing written to the caller (0 bytes, which C05/R5.2 turns into Disconnected); Pending is returned "
    "only on poll_next's own Pending edge; errors are returned; the caller is served min(remaining, buffered) bytes taken from the "
    "front of the adaptor buffer; nothing else mutates that buffer. R20.2 = C06/R6.3 for the WebSocket writer (one binary message "
    "with the whole slice). R20.3 the relay builder wraps the WebSocket (and the TCP relay) in a Codec with Mode::Uncompressed. "
    "Not decided: tungstenite's behaviour; equivalence with TCP over all partitions is C05 plus these clauses."
)

NAME = "<insim::net::tokio_impl::websocket::WebsocketStream as tokio::io::async_read::AsyncRead>::poll_read"


def is_buf(o):
    x = strip_refs(o)
    # a newtype around the buffer (`struct Pending(BytesMut)`): `self.buf.0` is the buffer
    for _ in range(3):
        if x[0] == "field" and x[3] in ("0",) and isinstance(x[1], tuple):
            y = strip_refs(x[1])
            while y[0] == "deref":
                y = strip_refs(y[1])
            if y[0] == "field":
                x = y
                continue
        break
    return x[0] == "field" and x[3] == "buf"


def run(ctx, rep):
    rep.explanation = EXPLANATION
    rep.assumptions = ["tungstenite delivers message payloads completely and in order"]
    if "tokio" not in net.impls_present(ctx) or ctx.config == "blocking":
        rep.notes.append("websocket feature not part of configuration %s" % ctx.config)
        return
    b = ctx.mir.body(NAME)
    if b is None:
        rep.fail("R20.1", "found", "%s not found" % NAME)
        return
    rep.fn(NAME)
    # private helpers of the adaptor (e.g. a `drain` step) are analysed in place
    from mirq import inline_calls
    ib = inline_calls(b, lambda d: d.startswith("insim::net::tokio_impl::websocket::") and "{closure" not in d and "as tokio::io" not in d and "as std::io" not in d, depth=3)
    if ib is not b:
        rep.notes.append("R20.1: private helper(s) inlined into poll_read")
        b = ib
    P = b.calls_to(r"stream::Stream::poll_next$")
    E = [(bb, t) for bb, t in b.calls_to(r"Extend::extend$|BytesMut::extend_from_slice$") if is_buf(b.origin(t["args"][0]))]
    PS = b.calls_to(r"ReadBuf::<'a>::put_slice$")
    CB = [(bb, t) for bb, t in b.calls_to(r"Buf::copy_to_bytes$|BytesMut::split_to$") if is_buf(b.origin(t["args"][0]))]
    ok = len(P) == 1 and len(E) == 1 and len(PS) == 1 and len(CB) == 1
    rep.check("R20.1", "anchors", ok, "poll_read: expected one poll_next, one append to self.buf, one copy out of self.buf and one put_slice (found %s)" % [len(P), len(E), len(CB), len(PS)], b.loc(),
              sample={"counts": [len(P), len(E), len(CB), len(PS)]})
    if not ok:
        return
    (pbb, pt), (ebb, et), (sbb_, st_), (cbb, ct) = P[0], E[0], PS[0], CB[0]
    # (a) buffered bytes first
    edges = set()
    for sbb, targets, otherwise, o in b.switch_on(lambda o: (o[0] == "call" and o[1].endswith("BytesMut::is_empty") and is_buf(o[3][0]))):
        edges.add((sbb, otherwise))                       # is_empty() == true
    for sbb, targets, otherwise, o in b.switch_on(lambda o: (o[0] == "un" and o[1] == "Not" and o[2][0] == "call" and o[2][1].endswith("BytesMut::is_empty") and is_buf(o[2][3][0]))):
        edges.add((sbb, targets.get(0, otherwise)))       # !is_empty() is false
    CMP = ("Eq", "Ne", "Gt", "Lt", "Ge", "Le")

    def rem_cmp(o):
        return o[0] == "bin" and o[1] in CMP and ((o[2][0] == "call" and o[2][1].endswith("remaining") and o[3][0] == "const" and o[3][1] is not None) or
                                                  (o[3][0] == "call" and o[3][1].endswith("remaining") and o[2][0] == "const" and o[2][1] is not None))
    for sbb, targets, otherwise, o in b.switch_on(rem_cmp):
        # the edge taken when the caller has no room left (remaining() == 0), whatever the spelling: `> 0`, `== 0`, `< 1`, `!= 0`
        a, c = (0, o[3][1]) if o[2][0] == "call" else (o[2][1], 0)
        a1, c1 = (1, o[3][1]) if o[2][0] == "call" else (o[2][1], 1)
        f = {"Eq": lambda x, y: x == y, "Ne": lambda x, y: x != y, "Gt": lambda x, y: x > y, "Lt": lambda x, y: x < y, "Ge": lambda x, y: x >= y, "Le": lambda x, y: x <= y}[o[1]]
        if f(a, c) == f(a1, c1):
            continue
        f_t = targets.get(0, otherwise)
        t_t = otherwise if 0 in targets else targets.get(1, otherwise)
        edges.add((sbb, t_t if f(a, c) else f_t))
    bf_ok = len(edges) >= 1 and pbb not in b.reach_v(avoid_edges=edges)
    if not bf_ok:
        # the same clause on the path table: on every path, before the poll, a test found the adaptor buffer empty or the caller
        # without room (whatever bool temporaries the tests go through)
        try:
            prows = b.decision_rows(events=True)
        except Exception:
            prows = None

        def truth_of(c):
            if c[2] == "eq" and len(c[3]) == 1:
                return c[3][0] != 0
            if c[2] == "ne" and tuple(c[3]) == (0,):
                return True
            if c[2] == "ne" and tuple(c[3]) == (1,):
                return False
            return None

        def justifies(c):
            o = c[4]
            t = truth_of(c)
            if t is None:
                return False
            if o[0] == "call" and (o[1] or "").endswith("BytesMut::is_empty") and o[3] and is_buf(o[3][0]):
                return t is True
            if o[0] == "un" and o[1] == "Not" and o[2][0] == "call" and (o[2][1] or "").endswith("BytesMut::is_empty") and o[2][3] and is_buf(o[2][3][0]):
                return t is False
            if rem_cmp(o):
                f = {"Eq": lambda x, y: x == y, "Ne": lambda x, y: x != y, "Gt": lambda x, y: x > y, "Lt": lambda x, y: x < y, "Ge": lambda x, y: x >= y, "Le": lambda x, y: x <= y}[o[1]]
                a0, c0 = (0, o[3][1]) if o[2][0] == "call" else (o[2][1], 0)
                a1, c1 = (1, o[3][1]) if o[2][0] == "call" else (o[2][1], 1)
                return f(a0, c0) != f(a1, c1) and t == f(a0, c0)
            return False
        if prows is not None:
            polled = 0
            bf_ok = True
            for conds, ret, trace in prows:
                ip = [i for i, e in enumerate(trace) if e[0] == "call" and e[1] == pbb]
                if not ip:
                    continue
                polled += 1
                if not any(e[0] == "cond" and justifies(e) for e in trace[:ip[0]]):
                    bf_ok = False
            bf_ok = bf_ok and polled >= 1
    rep.check("R20.1", "buffered-first", bf_ok,
              "the next message is polled although buffered bytes could be delivered", b.loc(pt["line"]), sample={"justifying_edges": sorted(edges)})
    # (b)-(f) on the path table of one loop iteration (path-resolved: a helper that reports the polled message through a
    # value of its own, e.g. an enum, is seen through)
    from mirq import simplify
    try:
        rows = b.decision_rows(events=True)
    except Exception as ex:
        rep.fail("R20.1", "path-table", "path table of poll_read not extractable (%s)" % ex, b.loc())
        return

    def chain(o):
        """projection names from the value back to its source, looking through `?` (Continue = Ok, Break = Err) and map_err"""
        names = []
        x = o
        for _ in range(24):
            if x[0] == "field":
                x = x[1]
            elif x[0] == "downcast":
                names.append(x[3])
                x = x[1]
            elif x[0] in ("ref", "deref"):
                x = x[1]
            elif x[0] == "call" and (x[1] or "").endswith("ops::try_trait::Try::branch") and x[3]:
                if names and names[-1] in ("Continue", "Break"):
                    names[-1] = "Ok" if names[-1] == "Continue" else "Err"
                x = x[3][0]
            elif x[0] == "call" and re.search(r"Result::<T, E>::map_err$", x[1] or "") and x[3]:
                x = x[3][0]
            else:
                break
        return names, x

    def from_poll(o):
        names, root = chain(o)
        return names if root[0] == "call" and len(root) > 4 and root[4] == pbb else None
    def gather(events):
        """{projection chain from the polled value: (kind, values)}; None when two tests of one discriminant contradict"""
        ks = {}
        for e in events:
            if e[0] == "cond" and e[4][0] == "discr":
                nm = from_poll(simplify(e[4][1]))
                if nm is None:
                    continue
                k = tuple(nm)
                new = (e[2], tuple(e[3]))
                old = ks.get(k)
                if old is None:
                    ks[k] = new
                    continue
                if old[0] == "eq" and new[0] == "eq":
                    both = tuple(v for v in old[1] if v in new[1])
                    if not both:
                        return None
                    ks[k] = ("eq", both)
                elif old[0] == "eq" and new[0] == "ne":
                    rest = tuple(v for v in old[1] if v not in new[1])
                    if not rest:
                        return None
                    ks[k] = ("eq", rest)
                elif old[0] == "ne" and new[0] == "eq":
                    rest = tuple(v for v in new[1] if v not in old[1])
                    if not rest:
                        return None
                    ks[k] = ("eq", rest)
                else:
                    ks[k] = ("ne", tuple(sorted(set(old[1]) | set(new[1]))))
        return ks
    paths = []
    for conds, ret, trace in rows:
        ip = [i for i, e in enumerate(trace) if e[0] == "call" and e[1] == pbb]
        if not ip:
            continue
        after = trace[ip[0] + 1:]
        kinds = gather(after)
        if kinds is None:
            continue          # the match lowering tests one discriminant twice; contradictory answers = not a path of the program
        appends = [e for e in after if e[0] == "call" and (e[2] or "").endswith(("Extend::extend", "extend_from_slice")) and e[4] and is_buf(simplify(e[4][0]))]
        bufmut = [e for e in after if e[0] == "call" and e not in appends and any(is_buf(simplify(a)) and a[0] == "ref" for a in e[4])
                  and not (e[2] or "").endswith(("is_empty", "::len", "remaining", "has_remaining", "Deref::deref"))]
        outw = [e for e in after if e[0] == "call" and (e[2] or "").startswith("tokio::io::read_buf::ReadBuf")
                and (e[2] or "").split("::")[-1] in ("put_slice", "advance", "set_filled", "assume_init", "initialize_unfilled")]
        paths.append({"kinds": kinds, "appends": appends, "bufmut": bufmut, "outw": outw, "ret": ret, "line": pt["line"]})

    def is_(p, names, kind, val):
        c = p["kinds"].get(tuple(names))
        if c is None:
            return False
        if kind == "eq":
            # Poll / Option / Result have two variants: "not the other one" is "this one"
            two = len(names) < 3
            return (c[0] == "eq" and c[1] == (val,)) or (two and c[0] == "ne" and set((0, 1)) - set(c[1]) == {val})
        return (c[0] == "ne" and val in c[1]) or (c[0] == "eq" and val not in c[1])
    READY, SOME, OK_ = ((), "eq", 0), (("Ready",), "eq", 1), (("Some", "Ready"), "eq", 0)
    msg_paths = [p for p in paths if all(is_(p, *c) for c in (READY, SOME, OK_))]
    bin_paths = [p for p in msg_paths if p["appends"]]
    other_paths = [p for p in msg_paths if not p["appends"]]
    okb = len(bin_paths) >= 1
    detail = "no path appends the payload of a polled message to self.buf"
    for p in bin_paths:
        a = p["appends"]
        src = simplify(a[0][4][1]) if len(a) == 1 and len(a[0][4]) > 1 else None
        nm = from_poll(src) if src is not None else None
        if len(a) != 1 or nm is None or nm[:4] != ["Binary", "Ok", "Some", "Ready"] or len(nm) > 5:
            okb = False
            detail = "the Binary payload of the polled message must be appended whole to self.buf (appended: %s)" % ([fmt_origin(simplify(x[4][1]))[:80] for x in a if len(x[4]) > 1],)
    rep.check("R20.1", "binary-appended-whole", okb, detail, b.loc(et["line"]), sample={"paths_with_append": len(bin_paths), "append": callee(et)[0]})
    rep.check("R20.1", "binary-continues", bool(bin_paths) and all(p["ret"][1] == "loop" for p in bin_paths),
              "after appending a Binary payload the loop must be re-entered (exits %s)" % sorted({p["ret"][1] for p in bin_paths}), b.loc(et["line"]))
    kind_vals = {p["kinds"].get(("Ok", "Some", "Ready")) for p in bin_paths}
    rep.check("R20.1", "message-kind-match", len(kind_vals) == 1 and None not in kind_vals and all(k[0] == "eq" and len(k[1]) == 1 for k in kind_vals),
              "exactly one message kind (Binary) must lead to the append (kinds tested on appending paths: %s)" % sorted(kind_vals, key=str), b.loc(pt["line"]), nontrivial=False)
    rep.check("R20.1", "non-binary-ignored:0", bool(other_paths) and all(not p["bufmut"] and not p["outw"] and p["ret"][1] == "loop" for p in other_paths),
              "a non-binary message must be skipped without touching the buffer and the loop re-entered (exits %s, buffer calls %s)"
              % (sorted({p["ret"][1] for p in other_paths}), sorted({(e[2] or "") for p in other_paths for e in p["bufmut"]})), b.loc(pt["line"]),
              sample={"paths": len(other_paths)})
    none_paths = [p for p in paths if is_(p, *READY) and is_(p, ("Ready",), "eq", 0)]

    def ready_ok(ret):
        if ret[1] != "Ready" or len(ret) < 4 or not ret[3]:
            return False
        x = simplify(ret[3][0])
        return x[0] == "agg" and x[1][0] == "adt" and x[1][3] == "Ok"
    rep.check("R20.1", "end-of-stream", bool(none_paths) and all(ready_ok(p["ret"]) and not p["outw"] and not p["appends"] for p in none_paths),
              "end of stream must return Ready(Ok(())) with nothing written to the caller's buffer (exits %s)" % sorted({p["ret"][1] for p in none_paths}), b.loc(pt["line"]),
              sample={"paths": len(none_paths)})
    err_paths = [p for p in paths if is_(p, *READY) and is_(p, *SOME) and is_(p, ("Some", "Ready"), "eq", 1)]

    def ready_err(ret):
        if ret[1].startswith("call:") and "from_residual" in ret[1] and "task::poll::Poll" in ret[1]:
            return True          # `?` inside the poll function: Poll::Ready(Err(e.into()))
        if ret[1] != "Ready" or len(ret) < 4 or not ret[3]:
            return False
        x = simplify(ret[3][0])
        return x[0] == "agg" and x[1][0] == "adt" and x[1][3] == "Err"
    rep.check("R20.1", "errors-returned", bool(err_paths) and all(ready_err(p["ret"]) for p in err_paths),
              "an error of the websocket must be returned as Ready(Err(..)) (exits %s)" % sorted({p["ret"][1] for p in err_paths}), b.loc(pt["line"]))
    all_rows_pending = [r for r in rows if r[1][1] == "Pending"]
    pend_ok = bool(all_rows_pending)
    for conds, ret, trace in all_rows_pending:
        ks = gather(trace)
        if ks is None:
            continue
        c = ks.get(())
        if not (c is not None and c[0] == "eq" and c[1] == (1,)):
            pend_ok = False
    rep.check("R20.1", "pending-only-from-poll", pend_ok, "Pending must be returned only when poll_next itself is Pending", b.loc(pt["line"]))
    # who may mutate self.buf
    muts = []
    for bb, t in b.calls():
        for ai, a in enumerate(t["args"]):
            if is_buf(b.origin(a)) and t["argtys"][ai].startswith("&mut"):
                muts.append(callee(t)[0])
    allowed = {callee(et)[0], callee(ct)[0]}
    rep.check("R20.1", "only-append-and-serve", set(muts) <= allowed and len(muts) == 2, "self.buf is mutated by %s; only the append and the serve may" % muts, b.loc(), sample={"mutators": muts})
    # (g) serve min(remaining, buffered)
    co = b.origin(ct["args"][1])
    oks = co[0] == "call" and co[1].endswith("Ord::min") and {("remaining" in (a[1] if a[0] == "call" else "")) or ("len" in (a[1] if a[0] == "call" else "")) for a in co[3]} == {True}
    po = b.origin(st_["args"][1])
    oks = oks and any(c[4] == cbb for c in origin_calls(po))
    rep.check("R20.1", "serve-front", oks, "the caller must be given min(remaining, buffered) bytes taken from the front of self.buf (count %s)" % fmt_origin(co), b.loc(ct["line"]))
    rep.floor("R20.1", 7)
    # R20.2
    before = len(rep.instances)
    c06.adaptors(ctx, rep)
    keep = []
    for i in rep.instances[before:]:
        if i["rule"] == "R6.3" and "websocket" in i["key"]:
            i["rule"] = "R20.2"
            i["key"] = i["key"].replace("R6.3:", "R20.2:")
            keep.append(i)
    rep.instances[before:] = keep
    rep.floors.pop("R6.3", None)
    rep.floor("R20.2", 1)
    relay_mode(ctx, rep)


def relay_mode(ctx, rep):
    """R20.3: every Framed built for the relay uses Mode::Uncompressed"""
    names = ["insim::builder::Builder::_connect_relay::{closure#0}#promoted"]
    n = 0
    for name in names:
        b = ctx.mir.body(name)
        if b is None:
            rep.fail("R20.3", "found", "%s not found" % name)
            continue
        rep.fn(name)
        for bb, t in b.calls_to(r"tokio_impl::framed::Framed::new$"):
            o = b.origin(t["args"][1])
            okm = o[0] == "call" and o[1].endswith("Codec::new") and o[3][0][0] == "agg" and o[3][0][1][0] == "adt" and o[3][0][1][3] == "Uncompressed"
            ws = any("WebsocketStream" in c[1] or "WebsocketStream" in (c[2] or "") for c in origin_calls(b.origin(t["args"][0])))
            rep.check("R20.3", "relay-framed:%d" % n, okm, "a relay connection must use Codec::new(Mode::Uncompressed) (found %s)" % fmt_origin(o), b.loc(t["line"]),
                      sample={"websocket": ws, "codec": fmt_origin(o)})
            n += 1
    rep.floor("R20.3", 2)
