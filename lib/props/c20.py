"""C20 — the WebSocket relay transport carries the same byte stream as TCP (adaptor clauses)."""
from mirq import callee, fmt_origin, origin_calls, strip_refs
from props import c06, net

THOROUGH_CONFIGS = ["default", "blocking", "websocket", "all"]

EXPLANATION = (
    "R20.1 on the MIR of WebsocketStream::poll_read: the next message is polled only after the adaptor buffer was found empty (or the "
    "caller has no room); a Binary payload is appended whole to the adaptor buffer with Extend::extend (no truncation, no fixed-size "
    "copy) and the loop is re-entered; every other Ok message leaves the buffer untouched and re-enters the loop; end of stream "
    "returns Ready(Ok(())) with nothing written to the caller (0 bytes, which C05/R5.2 turns into Disconnected); Pending is returned "
    "only on poll_next's own Pending edge; errors are returned; the caller is served min(remaining, buffered) bytes taken from the "
    "front of the adaptor buffer; nothing else mutates that buffer. R20.2 = C06/R6.3 for the WebSocket writer (one binary message "
    "with the whole slice). R20.3 the relay builder wraps the WebSocket (and the TCP relay) in a Codec with Mode::Uncompressed. "
    "Not decided: tungstenite's behaviour; equivalence with TCP over all partitions is C05 plus these clauses."
)

NAME = "<insim::net::tokio_impl::websocket::WebsocketStream as tokio::io::async_read::AsyncRead>::poll_read"


def is_buf(o):
    x = strip_refs(o)
    return x[0] == "field" and x[3] == "buf"


def run(ctx, rep):
    rep.explanation = EXPLANATION
    rep.assumptions = ["tungstenite delivers message payloads completely and in order"]
    if "tokio" not in net.impls_present(ctx) or ctx.config == "blocking":
        rep.notes.append("websocket feature not part of configuration %s" % ctx.config)
        return
    b = ctx.mir.body(NAME)
    if b is None:
        rep.fail("R20.1", "found", "%s not found" % NAME)
        return
    rep.fn(NAME)
    # private helpers of the adaptor (e.g. a `drain` step) are analysed in place
    from mirq import inline_calls
    ib = inline_calls(b, lambda d: d.startswith("insim::net::tokio_impl::websocket::") and "{closure" not in d and "as tokio::io" not in d and "as std::io" not in d, depth=3)
    if ib is not b:
        rep.notes.append("R20.1: private helper(s) inlined into poll_read")
        b = ib
    P = b.calls_to(r"stream::Stream::poll_next$")
    E = [(bb, t) for bb, t in b.calls_to(r"Extend::extend$|BytesMut::extend_from_slice$") if is_buf(b.origin(t["args"][0]))]
    PS = b.calls_to(r"ReadBuf::<'a>::put_slice$")
    CB = [(bb, t) for bb, t in b.calls_to(r"Buf::copy_to_bytes$|BytesMut::split_to$") if is_buf(b.origin(t["args"][0]))]
    ok = len(P) == 1 and len(E) == 1 and len(PS) == 1 and len(CB) == 1
    rep.check("R20.1", "anchors", ok, "poll_read: expected one poll_next, one append to self.buf, one copy out of self.buf and one put_slice (found %s)" % [len(P), len(E), len(CB), len(PS)], b.loc(),
              sample={"counts": [len(P), len(E), len(CB), len(PS)]})
    if not ok:
        return
    (pbb, pt), (ebb, et), (sbb_, st_), (cbb, ct) = P[0], E[0], PS[0], CB[0]
    # (a) buffered bytes first
    edges = set()
    for sbb, targets, otherwise, o in b.switch_on(lambda o: (o[0] == "call" and o[1].endswith("BytesMut::is_empty") and is_buf(o[3][0]))):
        edges.add((sbb, otherwise))                       # is_empty() == true
    for sbb, targets, otherwise, o in b.switch_on(lambda o: (o[0] == "un" and o[1] == "Not" and o[2][0] == "call" and o[2][1].endswith("BytesMut::is_empty") and is_buf(o[2][3][0]))):
        edges.add((sbb, targets.get(0, otherwise)))       # !is_empty() is false
    CMP = ("Eq", "Ne", "Gt", "Lt", "Ge", "Le")

    def rem_cmp(o):
        return o[0] == "bin" and o[1] in CMP and ((o[2][0] == "call" and o[2][1].endswith("remaining") and o[3][0] == "const" and o[3][1] is not None) or
                                                  (o[3][0] == "call" and o[3][1].endswith("remaining") and o[2][0] == "const" and o[2][1] is not None))
    for sbb, targets, otherwise, o in b.switch_on(rem_cmp):
        # the edge taken when the caller has no room left (remaining() == 0), whatever the spelling: `> 0`, `== 0`, `< 1`, `!= 0`
        a, c = (0, o[3][1]) if o[2][0] == "call" else (o[2][1], 0)
        a1, c1 = (1, o[3][1]) if o[2][0] == "call" else (o[2][1], 1)
        f = {"Eq": lambda x, y: x == y, "Ne": lambda x, y: x != y, "Gt": lambda x, y: x > y, "Lt": lambda x, y: x < y, "Ge": lambda x, y: x >= y, "Le": lambda x, y: x <= y}[o[1]]
        if f(a, c) == f(a1, c1):
            continue
        f_t = targets.get(0, otherwise)
        t_t = otherwise if 0 in targets else targets.get(1, otherwise)
        edges.add((sbb, t_t if f(a, c) else f_t))
    rep.check("R20.1", "buffered-first", len(edges) >= 1 and pbb not in b.reach_v(avoid_edges=edges),
              "the next message is polled although buffered bytes could be delivered", b.loc(pt["line"]), sample={"justifying_edges": sorted(edges)})
    # (b) binary payload appended whole
    eo = b.origin(et["args"][1])
    s = fmt_origin(eo)

    def chain(o):
        names = []
        x = o
        for _ in range(12):
            if x[0] == "field":
                x = x[1]
            elif x[0] == "downcast":
                names.append(x[3])
                x = x[1]
            else:
                break
        return names, x
    names, root = chain(eo)
    okb = names[:4] == ["Binary", "Ok", "Some", "Ready"] and root[0] == "call" and root[4] == pbb
    rep.check("R20.1", "binary-appended-whole", okb and callee(et)[0].endswith(("Extend::extend", "extend_from_slice")),
              "the Binary payload of the polled message must be appended whole to self.buf (found %s via %s)" % (names, callee(et)[0]), b.loc(et["line"]),
              sample={"payload_path": names, "append": callee(et)[0]})
    rep.check("R20.1", "binary-continues", b.ret_kinds(et["target"]) == {"loop"}, "after appending a Binary payload the loop must be re-entered (exits %s)" % sorted(b.ret_kinds(et["target"])), b.loc(et["line"]))
    # who may mutate self.buf
    muts = []
    for bb, t in b.calls():
        for ai, a in enumerate(t["args"]):
            if is_buf(b.origin(a)) and t["argtys"][ai].startswith("&mut"):
                muts.append(callee(t)[0])
    allowed = {callee(et)[0], callee(ct)[0]}
    rep.check("R20.1", "only-append-and-serve", set(muts) <= allowed and len(muts) == 2, "self.buf is mutated by %s; only the append and the serve may" % muts, b.loc(), sample={"mutators": muts})
    # (c) message kind switch
    msg_sw = [s_ for s_ in b.switch_on(lambda o: o[0] == "discr" and chain(o[1])[0][:3] == ["Ok", "Some", "Ready"] and chain(o[1])[1][0] == "call" and chain(o[1])[1][4] == pbb)
              if b.dominates(pbb, s_[0]) and ebb in b.reach_within_iteration(s_[0])]
    rep.check("R20.1", "message-kind-match", len(msg_sw) == 1, "expected one match on the message kind (found %d)" % len(msg_sw), b.loc(pt["line"]), nontrivial=False)
    if len(msg_sw) == 1:
        sbb, targets, otherwise, o = msg_sw[0]
        bin_t = [tb for v, tb in targets.items() if ebb in b.reach_within_iteration(tb)]
        other_ts = [tb for tb in list(targets.values()) + [otherwise] if tb not in bin_t]
        for n, tb in enumerate(sorted(set(other_ts))):
            region = b.reach_within_iteration(tb)
            if all(b.blocks[x]["term"] and b.blocks[x]["term"]["k"] == "unreachable" for x in [tb]):
                continue
            touched = [callee(b.blocks[x]["term"])[0] for x in region if b.blocks[x]["term"] and b.blocks[x]["term"]["k"] == "call"
                       and any(is_buf(b.origin(a)) and ty.startswith("&mut") for a, ty in zip(b.blocks[x]["term"]["args"], b.blocks[x]["term"]["argtys"]))]
            kinds = b.ret_kinds(tb)
            rep.check("R20.1", "non-binary-ignored:%d" % n, not touched and kinds == {"loop"},
                      "a non-binary message must be skipped without touching the buffer and the loop re-entered (buffer calls %s, exits %s)" % (touched, sorted(kinds)), b.loc(pt["line"]),
                      sample={"exits": sorted(kinds)})
    # (d) end of stream / pending / errors, from the decision table
    rows = b.decision_rows()
    for conds, ret, others in rows:
        pass
    # None edge
    some_sw = b.switch_on(lambda o: o[0] == "discr" and chain(o[1])[0] == ["Ready"] and chain(o[1])[1][0] == "call" and chain(o[1])[1][4] == pbb)
    some_sw = [s_ for s_ in some_sw if b.dominates(pbb, s_[0]) and ebb in b.reach_within_iteration(s_[0])]
    if len(some_sw) == 1:
        sbb, targets, otherwise, o = some_sw[0]
        none_t = targets.get(0, otherwise)
        region = b.reach_within_iteration(none_t)
        wrote = [x for x in region if b.blocks[x]["term"] and b.blocks[x]["term"]["k"] == "call" and (callee(b.blocks[x]["term"])[0] or "").startswith("tokio::io::read_buf::ReadBuf") and
                 callee(b.blocks[x]["term"])[0].split("::")[-1] in ("put_slice", "advance", "set_filled", "assume_init", "initialize_unfilled")]
        rep.check("R20.1", "end-of-stream", b.ret_kinds(none_t) == {"Ready"} and not wrote,
                  "end of stream must return Ready(Ok(())) with nothing written to the caller's buffer (exits %s)" % sorted(b.ret_kinds(none_t)), b.loc(pt["line"]))
    else:
        rep.fail("R20.1", "end-of-stream", "no match on Option of the polled item found", b.loc(pt["line"]))
    cands = [s_ for s_ in b.switch_on(lambda o: o[0] == "discr" and o[1][0] == "call" and o[1][4] == pbb) if ebb in b.reach_within_iteration(s_[0])]
    poll_sw = cands[0] if len(cands) == 1 else None
    pend_blocks = [i for i, bl in enumerate(b.blocks) for st in bl["stmts"] if st["k"] == "assign" and st["place"]["l"] == 0 and st["rv"]["k"] == "agg" and st["rv"].get("vname") == "Pending"]
    okp = False
    if poll_sw is not None:
        pend_t = poll_sw[1].get(1, poll_sw[2])
        okp = len(pend_blocks) >= 1 and all(pb not in b.reach(0, avoid_edges={(poll_sw[0], pend_t)}) for pb in pend_blocks)
    rep.check("R20.1", "pending-only-from-poll", okp, "Pending must be returned only when poll_next itself is Pending", b.loc(pt["line"]))
    # (g) serve min(remaining, buffered)
    co = b.origin(ct["args"][1])
    oks = co[0] == "call" and co[1].endswith("Ord::min") and {("remaining" in (a[1] if a[0] == "call" else "")) or ("len" in (a[1] if a[0] == "call" else "")) for a in co[3]} == {True}
    po = b.origin(st_["args"][1])
    oks = oks and any(c[4] == cbb for c in origin_calls(po))
    rep.check("R20.1", "serve-front", oks, "the caller must be given min(remaining, buffered) bytes taken from the front of self.buf (count %s)" % fmt_origin(co), b.loc(ct["line"]))
    rep.floor("R20.1", 7)
    # R20.2
    before = len(rep.instances)
    c06.adaptors(ctx, rep)
    keep = []
    for i in rep.instances[before:]:
        if i["rule"] == "R6.3" and "websocket" in i["key"]:
            i["rule"] = "R20.2"
            i["key"] = i["key"].replace("R6.3:", "R20.2:")
            keep.append(i)
    rep.instances[before:] = keep
    rep.floors.pop("R6.3", None)
    rep.floor("R20.2", 1)
    relay_mode(ctx, rep)


def relay_mode(ctx, rep):
    """R20.3: every Framed built for the relay uses Mode::Uncompressed"""
    names = ["insim::builder::Builder::_connect_relay::{closure#0}#promoted"]
    n = 0
    for name in names:
        b = ctx.mir.body(name)
        if b is None:
            rep.fail("R20.3", "found", "%s not found" % name)
            continue
        rep.fn(name)
        for bb, t in b.calls_to(r"tokio_impl::framed::Framed::new$"):
            o = b.origin(t["args"][1])
            okm = o[0] == "call" and o[1].endswith("Codec::new") and o[3][0][0] == "agg" and o[3][0][1][0] == "adt" and o[3][0][1][3] == "Uncompressed"
            ws = any("WebsocketStream" in c[1] or "WebsocketStream" in (c[2] or "") for c in origin_calls(b.origin(t["args"][0])))
            rep.check("R20.3", "relay-framed:%d" % n, okm, "a relay connection must use Codec::new(Mode::Uncompressed) (found %s)" % fmt_origin(o), b.loc(t["line"]),
                      sample={"websocket": ws, "codec": fmt_origin(o)})
            n += 1
    rep.floor("R20.3", 2)
