"""C18 — the handshake carries exactly the configured connection options."""
import re

import panics
from mirq import callee, fmt_origin, origin_calls, origin_fields, strip_refs

THOROUGH_CONFIGS = ["default", "blocking", "websocket", "all"]

EXPLANATION = (
    "R18.1 panic-site inventory of Builder::isi, every builder method and the TCP/UDP branches of connect_blocking / connect_async up to "
    "the handshake (the relay branch sends no ISI and is out of scope; it is cut off at the `Proto::Relay` edge). R18.2 field provenance "
    "of the Isi aggregate built by Builder::isi: each ISI field comes from exactly its own builder field with the documented default "
    "(reqi<-isi_reqi, flags<-isi_flags, admin<-isi_admin_password|\\\"\\\", iname<-isi_iname|DEFAULT_INAME, prefix<-isi_prefix|0, "
    "interval<-isi_interval|ZERO, udpport<-udp_local_address.port() only under Proto::Udp else 0, version<-VERSION via Isi::default). "
    "R18.3 every isi_flag_<x> setter calls IsiFlags::set with the constant of the same name (value by const evaluation) on "
    "self.isi_flags and the caller's bool, isi_flags replaces wholesale, every other setter assigns exactly its own field. R18.4 in the "
    "TCP and UDP branches of both connect functions the connection is built with Codec::new(self.mode.clone()), the builder's "
    "verify_version is forwarded, and exactly one handshake with Builder::isi()'s packet follows Framed::new with no other write. The fixed-width "
    "text writer keeps every encoded byte up to the field width (program name, admin password; shared with C11). "
    "Not decided: behaviour of the OS sockets."
)

ISI_SOURCES = {
    "reqi": ("isi_reqi", None), "flags": ("isi_flags", None), "admin": ("isi_admin_password", 'const("")'),
    "iname": ("isi_iname", "DEFAULT_INAME"), "prefix": ("isi_prefix", "(0 as char)"), "interval": ("isi_interval", "Duration::ZERO"),
}


def run(ctx, rep):
    rep.explanation = EXPLANATION
    rep.assumptions = ["std/tokio socket constructors report failure through Result"]
    isi_provenance(ctx, rep)
    setters(ctx, rep)
    field_writers(ctx, rep)
    connect(ctx, rep)
    # "sends that ISI as the first and only frame": the handshake hands the ISI to Framed::write, which must deliver the whole
    # encoded frame (C06's R6.1 / R6.2)
    from props import c06
    c06.write_rules(ctx, rep)
    inventory(ctx, rep)
    # "exactly the configured ... program name, admin password": both travel through the shared fixed-width text writer, which
    # must keep the encoded text up to the field's width (C11's R11.3: exact width / content on the writer's path table)
    from props import c11
    before = len(rep.instances)
    keep = dict(rep.floors)
    c11.length_domain(ctx, rep)
    rep.instances[before:] = [i for i in rep.instances[before:] if i["rule"] == "R11.3"]
    for r_ in list(rep.floors):
        if r_ not in keep and r_ != "R11.3":
            rep.floors.pop(r_)


def is_ref_helper(ctx, d):
    """a private helper of Builder that takes `&self` (not a chaining setter, not isi / connect_*): analysed in place"""
    if not d.startswith("insim::builder::Builder::") or "{closure" in d:
        return False
    nm = d.split("::")[-1]
    if nm in NOT_SETTERS or nm == "isi":
        return False
    raw = ctx.mir.bodies.get(d)
    if raw is None or raw.get("coroutine") or raw.get("argc", 0) < 1:
        return False
    return raw["locals"][1].get("ty", "").startswith("&") and raw["locals"][1]["ty"].endswith("builder::Builder")


def bbody(ctx, name):
    from mirq import inline_calls, inline_async
    b = ctx.mir.body(name)
    if b is None:
        return None
    b = inline_async(b, lambda d: is_ref_helper(ctx, d), depth=3)
    return inline_calls(b, lambda d: is_ref_helper(ctx, d), depth=3)


def isi_provenance(ctx, rep):
    b = bbody(ctx, "insim::builder::Builder::isi")
    if b is None:
        rep.fail("R18.2", "found", "Builder::isi not found")
        return
    rep.fn(b.name)
    aggs = [(i, st) for i, bl in enumerate(b.blocks) for st in bl["stmts"] if st["k"] == "assign" and st["rv"]["k"] == "agg" and st["rv"].get("adt") == "insim::insim::isi::Isi"]
    rep.check("R18.2", "aggregate", len(aggs) == 1, "expected one Isi{..} construction in Builder::isi (found %d)" % len(aggs), b.loc(), nontrivial=False)
    if len(aggs) != 1:
        return
    bb, st = aggs[0]
    fields = dict(zip(st["rv"]["fields"], st["rv"]["ops"]))
    rep.check("R18.2", "field-set", set(fields) == {"reqi", "udpport", "flags", "version", "prefix", "interval", "admin", "iname"}, "ISI field set changed: %s" % sorted(fields), b.loc(st["line"]), nontrivial=False)
    # each option-backed field: the builder's value when set, the documented default when unset - Builder::isi evaluated as a
    # table for {unset, set}, whatever combinators or matches the source uses (unwrap_or / unwrap_or_default / match / as_deref)
    import tabeval
    rows0 = b.decision_rows()
    want_default = {"admin": "", "iname": None, "prefix": 0, "interval": "ZERO"}
    for e_ in ctx.ast.impls("Isi"):
        for it_ in e_[3]["items"]:
            if it_["k"] == "Const" and it_["name"] == "DEFAULT_INAME" and it_["value"].get("t") == "str":
                want_default["iname"] = it_["value"]["v"]
    state = {}

    def opt_leaf(o, model):
        x = strip_refs(o)
        if x[0] == "field" and x[3] in state and strip_refs(x[1]) == ("arg", 1):
            v = state[x[3]]
            return ("opt", v, ("sym", x[3])) if v is not None else ("sym", x[3])
        if o[0] == "const" and o[1] is None:
            txt = str(o[2])
            if txt.startswith("const(") or txt.startswith('"'):
                return ("str", txt.strip('"'))
            if txt.endswith("Duration::ZERO"):
                return ("str", "ZERO")
            if txt.endswith("DEFAULT_INAME") and want_default["iname"] is not None:
                return ("str", want_default["iname"])
            if txt == '""' or txt == "":
                return ("str", "")
        return None

    def opt_call(d, rd, args, model):
        if re.search(r"Option::<T>::(as_deref|as_ref|cloned|copied)$", d):
            return model.ev.ev(args[0])
        if re.search(r"ToOwned::to_owned$|String::from$|convert::Into::into$|convert::From::from$|string::ToString::to_string$|Deref::deref$|<impl str>::to_string$", d):
            return model.ev.ev(args[0])
        if d.endswith("Option::<T>::unwrap_or_default"):
            ov = model.ev.ev(args[0])
            if isinstance(ov, tuple) and ov[0] == "opt":
                return ov[2] if ov[1] else ("dflt",)
        if d.endswith("Default::default"):
            return ("dflt",)
        return None

    def canon(v, f):
        if v == ("dflt",):
            return {"admin": "", "prefix": 0, "interval": "ZERO"}.get(f, ("dflt",))
        if isinstance(v, tuple) and v[0] == "str":
            return v[1]
        return v
    model0 = tabeval.Model(ctx, b, None, local_prefix="insim::builder::", extra_leaf=opt_leaf, extra_call=opt_call)
    for f, (src, dflt) in sorted(ISI_SOURCES.items()):
        if f not in fields:
            continue
        idx = st["rv"]["fields"].index(f)
        o = b.origin(fields[f])
        full = _full(o)
        bad = None
        scen = (None,) if dflt is None else (False, True)
        for has in scen:
            state.clear()
            state[src] = has
            # every other builder field: present (so that a wrong source field shows up as its symbol)
            for other, (s2, d2) in ISI_SOURCES.items():
                if s2 != src:
                    state[s2] = None if d2 is None else True
            model0.ev.reset()
            try:
                got = set()
                for r in model0.ev.matching_rows(rows0, lenient=True):
                    if r[1][1] != "Isi" or len(r[1][3]) <= idx:
                        raise tabeval.Unknown("result %s" % (r[1][1],))
                    got.add(canon(model0.ev.ev(r[1][3][idx]), f))
            except (tabeval.Unknown, tabeval.Panic) as e:
                # conditions on other fields (proto ...) are irrelevant for this field: fall back to the direct expression
                try:
                    got = {canon(model0.ev.ev(o), f)}
                except (tabeval.Unknown, tabeval.Panic) as e2:
                    bad = "not evaluable (%s)" % e2
                    break
            want = ("sym", src) if has in (None, True) else want_default[f]
            if got != {want}:
                bad = "%s %s: ISI.%s is %s, expected %s" % (src, "unset" if has is False else "set", f, sorted(got, key=str), want)
                break
        rep.check("R18.2", "isi.%s" % f, bad is None, "ISI.%s must be builder field %s%s: %s; expression %s" % (f, src, (" or the documented default when unset") if dflt else "", bad, full[:160]), b.loc(st["line"]),
                  sample={"isi_field": f, "source": src, "expr": full[:160]})
    # version <- Isi::default().version, and Default sets VERSION
    ov = b.origin(fields["version"])
    okv = ov[0] == "field" and ov[3] == "version" and ov[1][0] == "call" and (ov[1][2] or ov[1][1]).endswith("Isi as core::default::Default>::default")
    d = ctx.mir.body("<insim::insim::isi::Isi as core::default::Default>::default")
    ver = ctx.mir.const_val("insim::VERSION")
    okd = False
    if d is not None:
        for bl in d.blocks:
            for s2 in bl["stmts"]:
                if s2["k"] == "assign" and s2["rv"]["k"] == "agg" and s2["rv"].get("adt") == "insim::insim::isi::Isi":
                    i = s2["rv"]["fields"].index("version")
                    vo = d.origin(s2["rv"]["ops"][i])
                    okd = vo[0] == "const" and vo[1] == ver
    rep.check("R18.2", "isi.version", okv and okd and ver == 9, "ISI.version must be the library's VERSION (9) through Isi::default()", b.loc(st["line"]), sample={"VERSION": ver})
    # udpport: Builder::isi as a decision table, evaluated for every protocol x {no local address, a local address}
    import tabeval
    proto = ctx.mir.enums.get("insim::builder::Proto")
    rows = b.decision_rows()
    fidx = st["rv"]["fields"].index("udpport")
    cur = {}

    def leaf(o, model):
        x = strip_refs(o)
        if o[0] == "discr":
            y = strip_refs(o[1])
            if y[0] == "field" and y[3] == "proto" and strip_refs(y[1]) == ("arg", 1):
                return cur["proto"]
        if x[0] == "field" and x[3] == "udp_local_address" and strip_refs(x[1]) == ("arg", 1):
            return ("opt", cur["port"] is not None, ("addr", cur["port"]))
        return None

    def call(d, rd, args, model):
        if d.endswith("SocketAddr::port") or (rd or "").endswith("SocketAddr::port"):
            v = model.ev.ev(args[0])
            if isinstance(v, tuple) and v[0] == "addr":
                return v[1]
        return None
    model = tabeval.Model(ctx, b, None, local_prefix="insim::builder::", extra_leaf=leaf, extra_call=call)
    bad = None
    n_eval = 0
    for v in (proto["variants"] if proto else []):
        for port in (None, 29999, 1):
            cur["proto"], cur["port"] = v["idx"], port
            model.ev.reset()
            want = port if (v["name"] == "Udp" and port is not None) else 0
            try:
                ms = model.ev.matching_rows(rows, lenient=True)
                got = set()
                for r in ms:
                    if r[1][1] != "Isi" or len(r[1][3]) <= fidx:
                        raise tabeval.Unknown("result %s" % (r[1][1],))
                    got.add(model.ev.ev(r[1][3][fidx]))
            except (tabeval.Unknown, tabeval.Panic) as e:
                bad = "Proto::%s, local address %s: not evaluable (%s)" % (v["name"], port, e)
                break
            n_eval += 1
            if got != {want}:
                bad = bad or "Proto::%s with %s: ISI.udpport is %s, expected %d" % (v["name"], "local port %d" % port if port is not None else "no local address", sorted(got, key=str), want)
        if bad and "not evaluable" in bad:
            break
    rep.check("R18.2", "isi.udpport", bad is None and n_eval > 0, "ISI.udpport must be udp_local_address.port() under Proto::Udp and 0 otherwise (%s)" % bad, b.loc(st["line"]),
              sample={"evaluated": n_eval})
    rep.floor("R18.2", 8)


def _calls_port(ctx, o):
    """the expression takes `.port()` of a socket address, directly or inside a closure it passes along"""
    if any(c[1].endswith("SocketAddr::port") for c in origin_calls(o)):
        return True
    found = []

    def walk(x):
        if isinstance(x, tuple):
            if x and x[0] == "agg" and x[1][0] == "closure":
                found.append(x[1][1])
            for y in x:
                if isinstance(y, (tuple, list)):
                    walk(y)
        elif isinstance(x, list):
            for y in x:
                walk(y)
    walk(o)
    for cdef in found:
        cb = ctx.mir.body(cdef)
        if cb is not None and cb.calls_to(r"SocketAddr::port$"):
            return True
    return False


def _full(o, depth=0):
    """unabbreviated printable origin (fmt_origin elides deep parts)"""
    if depth > 12 or not isinstance(o, tuple):
        return "?"
    k = o[0]
    if k == "const":
        return str(o[1]) if o[1] is not None else "const(%s)" % (o[2],)
    if k == "arg":
        return "arg%d" % o[1]
    if k == "call":
        return "%s(%s)" % ((o[2] or o[1]).split("::")[-1], ", ".join(_full(a, depth + 1) for a in o[3]))
    if k == "field":
        return "%s.%s" % (_full(o[1], depth + 1), o[3] if o[3] else o[2])
    if k in ("deref", "ref"):
        return _full(o[1], depth + 1)
    if k == "cast":
        return "(%s as %s)" % (_full(o[4], depth + 1), o[3])
    if k == "downcast":
        return "%s as %s" % (_full(o[1], depth + 1), o[3])
    return fmt_origin(o)


def _raw(b):
    out = []
    for bl in b.blocks:
        for st in bl["stmts"]:
            if st["k"] == "assign" and st["place"]["l"] == 1 and st["place"]["p"]:
                p0 = st["place"]["p"][0]
                if isinstance(p0, dict) and p0.get("name"):
                    out.append((p0["name"], b.origin(st["rv"]["x"]) if st["rv"]["k"] == "use" else ("rv", st["rv"]["k"])))
    return out


def setters(ctx, rep):
    first = len(rep.instances)         # count this configuration's instances only (the thorough tier runs several into one report)
    flags = {}
    for path, c in ctx.mir.consts.items():
        m = re.match(r"^insim::insim::isi::IsiFlags::([A-Z_0-9]+)$", path)
        if m and c["val"] is not None:
            flags[m.group(1)] = int(c["val"])
    n = 0
    for name in sorted(ctx.mir.bodies):
        m = re.match(r"^insim::builder::Builder::(isi_\w+)$", name)
        if not m or m.group(1) == "isi":
            continue
        meth = m.group(1)
        b = ctx.mir.body(name)
        if b.argc < 1 or str(b.locals[1].get("ty", "")) != "insim::builder::Builder":
            continue          # `&self` helpers (e.g. a port computation) are not setters
        rep.fn(name)
        assigned = []
        for bl in b.blocks:
            for st in bl["stmts"]:
                if st["k"] == "assign" and st["place"]["l"] == 1 and st["place"]["p"]:
                    p0 = st["place"]["p"][0]
                    if isinstance(p0, dict) and p0.get("name"):
                        assigned.append((p0["name"], b.origin(st["rv"]["x"]) if st["rv"]["k"] == "use" else ("rv", st["rv"]["k"])))
        assigned = sorted(set((a, fmt_origin(o)) for a, o in assigned))
        assigned = [(a, next(o for a2, o in [(x[0], x[1]) for x in [(aa, oo) for aa, oo in _raw(b)]] if a2 == a and fmt_origin(o) == s)) for a, s in assigned]
        sets = b.calls_to(r"IsiFlags>::set$")
        n += 1
        if meth.startswith("isi_flag_"):
            want = meth[len("isi_flag_"):].upper()
            ok = len(sets) == 1 and not assigned and want in flags
            detail = "expected exactly one IsiFlags::set and no field assignment"
            if ok:
                t = sets[0][1]
                a0 = strip_refs(b.origin(t["args"][0]))
                a1 = b.origin(t["args"][1])
                a2 = b.origin(t["args"][2])
                ok = a0[0] == "field" and a0[3] == "isi_flags" and a1[0] == "const" and a1[1] == flags[want] and a2 == ("arg", 2)
                detail = "%s must call isi_flags.set(IsiFlags::%s = %#x, enabled); found set(%s, %s, %s)" % (meth, want, flags[want], fmt_origin(a0), fmt_origin(a1), fmt_origin(a2))
            rep.check("R18.3", meth, ok, detail, b.loc(), sample={"setter": meth, "flag": want, "value": flags.get(want)})
        else:
            ok = len(assigned) == 1 and assigned[0][0] == meth and not sets
            src = assigned[0][1] if assigned else None
            oks = src is not None and (src == ("arg", 2) or (src[0] == "call" and src[1].endswith("Into::into") and src[3][0] == ("arg", 2)))
            rep.check("R18.3", meth, ok and oks, "%s must assign exactly self.%s from its argument; found %s" % (meth, meth, [(a, fmt_origin(o)) for a, o in assigned]), b.loc(),
                      sample={"setter": meth, "assigns": [a for a, _o in assigned]})
    rep.check("R18.3", "flag-setters", len([1 for i in rep.instances[first:] if i["rule"] == "R18.3" and "isi_flag_" in i["key"]]) == len(flags),
              "one setter per IsiFlags constant expected (%d constants)" % len(flags), None, nontrivial=False)
    rep.floor("R18.3", 15)


# which builder fields a chaining method may change: its own field, except for the reviewed protocol selectors / shorthands
WRITES = {"tcp": {"proto", "remote"}, "udp": {"proto", "remote", "udp_local_address"}, "relay": {"proto"},
          "compressed": {"mode"}, "uncompressed": {"mode"}}
NOT_SETTERS = {"default", "new", "isi", "connect_blocking", "connect_async", "_connect_relay"}


def field_writers(ctx, rep):
    """R18.5 who-may-write: every chaining method of Builder changes only its own option (the protocol selectors: proto, remote
    and, for udp, the local address); so an option that was configured - size mode, flags, UDP port, ... - is still the
    configured one when isi()/connect_* read it, whatever other methods were called before or after."""
    n = 0
    for name in sorted(ctx.mir.bodies):
        m = re.match(r"^insim::builder::Builder::(\w+)$", name)
        if not m or m.group(1) in NOT_SETTERS:
            continue
        meth = m.group(1)
        b = ctx.mir.body(name)
        if b.argc < 1 or str(b.locals[1].get("ty", "")) != "insim::builder::Builder":
            continue          # not a by-value chaining method
        rep.fn(name)
        allowed = WRITES.get(meth, {meth if not meth.startswith("isi_flag_") else "isi_flags"})
        wrote = set()
        for bl in b.blocks:
            for st in bl["stmts"]:
                if st["k"] == "assign" and st["place"]["l"] == 1 and st["place"]["p"]:
                    p0 = st["place"]["p"][0]
                    if isinstance(p0, dict) and p0.get("name"):
                        wrote.add(p0["name"])
                if st["k"] == "assign" and st["place"]["l"] == 1 and not st["place"]["p"]:
                    wrote.add("*")
        for bb, t in b.calls():
            d = callee(t)[0] or ""
            m2 = re.match(r"^insim::builder::Builder::(\w+)$", d)
            if m2 and t["args"] and strip_refs(b.origin(t["args"][0])) == ("arg", 1):
                wrote |= WRITES.get(m2.group(1), {m2.group(1)})
                continue
            for ai, a in enumerate(t["args"]):
                if t["argtys"][ai].startswith("&mut"):
                    o = strip_refs(b.origin(a))
                    if o[0] == "field" and strip_refs(o[1]) == ("arg", 1):
                        wrote.add(o[3])
                    elif o == ("arg", 1):
                        wrote.add("*")
        extra = sorted(wrote - allowed)
        n += 1
        rep.check("R18.5", meth, not extra,
                  "Builder::%s also changes %s: options configured elsewhere must survive it, otherwise the handshake no longer carries what was configured (allowed: %s)" % (meth, extra, sorted(allowed)),
                  b.loc(), sample={"method": meth, "writes": sorted(wrote)})
    rep.floor("R18.5", 25)


CONNECT = [("blocking", "insim::builder::Builder::connect_blocking", r"blocking_impl::framed::Framed"),
           ("tokio", "insim::builder::Builder::connect_async::{closure#0}#promoted", r"tokio_impl::framed::Framed")]


def connect(ctx, rep, flag_only=False):
    """flag_only: emit only the version-flag forwarding instances, as rule R9.4 (used by C09)"""
    from props import net
    proto = ctx.mir.enums.get("insim::builder::Proto")
    if proto is None:
        rep.fail("R18.4", "Proto", "enum Proto not found")
        return
    idx = {v["name"]: v["idx"] for v in proto["variants"]}
    for impl, name, framed in CONNECT:
        if impl not in net.impls_present(ctx):
            continue
        b = bbody(ctx, name)
        if b is None:
            rep.fail("R18.4", "%s:found" % impl, "%s not found" % name)
            continue
        rep.fn(name)
        sws = [s for s in b.switch_on(lambda o: o[0] == "discr" and strip_refs(o[1])[0] == "field" and strip_refs(o[1])[3] == "proto")]
        sws = [s for s in sws if all(b.dominates(s[0], o[0]) for o in sws)]
        if len(sws) != 1:
            rep.fail("R18.4", "%s:proto-match" % impl, "no single match on self.proto found", b.loc())
            continue
        sbb, targets, otherwise, _o = sws[0]
        for pn in ("Tcp", "Udp"):
            t = targets.get(idx[pn])
            others = {(sbb, tb) for v, tb in targets.items() if v != idx[pn]} | ({(sbb, otherwise)} if otherwise != t else set())
            region = b.reach(t) - (b.reach(0, avoid_edges={(sbb, t)}) - {sbb})
            region = {x for x in b.reach(t)}
            only = region - b.reach(0, avoid_edges={(sbb, t)})
            key = "%s:%s" % (impl, pn)
            news = [(bb, tt) for bb, tt in b.calls_to(framed + r"::new$") if bb in only]
            hs = [(bb, tt) for bb, tt in b.calls_to(framed + r"::handshake$") if bb in only]
            ws = [(bb, tt) for bb, tt in b.calls_to(framed + r"::write$") if bb in only]
            vv = [(bb, tt) for bb, tt in b.calls_to(framed + r"::verify_version$") if bb in only]
            isi = [(bb, tt) for bb, tt in b.calls_to(r"builder::Builder::isi$") if bb in only]
            if flag_only:
                okf = len(news) == 1 and len(vv) == 1 and b.dominates(news[0][0], vv[0][0])
                why = "found %d Framed::new and %d verify_version calls" % (len(news), len(vv))
                if okf:
                    vo = b.origin(vv[0][1]["args"][1])
                    sv = strip_refs(vo)
                    okf = sv[0] == "field" and sv[3] == "verify_version"
                    why = "argument is %s" % _full(vo)
                rep.check("R9.4", key + ":flag-forwarded", okf,
                          "%s %s branch: the connection must be given the builder's verify_version flag unchanged, once, after Framed::new (%s)" % (impl, pn, why),
                          b.loc(), sample={"impl": impl, "proto": pn})
                continue
            ok = len(news) == 1 and len(hs) == 1 and not ws and len(vv) == 1 and len(isi) == 1
            rep.check("R18.4", key + ":shape", ok, "%s %s branch: expected one Framed::new, one verify_version, one isi(), one handshake and no other write (found %s)" % (impl, pn, [len(news), len(vv), len(isi), len(hs), len(ws)]),
                      b.loc(), sample={"impl": impl, "proto": pn, "counts": [len(news), len(vv), len(isi), len(hs), len(ws)]})
            if not ok:
                continue
            co = b.origin(news[0][1]["args"][1])
            okc = co[0] == "call" and co[1].endswith("Codec::new") and "mode" in origin_fields(co) and any(c[1].endswith("Clone::clone") for c in origin_calls(co))
            rep.check("R18.4", key + ":mode", okc, "the connection must use Codec::new(self.mode.clone()); found %s" % _full(co), b.loc(news[0][1]["line"]))
            vo = b.origin(vv[0][1]["args"][1])
            rep.check("R18.4", key + ":verify-flag", strip_refs(vo)[0] == "field" and strip_refs(vo)[3] == "verify_version", "the builder's verify_version must be forwarded (found %s)" % _full(vo), b.loc(vv[0][1]["line"]))
            ho = b.origin(hs[0][1]["args"][1])
            okh = any(c[4] == isi[0][0] for c in origin_calls(ho)) or (ho[0] == "phi")
            rep.check("R18.4", key + ":handshake-isi", okh and b.dominates(news[0][0], hs[0][0]), "handshake must send Builder::isi()'s packet after Framed::new (found %s)" % _full(ho), b.loc(hs[0][1]["line"]))
            tr = net.try_of(b, hs[0][0], impl == "tokio")
            rep.check("R18.4", key + ":handshake-error", tr is not None and "residual" in b.ret_kinds(tr[3]), "a failed handshake must be returned as an error", b.loc(hs[0][1]["line"]), nontrivial=False)
    if flag_only:
        rep.floor("R9.4", 2 * len(net.impls_present(ctx)))
        return
    rep.floor("R18.4", 2)


def inventory(ctx, rep):
    roots = ["insim::builder::Builder::isi", "insim::builder::Builder::connect_blocking", "insim::builder::Builder::connect_async::{closure#0}",
             "<insim::builder::Builder as core::default::Default>::default", "insim::tcp", "insim::udp"]
    roots += [n for n in ctx.mir.bodies if re.match(r"^insim::builder::Builder::\w+$", n)]
    roots = [r for r in roots if ctx.mir.body(r) is not None]
    proto = ctx.mir.enums.get("insim::builder::Proto")
    relay_idx = [v["idx"] for v in proto["variants"] if v["name"] == "Relay"][0] if proto else None
    out_of_scope = {}
    for n in ("insim::builder::Builder::connect_blocking", "insim::builder::Builder::connect_async::{closure#0}"):
        b = ctx.mir.body(n)
        if b is None or relay_idx is None:
            continue
        sws = b.switch_on(lambda o: o[0] == "discr" and strip_refs(o[1])[0] == "field" and strip_refs(o[1])[3] == "proto")
        sws = [s for s in sws if all(b.dominates(s[0], o[0]) for o in sws)]
        if len(sws) == 1:
            sbb, targets, otherwise, _o = sws[0]
            rt = targets.get(relay_idx, otherwise)
            out_of_scope[n] = b.reach(rt) - b.reach(0, avoid_edges={(sbb, rt)})

    def site_filter(s):
        return s["bb"] not in out_of_scope.get(s["fn"], set())

    panics.check_paths(ctx, rep, "R18.1", roots, stop=(r"framed::Framed::(handshake|write|read)", r"_connect_relay", r"connect_to_lfsworld_relay_ws"),
                       label="handshake construction", site_filter=site_filter)
    rep.floor("R18.1", 3)
