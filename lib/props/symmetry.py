"""Reader/writer mirror-image rules over binrw declarations (used by C01 and C17)."""
import re

from astq import attr_directives, has_attr
from props.packets import norm, show, strip_trailing_align

# reviewed parse_with <-> write_with pairs: (parser, writer) -> how generics/args must relate
HELPER_PAIRS = {
    ("binrw_parse_codepage_string", "binrw_write_codepage_string"): "fixed-text",
    ("binrw_parse_codepage_string_until_eof", "binrw_write_codepage_string"): "tail-text",
    ("binrw_parse_duration", "binrw_write_duration"): "duration",
    ("parse_game_version", "write_game_version"): "plain",
    ("binrw_parse_mal_allowed_mods", "binrw_write_mal_allowed_mods"): "loop",
    ("binrw_parse_ipb_bans", "binrw_write_ipb_bans"): "loop",
}
# reviewed read-only normalisers: parser with no writer counterpart (the field is written plainly)
READ_ONLY_NORMALISERS = {
    "binrw_parse_spclose_strip_reserved_bits": "masks the 4 reserved high bits of SpClose on decode; the writer emits the u16 as is",
}

# reviewed map idioms: normalised closure text -> idiom id
READ_MAPS = {
    "|x:u8|x!=0": "bool-u8",
    "|x:u8|x as char": "char-u8",
    "Self::from_bits_truncate": "bitflags",
    "|x:u32|Ipv4Addr::from(x)": "ipv4-u32",
    "PlcAllowedCarsSet::from_bits_truncate": "carset-u32",
}
WRITE_MAPS = {
    "|&x|x as u8": ("bool-u8", "char-u8"),
    "|&x:&Self|x.bits()": ("bitflags",),
    "|&x:&Ipv4Addr|u32::from(x)": ("ipv4-u32",),
    "|x:&PlcAllowedCarsSet|x.bits()": ("carset-u32",),
}
_ws = re.compile(r"\s+")


def ntext(raw):
    """normalise `map = <closure>` text: strip `map =`, whitespace (keep the one in `x as u8`), type path prefixes"""
    t = raw.split("=", 1)[1].strip() if raw.startswith("map") else raw
    t = _ws.sub(" ", t)
    t = re.sub(r"\s*([|:&!=(),.<>])\s*", r"\1", t)
    t = re.sub(r"&\s*(\w+Flags|\w+Info|\w+Inst|\w+Type|\w+Options|\w+Lights|Passengers)\b", "&Self", t)
    return t


def one_sided(fi, key):
    r, w = key in fi["dirs"]["read"], key in fi["dirs"]["write"]
    return r != w


def check_struct(ctx, rep, rule, name, modhint=None, prefix=""):
    """R*.1/R*.2 for one #[binrw] struct: per-field read/write symmetry, helper/map pairing, count<->calc pairing"""
    wire = ctx.wire
    lay = wire.layout(name, None, modhint)
    ent = lay.get("ent")
    if ent is None:
        rep.fail(rule + ".1", "%s%s:found" % (prefix, name), "struct %s not found" % name)
        return
    it = ent[3]
    sname = "%s%s" % (prefix, name)
    fields = {f["name"]: f for f in lay["fields"]}
    for fi in lay["fields"]:
        key = "%s.%s" % (sname, fi["name"])
        loc = ctx.loc(ent, fi["ln"])
        dr, dw = fi["dirs"]["read"], fi["dirs"]["write"]
        r = norm(fi["read"], "read", wire)
        w = norm(fi["write"], "write", wire)
        if fi is lay["fields"][-1]:
            w = strip_trailing_align(w)
        # 1. same position and width on both sides (class may differ only in the reviewed ways below)
        rs = [(x[1], x[2]) for x in r]
        ws = [(x[1], x[2]) for x in w]
        same = rs == ws
        why = ""
        if not same:
            # tail text: reader `tail`, writer `tail`; loop helper: count on both sides; vec<u8> writer vs bytes reader
            if len(rs) == len(ws):
                same = True
                for a, b in zip(r, w):
                    if (a[1], a[2]) == (b[1], b[2]):
                        continue
                    if a[2] in ("b", "s") and b[2] == "vec" and b[3]["elem"] and b[3]["elem"][0][1] == 1:
                        continue  # length decided by the container-length rules (C11/C16)
                    same = False
            why = "read side %s vs write side %s" % (show(r), show(w))
        rep.check(rule + ".1", key + ":shape", same, "field %s is not the same wire shape in both directions: %s" % (key, why), loc,
                  sample={"field": key, "read": show(r), "write": show(w)})
        # 2. one-sided directives that drop/default/skip a field
        for bad in ("ignore", "default", "try", "if", "restore_position", "seek_before", "pad_size_to", "align_before", "align_after", "magic", "assert"):
            if bad in ("assert",):
                continue
            if bad == "align_after" and "align_after" in dw and "align_after" not in dr and fi is lay["fields"][-1]:
                continue  # write-only alignment after the last field: trailing pad bytes the reader never looks at
            if one_sided(fi, bad):
                rep.fail(rule + ".1", key + ":" + bad, "directive `%s` present on one side only" % bad, loc)
        # under the combined #[binrw] attribute bw(calc) implies br(temp); a lone br(temp) drops the field on write
        combined = has_attr(it, "binrw")
        if ("temp" in dr and "calc" not in dw) or ("calc" in dw and "temp" not in dr and not combined) or ("calc" in dr):
            rep.fail(rule + ".1", key + ":temp-calc", "`br(temp)` and `bw(calc)` must come together (field would be dropped or invented)", loc)
        # 3. helper pairing
        pw, ww = dr.get("parse_with"), dw.get("write_with")
        if pw or ww:
            hp = wire.helper_info(pw["value"], "read", key) if pw else None
            hw = wire.helper_info(ww["value"], "write", key) if ww else None
            if hp and not hw:
                ok = hp["name"] in READ_ONLY_NORMALISERS
                rep.check(rule + ".1", key + ":helper", ok, "parser %s has no writer counterpart and is not a reviewed read-only normaliser" % hp["name"], loc,
                          sample={"field": key, "parser": hp["name"], "reviewed": READ_ONLY_NORMALISERS.get(hp["name"])})
            elif hw and not hp:
                rep.fail(rule + ".1", key + ":helper", "writer %s has no parser counterpart" % hw["name"], loc)
            else:
                kind = HELPER_PAIRS.get((hp["name"], hw["name"]))
                ok = kind is not None
                detail = "parse_with %s / write_with %s is not a reviewed pair" % (hp["name"], hw["name"])
                rargs = args_of(wire, dr)
                wargs = args_of(wire, dw)
                if kind == "fixed-text":
                    ok = hp["generics"][:1] == hw["generics"][:1] and (rargs[:1] or [False])[0] == (wargs[:1] or [False])[0] \
                        and ((wargs[1:2] or [0])[0] in (0, 1))
                    detail = "fixed text: SIZE/raw must agree and the writer must not align: parse %s%s write %s%s" % (hp["generics"], rargs, hw["generics"], wargs)
                elif kind == "tail-text":
                    ok = (rargs[:1] or [False])[0] == (wargs[:1] or [False])[0] and isinstance((wargs[1:2] or [0])[0], int) and (wargs[1:2] or [0])[0] > 1
                    detail = "variable text: raw flag must agree and the writer must use an alignment > 1: parse %s write %s%s" % (rargs, hw["generics"], wargs)
                elif kind == "duration":
                    ok = hp["generics"] == hw["generics"]
                    detail = "duration helpers must use the same integer type and scale: parse %s write %s" % (hp["generics"], hw["generics"])
                elif kind == "loop":
                    # reader loops 0..args.0, writer iterates its input
                    rseg = [s for s in fi["read"] if s.get("helper")]
                    wseg = [s for s in fi["write"] if s.get("helper")]
                    rsrc = rseg[0].get("loop_source") if rseg else None
                    wsrc = wseg[0].get("loop_source") if wseg else None
                    ok = bool(rsrc) and rsrc[0] == "range0" and bool(wsrc) and wsrc[0] == "iter" and wsrc[1] == 1
                    detail = "loop helpers: reader must iterate 0..count (found %s), writer must iterate its input (found %s)" % (rsrc, wsrc)
                rep.check(rule + ".1", key + ":helper", ok, detail, loc,
                          sample={"field": key, "pair": [hp["name"], hw["name"]], "generics": [hp["generics"], hw["generics"]], "args": [rargs, wargs]})
        # 4. map pairing
        mr, mw = dr.get("map"), dw.get("map")
        if mr or mw:
            ir = READ_MAPS.get(ntext(mr["raw"])) if mr else None
            iw = WRITE_MAPS.get(ntext(mw["raw"])) if mw else None
            ok = ir is not None and iw is not None and ir in iw
            rep.check(rule + ".1", key + ":map", ok,
                      "map pair is not a reviewed inverse idiom: read `%s` write `%s`" % (mr["raw"] if mr else None, mw["raw"] if mw else None), loc,
                      sample={"field": key, "read": ntext(mr["raw"]) if mr else None, "write": ntext(mw["raw"]) if mw else None})
        # 5. count pairing
        cnt = None
        if "count" in dr:
            v = dr["count"]["value"]
            cnt = v.get("path") if v.get("k") == "Path" else None
            if cnt is None:
                rep.fail(rule + ".2", key + ":count", "count expression `%s` is not a plain field" % dr["count"]["raw"], loc)
        elif pw and "args" in dr and HELPER_PAIRS.get((wire.helper_info(pw["value"], "read", key) or {}).get("name", ""), None) is None:
            pass
        if pw and "args" in dr:
            hp = wire.helper_info(pw["value"], "read", key)
            if hp and any(k[0] == hp["name"] and v == "loop" for k, v in HELPER_PAIRS.items()):
                a = dr["args"]["args"]
                cnt = a[0].get("path") if a and a[0].get("k") == "Path" else None
        if cnt is not None:
            cf = fields.get(cnt)
            ok = cf is not None and "calc" in cf["dirs"]["write"]
            detail = "count field `%s` not found or has no bw(calc)" % cnt
            if ok:
                from astq import inline_simple_call
                ce = inline_simple_call(ctx.ast, cf["dirs"]["write"]["calc"]["value"])
                # <this field>.len() as T  with T the count field's type
                ok = ce.get("k") == "Cast" and ce["e"].get("k") == "MethodCall" and ce["e"]["method"] == "len" \
                    and ce["e"]["recv"].get("k") == "Path" and ce["e"]["recv"]["path"] == fi["name"] \
                    and ce["ty"]["text"] == cf["ty"]["text"]
                detail = "count `%s` must be calculated as `%s.len() as %s`; found `%s`" % (cnt, fi["name"], cf["ty"]["text"], cf["dirs"]["write"]["calc"]["raw"])
                # and the count byte precedes the vector
                order = [f["name"] for f in lay["fields"]]
                if ok and order.index(cnt) > order.index(fi["name"]):
                    ok = False
                    detail = "count `%s` is declared after the vector it counts" % cnt
            rep.check(rule + ".2", key + ":count", ok, detail, loc, sample={"vector": key, "count": cnt})
    # calc fields must be referenced by some count
    for fi in lay["fields"]:
        if "calc" in fi["dirs"]["write"] and not fi.get("explicit_pad"):
            used = False
            for f2 in lay["fields"]:
                d2 = f2["dirs"]["read"]
                if "count" in d2 and d2["count"]["value"].get("path") == fi["name"]:
                    used = True
                if "args" in d2 and any(a.get("path") == fi["name"] for a in (d2["args"]["args"] or [])):
                    used = True
            rep.check(rule + ".2", "%s.%s:calc-used" % (sname, fi["name"]), used,
                      "calculated field %s.%s is not the count of any vector" % (sname, fi["name"]), ctx.loc(ent, fi["ln"]), nontrivial=False)
    # struct-level directives must be two-sided unless assert
    for d in lay["struct"]:
        if d["key"] in ("assert", "import", "little", "big", "magic", "repr"):
            if d["key"] in ("magic", "little", "big") and d["attr"] != "brw":
                rep.fail(rule + ".1", "%s:%s" % (sname, d["key"]), "struct-level `%s` on one side only" % d["raw"], ctx.loc(ent))
            continue
        rep.fail(rule + ".1", "%s:struct-directive:%s" % (sname, d["key"]), "struct-level directive `%s` not modelled" % d["raw"], ctx.loc(ent))
    return lay


def args_of(wire, ds):
    out = []
    a = ds.get("args")
    if a is not None and a.get("args") is not None:
        for e in a["args"]:
            v = wire.const_int(e)
            if v is None and e.get("k") == "Lit" and e.get("t") == "bool":
                v = bool(e["v"])
            out.append(v if v is not None else e.get("path"))
    return out


def binrw_structs(ctx, crates):
    out = []
    for (crate, modpath, file, it) in ctx.ast.items:
        if crate in crates and it["k"] == "Struct" and (has_attr(it, "binrw") or has_attr(it, "binread") or has_attr(it, "binwrite")):
            out.append((crate, modpath, file, it))
    return out
