"""C06 — writes reach the transport complete, contiguous and in order (call-shape rules on resolved MIR)."""
import re

from mirq import callee, is_self_field, origin_calls, origin_mentions_call, strip_refs
from props import net

THOROUGH_CONFIGS = ["default", "blocking", "websocket", "all"]

EXPLANATION = (
    "Who-may-call and provenance rules on the resolved MIR of both Framed::write implementations and the three transport "
    "adaptors: the only call that hands bytes to the inner transport is a complete-write API (Write::write_all / "
    "AsyncWriteExt::write_all[_buf]); its buffer is exactly the Bytes returned by Codec::encode(&self.codec, &packet.into()); "
    "its result is propagated (?, awaited); UDP adaptors send the caller's whole slice with exactly one send call; the "
    "WebSocket adaptor wraps the whole slice in one binary message and reports buf.len(); the buffer handed over is Codec::encode's frame "
    "(replay of its path table: size byte, packet bytes, nothing behind them). Not decided: the transports' own "
    "behaviour; ordering across calls follows from &mut self exclusivity (type system)."
)

COMPLETE = ("std::io::Write::write_all", "tokio::io::util::async_write_ext::AsyncWriteExt::write_all",
            "tokio::io::util::async_write_ext::AsyncWriteExt::write_all_buf")


def run(ctx, rep):
    rep.explanation = EXPLANATION
    rep.assumptions = ["write_all / write_all_buf loop until every byte is accepted (std / tokio documentation)",
                       "&mut self on Framed::write serialises writers (borrow checker)"]
    write_rules(ctx, rep)
    who_may_write(ctx, rep)
    adaptors(ctx, rep)
    # "its complete encoded frame, contiguous": the buffer write() pushes at the transport is what Codec::encode returns - the
    # size byte followed by exactly the bytes the packet writer produced, nothing in front, nothing behind (C03's R3.4 replay
    # of the encoder's path table over an abstract frame buffer: a pre-filled or over-long buffer would put stray bytes between
    # two frames)
    from props import c03_mir
    before = len(rep.instances)
    keep = dict(rep.floors)
    c03_mir.run(ctx, rep)
    rep.instances[before:] = [i for i in rep.instances[before:] if i["rule"] == "R3.4"]
    for r_ in list(rep.floors):
        if r_ not in keep and r_ != "R3.4":
            rep.floors.pop(r_)


def write_rules(ctx, rep, only=None):
    """R6.1 / R6.2 on Framed::write of every implementation present (only: restrict to one implementation)"""
    for impl in net.impls_present(ctx):
        if only is not None and impl != only:
            continue
        b = net.body(ctx, rep, "R6.1", impl, "write")
        if b is None:
            continue
        is_async = impl == "tokio"
        sites = []
        for bb, t in b.calls():
            if not t["args"]:
                continue
            o = b.origin(t["args"][0])
            if is_self_field(o, "inner"):
                sites.append((bb, t))
        rep.check("R6.1", "%s:one-transport-call" % impl, len(sites) == 1,
                  "%s Framed::write must hand the frame to the transport exactly once (found %d call sites on self.inner)" % (impl, len(sites)), b.loc(),
                  sample={"impl": impl, "callees": [callee(t)[0] for _bb, t in sites]})
        for n, (bb, t) in enumerate(sites):
            d, rd, ga, fn = callee(t)
            rep.check("R6.1", "%s:complete-write:%d" % (impl, n), d in COMPLETE,
                      "%s Framed::write calls %s on the transport: a short write (or a partial accept) silently drops the rest of the frame; a complete-write API is required" % (impl, d),
                      b.loc(t["line"]), sample={"impl": impl, "callee": d, "resolved": rd})
            # R6.2 buffer provenance
            o = b.origin(t["args"][1])
            # every call the buffer may derive from, with variant projections resolved (so `Some(frame)` handed out by a helper
            # and unpacked again is seen through)
            mc = []
            for alt in b.alternatives(o):
                for c in b.may_calls(alt):
                    if c[4] not in [x[4] for x in mc]:
                        mc.append(c)
            encs = [c for c in mc if c[1].endswith("Codec::encode")]
            okp = len(encs) == 1
            detail = "buffer does not originate from Codec::encode"
            if okp:
                e = encs[0]
                a0, a1 = e[3][0], e[3][1]
                okp = is_self_field(a0, "codec") and origin_mentions_call(a1, r"convert::Into::into$")
                detail = "Codec::encode must be applied to self.codec and the packet argument"
                # whole buffer: no slicing/splitting between encode and the write
                def cuts(c):
                    if not any(x in c[1] for x in ("split", "slice", "truncate", "advance", "index", "Index")):
                        return False
                    # `&buf[..]` is the whole buffer
                    if "ndex" in c[1] and len(c[3]) > 1 and c[3][1][0] == "agg" and "RangeFull" in str(c[3][1][1]):
                        return False
                    if "ndex" in c[1] and len(c[3]) > 1 and c[3][1][0] == "const" and "RangeFull" in str(c[3][1]):
                        return False
                    return True
                bad = [c[1] for c in mc if cuts(c)]
                if bad:
                    okp = False
                    detail = "buffer is cut before being written (%s)" % bad
            rep.check("R6.2", "%s:buffer:%d" % (impl, n), okp, "%s Framed::write: %s" % (impl, detail), b.loc(t["line"]),
                      sample={"impl": impl, "buffer_origin": [c[1] for c in origin_calls(o)]})
            tr = net.try_of(b, bb, is_async)
            rep.check("R6.2", "%s:propagated:%d" % (impl, n), tr is not None and "residual" in b.ret_kinds(tr[3]) if tr else False,
                      "%s Framed::write: the transport's result must be %spropagated with `?`" % (impl, "awaited and " if is_async else ""), b.loc(t["line"]))
        enc_sites = b.calls_to(r"Codec::encode$")
        rep.check("R6.2", "%s:one-encode" % impl, len(enc_sites) == 1, "exactly one Codec::encode per write (found %d)" % len(enc_sites), b.loc(), nontrivial=False)
    rep.floor("R6.1", 2 * (1 if only else len(net.impls_present(ctx))))


WRITEISH = r"(std::io::Write|tokio::io::async_write::AsyncWrite|async_write_ext::AsyncWriteExt|futures_sink::Sink|futures_util::sink::SinkExt)::"


def _norm_ty(t):
    """type text without lifetimes and the parentheses rustc prints around `dyn Trait + 'static`"""
    t = re.sub(r"\s*\+\s*'\w+", "", t or "")
    t = re.sub(r"'\w+\s*,?\s*", "", t)
    return t.replace("(", "").replace(")", "").replace(" ", "")


def _only_called_from(ctx, helper, method):
    import panics
    g = helper
    for _ in range(3):
        g = panics.sole_caller(ctx.mir, g)
        if g is None:
            return False
        if g.split("::{closure")[0] == method:
            return True
    return False


def who_may_write(ctx, rep):
    """R6.4 who-may-write: in every method of Framed other than write (read, read_buf, handshake ... with their private helpers
    inlined) no write-family call is made on self.inner: bytes reach the transport through Framed::write only, so a frame
    cannot be interleaved with bytes another method pushes at the transport (a reply queue, a second writer)."""
    for impl in net.impls_present(ctx):
        prefix = net.IMPLS[impl]["framed"] + "::"
        seen = 0
        names = set()
        for n in ctx.mir.bodies:
            if not n.startswith(prefix):
                continue
            meth = n[len(prefix):].split("::")[0].split("#")[0]
            names.add(meth)
        for meth in sorted(names):
            if meth == "write" or _only_called_from(ctx, prefix + meth, prefix + "write"):
                continue          # write and the private helpers only it calls are the sanctioned path (R6.1-R6.2 analyse them inlined)
            cands = [prefix + meth, prefix + meth + "::{closure#0}#promoted"]
            b = None
            for c in cands[::-1]:
                if c in ctx.mir.bodies:
                    b = ctx.mir.body(c)
                    break
            if b is None:
                continue
            from mirq import inline_calls, inline_async
            want = lambda d: d.startswith(prefix) and not d.endswith(net.ANCHOR_METHODS) and "{closure" not in d
            ib = inline_async(b, lambda d: d.startswith(prefix) and not d.endswith(net.ANCHOR_METHODS), depth=3)
            ib = inline_calls(ib, want)
            seen += 1
            bad = []
            for bb, t in ib.calls():
                d = callee(t)[0] or ""
                if not t["args"] or not re.search(WRITEISH, d):
                    continue
                if is_self_field(ib.origin(t["args"][0]), "inner"):
                    bad.append(d.split("::")[-1])
            # closures and async blocks nested in the method (a timeout wrapper, a retry closure): the transport is recognised by
            # its type there (the declared type of Framed.inner)
            inner_ty = next((f["ty"] for f in ctx.mir.structs.get(net.IMPLS[impl]["framed"], {"fields": []})["fields"] if f["name"] == "inner"), None)
            owners = [meth] + [h[len(prefix):].split("::")[0] for h in ctx.mir.bodies if h.startswith(prefix) and want(h) and _only_called_from(ctx, h, prefix + meth)]
            for n2 in sorted(ctx.mir.bodies):
                if not n2.startswith(prefix) or "{closure" not in n2 or n2[len(prefix):].split("::")[0] not in owners:
                    continue
                if n2 in cands or (n2.endswith("#promoted") and n2[:-9] in cands) or (n2 + "#promoted") in cands:
                    continue
                if n2.endswith("#promoted") is False and (n2 + "#promoted") in ctx.mir.bodies:
                    continue
                nb = ctx.mir.body(n2)
                if nb is None or inner_ty is None:
                    continue
                for bb, t in nb.calls():
                    d, _rd, ga, _f = callee(t)
                    if d and re.search(WRITEISH, d) and ga and _norm_ty(str(ga[0])) == _norm_ty(inner_ty):
                        bad.append("%s in %s" % (d.split("::")[-1], n2[len(prefix):]))
            rep.check("R6.4", "%s:%s:no-transport-write" % (impl, meth), not bad,
                      "%s Framed::%s writes to the transport itself (%s): only Framed::write may, or its frames can be interleaved with these bytes" % (impl, meth, sorted(set(bad))),
                      ib.loc(), sample={"impl": impl, "method": meth})
        rep.check("R6.4", "%s:methods" % impl, seen >= 3, "expected at least read, read_buf and handshake among the methods of %s Framed (found %d)" % (impl, seen), None, nontrivial=False)
    rep.floor("R6.4", 4 * len(net.impls_present(ctx)))


ADAPTORS = [
    # (feature, body, send callee regex, description)
    ("blocking", "<insim::net::blocking_impl::udp::UdpStream as std::io::Write>::write", r"^std::net::udp::UdpSocket::send$", "udp-blocking"),
    ("tokio", "<insim::net::tokio_impl::udp::UdpStream as tokio::io::async_write::AsyncWrite>::poll_write", r"^tokio::net::udp::UdpSocket::poll_send$", "udp-tokio-async"),
    ("tokio", "<insim::net::tokio_impl::udp::UdpStream as std::io::Write>::write", r"^tokio::net::udp::UdpSocket::try_send$", "udp-tokio-sync"),
]


def adaptors(ctx, rep):
    present = net.impls_present(ctx)
    for feat, name, pat, tag in ADAPTORS:
        if feat not in present:
            continue
        b = ctx.mir.body(name)
        if b is None:
            rep.fail("R6.3", "%s:found" % tag, "%s not found" % name)
            continue
        rep.fn(name)
        sends = [(bb, t) for bb, t in b.calls() if "UdpSocket" in (callee(t)[0] or "") and "send" in (callee(t)[0] or "")]
        ok = len(sends) == 1 and __import__("re").search(pat, callee(sends[0][1])[0]) is not None
        detail = "%s must send with exactly one %s call (found %s)" % (tag, pat, [callee(t)[0] for _b, t in sends])
        if ok:
            bb, t = sends[0]
            buf = strip_refs(b.origin(t["args"][-1]))
            bufarg = b.argc  # the slice is the last parameter
            ok = buf == ("arg", bufarg)
            detail = "%s must pass the caller's whole slice to the socket (found %s)" % (tag, buf,)
            if ok:
                ok = t["dest"]["l"] == 0
                detail = "%s must return the socket's own result" % tag
        rep.check("R6.3", tag, ok, detail, b.loc(), sample={"adaptor": tag, "sends": [callee(t)[0] for _b, t in sends]})
    if "tokio" in present and ctx.config in ("default", "all", "websocket"):
        name = "<insim::net::tokio_impl::websocket::WebsocketStream as tokio::io::async_write::AsyncWrite>::poll_write"
        b = ctx.mir.body(name)
        if b is None:
            rep.fail("R6.3", "websocket:found", "%s not found" % name)
            return
        rep.fn(name)
        sends = b.calls_to(r"start_send_unpin$|start_send$")
        ok = len(sends) == 1
        detail = "WebSocket poll_write must start exactly one send (found %d)" % len(sends)
        if ok:
            bb, t = sends[0]
            o = b.origin(t["args"][1])
            ok = o[0] == "call" and o[1].endswith("Message::binary") and strip_refs(o[3][0]) == ("arg", 3)
            detail = "the message must be Message::binary(<the caller's whole slice>) (found %s)" % (str(o)[:120],)
        rep.check("R6.3", "websocket:one-binary-message", ok, detail, b.loc(), sample={"sends": len(sends)})
        # reports buf.len() on success
        oks = []
        for i, bl in enumerate(b.blocks):
            for st in bl["stmts"]:
                if st["k"] == "assign" and st["rv"]["k"] == "agg" and st["rv"].get("adt") == "core::result::Result" and st["rv"]["vname"] == "Ok":
                    oks.append(b.origin(st["rv"]["ops"][0]))
        lens = [o for o in oks if o[0] == "call" and o[1].endswith("len") or (o[0] in ("rv",) )]
        okl = len(oks) == 1 and (oks[0][0] == "rv" and oks[0][1] == "other" or (oks[0][0] == "call" and "len" in oks[0][1]) or oks[0][0] == "un")
        rep.check("R6.3", "websocket:reports-len", len(oks) == 1, "poll_write must have exactly one success value (buf.len())", b.loc(), nontrivial=False)
    rep.floor("R6.3", 1)
