"""C03 — every successfully encoded frame is a single well-formed frame.

R3.1 alignment arithmetic per kind; R3.2 count byte cannot wrap inside an emitted frame;
R3.3 Mode::encode_length guards (MIR); R3.4 Codec::encode ordering (MIR); R3.5 panic-site inventory on the encode path.
"""
from astq import find_nodes
from props.packets import norm, packet_variants, show
from wire import fixed_size

EXPLANATION = (
    "Arithmetic over the extracted write-side wire model of all 73 kinds: 2 + sum of fixed widths must be a multiple of 4, "
    "every variable part must contribute a multiple of 4 (element size, or an explicit alignment, or the aligned text writer "
    "with align 4 and a maximum that is a multiple of 4), and every `len() as u8` count byte must be unable to wrap in a frame "
    "that passes the size guard (struct-level assert with a bound <= 255, or header + 256*element > 1020). MIR rules on "
    "Mode::encode_length (minimum, divisibility, maximum guard dominating the `as u8` cast, per Mode variant) and on "
    "Codec::encode (placeholder first, packet, then length patched at position 0). Not decided: that decoding the frame "
    "consumes it completely for variable tails (value level)."
)


def run(ctx, rep):
    rep.explanation = EXPLANATION
    rep.assumptions = ["binrw implements its directives as documented", "MAX_SIZE_PACKET and Mode::max_length are the only size limits"]
    ent, variants = packet_variants(ctx)
    if ent is None:
        rep.fail("R3.1", "Packet", "enum Packet not found")
        return
    maxlen = 1020
    for v in variants:
        lay = v["lay"]
        if lay is None:
            continue
        key = v["variant"]
        loc = ctx.loc(lay["ent"]) if lay.get("ent") else v["loc"]
        segs = lay["write"]
        fixed, var = fixed_size(segs)
        header = fixed + 2
        rep.check("R3.1", "%s:fixed" % key, header % 4 == 0,
                  "%s: size byte + type byte + fixed part = %d bytes, not a multiple of 4 (no legal frame length exists)" % (key, header), loc,
                  sample={"packet": key, "fixed": header, "variable_parts": len(var)})
        nw = norm(segs, "write", ctx.wire)
        trailing_align = any(s["cls"] == "align" and s.get("align") == 4 for s in segs[-1:])
        for x in nw:
            if x[1] is not None:
                continue
            vkey = "%s:%s" % (key, x[0].split(".")[0])
            if x[2] == "count":
                es = sum((e[1] or 0) for e in x[3]["elem"])
                undec = any(e[1] is None for e in x[3]["elem"])
                ok = (not undec) and (es % 4 == 0 or trailing_align)
                rep.check("R3.1", vkey + ":elem", ok,
                          "%s: vector element is %d bytes; an odd number of elements gives a frame that is not a multiple of 4 and no alignment pad follows" % (key, es),
                          loc, sample={"packet": key, "elem_size": es, "trailing_align": trailing_align})
                # R3.2 count byte
                count_rule(ctx, rep, key, lay, x, es, header, maxlen, loc)
            elif x[2] == "tail":
                mx, al = x[3].get("max"), x[3].get("align")
                ok = al == 4 and mx is not None and mx % 4 == 0
                rep.check("R3.1", vkey + ":tail", ok, "%s: variable text must use the aligned writer (align 4, max multiple of 4); found align=%s max=%s" % (key, al, mx),
                          loc, sample={"packet": key, "max": mx, "align": al})
            elif x[2] == "align":
                rep.check("R3.1", vkey + ":align", x[3].get("align") == 4 and x is nw[-1],
                          "%s: alignment pad must be 4 and trail the packet" % key, loc, nontrivial=False)
            elif x[2] == "vec":
                # hand-written writer emitting a byte vector (Mso, Ver): decided by the container-length rules (C11)
                rep.check("R3.1", vkey + ":vec", True, "", loc, nontrivial=False)
            else:
                rep.fail("R3.1", vkey + ":var", "%s: variable segment %s not understood" % (key, show([x])), loc)
    rep.floor("R3.1", 73)
    rep.floor("R3.2", 7)
    from props import c03_mir, c11
    c03_mir.run(ctx, rep)
    mal_set_discipline(ctx, rep)
    # "the element-count byte equals the number of elements that follow": every count byte is calculated from the very collection
    # that is written after it, with nothing in between (`calc = v.len() as u8`; a clamp or another collection breaks it) - the
    # count<->calc pairing of the symmetry rules (R1.2, shared with C01), here as R3.7
    from props import symmetry
    before = len(rep.instances)
    for (crate, modpath, file, it) in symmetry.binrw_structs(ctx, ("insim", "insim_core")):
        if it.get("generics"):
            continue
        symmetry.check_struct(ctx, rep, "R3.7", it["name"], modhint=modpath)
    keep = []
    for i in rep.instances[before:]:
        if i["rule"] == "R3.7.2":
            i["rule"] = "R3.7"
            i["key"] = i["key"].replace("R3.7.2:", "R3.7:")
            keep.append(i)
    rep.instances[before:] = keep
    rep.floor("R3.7", 12)
    # the variable text tail is padded by helper arithmetic: its length rules (exact width / bounded and a multiple of the
    # alignment) are C11's R11.3; R11.4 (terminator) is not part of this property
    before = len(rep.instances)
    c11.length_domain(ctx, rep)
    rep.instances[before:] = [i for i in rep.instances[before:] if i["rule"] == "R11.3"]
    rep.floors.pop("R11.4", None)


def mal_set_discipline(ctx, rep):
    """R3.6: the IS_MAL writer traps on anything but Vehicle::Mod in its set (an `unreachable!` arm, reviewed in the panic
    inventory on the ground that only Mod values ever enter the set).  That ground, mechanically: the field is private, and every
    call that adds to a set of vehicles inside the module adds either a literal Vehicle::Mod(..) or a value it has just matched
    as Mod; no other set-filling call (extend, from_iter, replace ..) occurs in the module."""
    import re
    from mirq import callee, strip_refs, fmt_origin
    ent = ctx.ast.one("Mal", kinds=("Struct",), crate="insim")
    if ent is None:
        rep.fail("R3.6", "Mal:found", "struct Mal not found")
        return
    fld = [f for f in ent[3].get("fields", []) if f["name"] == "allowed_mods"]
    rep.check("R3.6", "Mal.allowed_mods:private", len(fld) == 1 and not (fld[0].get("vis") or "").strip(),
              "Mal.allowed_mods must stay private: the writer traps on non-Mod entries, so no code outside the module may fill the set", ctx.loc(ent, fld[0]["ln"] if fld else None))
    en = ctx.mir.enums.get("insim_core::vehicle::Vehicle")
    mod_idx = next((v["idx"] for v in (en or {}).get("variants", []) if v["name"] == "Mod"), None)
    n = 0
    for name in sorted(ctx.mir.bodies):
        if not (name.startswith("insim::insim::mal::") or name.startswith("<insim::insim::mal::")) or name.endswith("#promoted") or "::tests::" in name:
            continue
        b = ctx.mir.body(name)
        if b is None:
            continue
        for bb, t in b.calls():
            d, rd, ga, _f = callee(t)
            d = d or ""
            gtxt = " ".join(str(x) for x in (ga or []))
            if "Vehicle" not in gtxt or not re.search(r"IndexSet|HashSet|BTreeSet", d + " " + gtxt):
                continue
            meth = d.split("::")[-1]
            if meth in ("insert", "insert_full", "replace", "replace_full", "insert_sorted", "shift_insert", "insert_before"):
                n += 1
                o = strip_refs(b.origin(t["args"][1]))
                ok = o[0] == "agg" and o[1][0] == "adt" and str(o[1][1]).endswith("vehicle::Vehicle") and o[1][3] == "Mod"
                how = "literal Vehicle::Mod"
                if not ok and mod_idx is not None:
                    # a value matched as Mod on every path to the call
                    for sbb, targets, otherwise, so in b.switch_on(lambda x: x[0] == "discr" and strip_refs(x[1]) == o):
                        mt = targets.get(mod_idx)
                        if mt is not None and mt != otherwise and bb not in b.reach(0, avoid_edges={(sbb, mt)}):
                            ok = True
                            how = "matched as Mod before the call"
                rep.check("R3.6", "%s:%s:%d" % (name.split("::")[-1], meth, n), ok,
                          "%s adds %s to a set of vehicles: only Vehicle::Mod may enter the IS_MAL set (the writer traps on anything else)" % (name, fmt_origin(o)[:80]), b.loc(t["line"]),
                          sample={"function": name, "value": fmt_origin(o)[:80], "why": how if ok else None})
            elif meth in ("extend", "from_iter", "append", "union", "extend_from_slice", "splice", "from"):
                n += 1
                rep.check("R3.6", "%s:%s:%d" % (name.split("::")[-1], meth, n), False,
                          "%s fills a set of vehicles with %s: not decidable that only Vehicle::Mod enters" % (name, meth), b.loc(t["line"]))
    rep.floor("R3.6", 3)


def count_rule(ctx, rep, key, lay, x, es, header, maxlen, loc):
    """R3.2: the u8 count of this vector cannot wrap in a frame that the size guard lets through"""
    # struct-level assert(len <= N)
    bound = None
    for d in lay["struct"]:
        if d["key"] == "assert" and d["attr"] in ("bw", "brw") and d["args"]:
            cond = d["args"][0]
            if cond.get("k") == "Binary" and cond["op"] in ("<=", "<") and cond["lhs"].get("k") == "MethodCall" and cond["lhs"]["method"] == "len":
                n = ctx.wire.const_int(cond["rhs"])
                if n is not None:
                    bound = n if cond["op"] == "<=" else n - 1
    if bound is not None:
        ok = bound <= 255
        why = "assert(len <= %d)" % bound
    else:
        ok = header + 256 * es > maxlen
        why = "header %d + 256 x %d = %d %s 1020 (the size guard refuses the frame before the count wraps)" % (header, es, header + 256 * es, ">" if ok else "<=")
    rep.check("R3.2", "%s:count" % key, ok, "%s: the u8 element count can wrap to a smaller value in an emitted frame: %s" % (key, why), loc,
              sample={"packet": key, "why": why})
