"""C14 — Track table coherence (decided completely for the tables)."""
import re

import tables

EXPLANATION = (
    "All per-variant tables of insim_core::track::Track are extracted from the syntax tree (match arms and matches! lists) and "
    "compared relationally for every variant of the enum declaration: write(v) = code(v) NUL-padded to 6; exactly one read "
    "pattern per variant, equal to write(v), patterns pairwise distinct, catch-all is an error; is_reverse <=> code ends in R|Y; "
    "is_open <=> code ends in X|Y; open => no lap distance; one licence per two-letter area; Display delegates to code; every table "
    "has exactly one row per variant. Exhaustive over the finite tables; binrw's array codec is trusted."
)


def run(ctx, rep):
    rep.explanation = EXPLANATION
    rep.assumptions = ["binrw reads/writes [u8; 6] as six consecutive bytes"]
    ent = ctx.ast.one("Track", kinds=("Enum",), crate="insim_core")
    if ent is None:
        rep.fail("R14.0", "Track", "enum insim_core::track::Track not found")
        return
    variants = [v["name"] for v in ent[3]["variants"]]
    rep.check("R14.0", "variants", len(variants) >= 100 and len(set(variants)) == len(variants), "variant list", ctx.loc(ent), nontrivial=False)

    def method(name, trait=None):
        ms = ctx.ast.method("Track", name, trait=trait, crate="insim_core")
        if len(ms) != 1:
            rep.fail("R14.0", "fn:%s" % name, "Track::%s not found (anchor lost)" % name)
            return None
        rep.fn("insim_core::track::Track::%s" % name)
        return ms[0]

    def table(name, conv, trait=None):
        m = method(name, trait)
        if m is None:
            return None, None
        e, it = m
        mt = tables.first_match(it["body"])
        if mt is None:
            rep.fail("R14.0", "table:%s" % name, "no match table in Track::%s" % name, ctx.loc(e, it["ln"]))
            return None, None
        t = {}
        dup = []
        for (p, b, g, ln) in tables.rows(mt["arms"]):
            if p[0] != "var":
                continue
            if p[1] in t:
                dup.append(p[1])
            t[p[1]] = (conv(b), ln)
        rep.check("R14.1", "%s:rows" % name, not dup and set(t) == set(variants),
                  "Track::%s must have exactly one row per variant (duplicates %s, missing %s, extra %s)"
                  % (name, dup, sorted(set(variants) - set(t))[:5], sorted(set(t) - set(variants))[:5]), ctx.loc(e, it["ln"]),
                  sample={"table": name, "rows": len(t)})
        return t, e

    code, ce = table("code", lambda b: b[1] if b[0] == "str" else None)
    lic, le = table("license", lambda b: b[1] if b[0] == "path" else None)
    dist, de = table("distance_mile", lambda b: None if b == ("path", "None") else b)
    name_t, ne = table("complete_name", lambda b: b[1] if b[0] == "str" else None)
    wr, we = table("write_options", lambda b: tables.bytes_of(b[2]) if b[0] == "method" and b[1] == "write_options" else None, trait="BinWrite")
    if not (code and lic and dist and wr):
        return
    # reader
    m = method("read_options", "BinRead")
    rd = {}
    if m:
        e, it = m
        mt = tables.first_match(it["body"])

        def seq_rows(mt_):
            return len([1 for (p, b, g, ln) in tables.rows(mt_["arms"]) if p[0] == "seq"]) if mt_ else 0
        if seq_rows(mt) < len(variants) // 2:
            # the byte table may live in a private helper of Track that read_options calls: follow calls by name
            from astq import find_nodes
            names_called = set()
            for n in find_nodes(it["body"], lambda n: n.get("k") in ("Call", "MethodCall", "Path")):
                pth = n.get("path") or (n.get("func") or {}).get("path") or n.get("method") or ""
                if isinstance(pth, str) and pth:
                    names_called.add(pth.split("::")[-1])
            for nm in sorted(names_called):
                for (e2, it2) in ctx.ast.method("Track", nm, crate="insim_core"):
                    mt2 = tables.first_match(it2["body"])
                    if seq_rows(mt2) >= len(variants) // 2:
                        e, it, mt = e2, it2, mt2
                        rep.fn("insim_core::track::Track::%s" % nm)
                        rep.notes.append("R14.2: reader table found in helper Track::%s called from read_options" % nm)
        seen = {}
        catch_all_err = False
        for (p, b, g, ln) in tables.rows(mt["arms"]) if mt else []:
            if p[0] == "seq":
                bs = tables.bytes_of(p)
                var = b[2][0][1].split("::")[-1] if b[0] == "call" and b[1] == "Ok" and b[2] and b[2][0][0] == "path" else None
                rep.check("R14.2", "read:%s:distinct" % var, bs not in seen and bs is not None and var is not None and not g,
                          "read pattern %r appears twice or is not a literal row (also maps to %s)" % (bs, seen.get(bs)), ctx.loc(e, ln), nontrivial=False)
                seen[bs] = var
                rd.setdefault(var, []).append((bs, ln))
            elif p[0] in ("wild", "bind"):
                catch_all_err = b[0] == "call" and b[1] == "Err"
        rep.check("R14.2", "read:catch-all", catch_all_err, "unmatched 6-byte values must be an error", ctx.loc(e, it["ln"]))
        rep.check("R14.1", "read_options:rows", set(rd) == set(variants) and all(len(x) == 1 for x in rd.values()),
                  "reader must have exactly one pattern per variant (missing %s, multiple %s)" % (sorted(set(variants) - set(rd))[:5], [k for k, x in rd.items() if len(x) > 1][:5]),
                  ctx.loc(e, it["ln"]), sample={"table": "read_options", "rows": len(rd)})
    # Display
    dm = ctx.ast.method("Track", "fmt", trait="Display", crate="insim_core")
    if dm:
        from astq import find_nodes
        calls = find_nodes(dm[0][1]["body"], lambda n: n.get("k") == "MethodCall" and n["method"] == "code" and n["recv"].get("path") == "self")
        rep.check("R14.5", "Display", len(calls) == 1, "Display for Track must print self.code()", ctx.loc(dm[0][0], dm[0][1]["ln"]))
    else:
        rep.fail("R14.5", "Display", "impl Display for Track not found")
    is_rev = method("is_reverse")
    is_open = method("is_open")
    rev_set = tables.matches_set(is_rev[1]["body"]) if is_rev else None
    open_set = tables.matches_set(is_open[1]["body"]) if is_open else None
    for nm, st, m in (("is_reverse", rev_set, is_rev), ("is_open", open_set, is_open)):
        if st is None:
            rep.fail("R14.0", "table:%s" % nm, "no matches! list in Track::%s" % nm)
            continue
        names = [x[1] for x in st[0] if x[0] == "var"]
        rep.check("R14.1", "%s:rows" % nm, len(names) == len(set(names)) and set(names) <= set(variants) and len(names) == len(st[0]),
                  "Track::%s lists a variant twice or an unknown pattern" % nm, ctx.loc(m[0], st[1]), nontrivial=False)
    revs = {x[1] for x in rev_set[0]} if rev_set else set()
    opens = {x[1] for x in open_set[0]} if open_set else set()
    area_lic = {}
    codes_seen = {}
    for v in variants:
        c, ln = code.get(v, (None, None))
        loc = ctx.loc(ce, ln)
        ok_shape = c is not None and re.match(r"^[A-Z]{2}[0-9]{1,2}[A-Z]?$", c) is not None and len(c) <= 6
        rep.check("R14.3", "%s:code-shape" % v, ok_shape, "code %r of %s is not letter letter digit[digit][letter]" % (c, v), loc, nontrivial=False)
        if c is None:
            continue
        rep.check("R14.3", "%s:code-unique" % v, c not in codes_seen, "code %r used by %s and %s" % (c, v, codes_seen.get(c)), loc, nontrivial=False)
        codes_seen[c] = v
        padded = c.encode() + b"\0" * (6 - len(c))
        w = wr.get(v, (None, None))
        rep.check("R14.2", "%s:write" % v, w[0] == padded, "write(%s) = %r but code NUL-padded to 6 is %r" % (v, w[0], padded), ctx.loc(we, w[1]),
                  sample={"variant": v, "code": c, "write": list(w[0]) if w[0] else None})
        r = rd.get(v, [])
        rep.check("R14.2", "%s:read" % v, len(r) == 1 and r[0][0] == padded, "read pattern for %s is %r, expected %r" % (v, [x[0] for x in r], padded),
                  ctx.loc(ent, r[0][1]) if r else loc)
        rep.check("R14.4", "%s:is_reverse" % v, (v in revs) == (c[-1] in "RY"), "is_reverse(%s)=%s but code %s" % (v, v in revs, c), loc,
                  sample={"variant": v, "code": c, "reverse": v in revs, "open": v in opens})
        rep.check("R14.4", "%s:is_open" % v, (v in opens) == (c[-1] in "XY"), "is_open(%s)=%s but code %s" % (v, v in opens, c), loc)
        d = dist.get(v, (None, None))
        if c[-1] in "XY":
            rep.check("R14.4", "%s:open-distance" % v, d[0] is None, "open configuration %s has a lap distance %s" % (v, d[0]), ctx.loc(de, d[1]))
        l = lic.get(v, (None, None))
        area = c[:2]
        if area in area_lic:
            rep.check("R14.4", "%s:licence" % v, area_lic[area][0] == l[0], "licence of %s (%s) differs from %s (%s) in the same area %s" % (v, l[0], area_lic[area][1], area_lic[area][0], area), ctx.loc(le, l[1]))
        else:
            area_lic[area] = (l[0], v)
            rep.check("R14.4", "%s:licence" % v, l[0] is not None and l[0].startswith("License::"), "licence row of %s" % v, ctx.loc(le, l[1]), nontrivial=False)
    rep.floor("R14.2", 2 * 154)
    rep.floor("R14.4", 3 * 154)
    rep.floor("R14.1", 7)
    rep.coverage_exhaustive = True
