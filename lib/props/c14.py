"""C14 — Track table coherence (decided completely for the tables)."""
import re

import tables

EXPLANATION = (
    "All per-variant tables of insim_core::track::Track are extracted from the syntax tree (match arms and matches! lists) and "
    "compared relationally for every variant of the enum declaration: write(v) = code(v) NUL-padded to 6; exactly one read "
    "pattern per variant, equal to write(v), patterns pairwise distinct, catch-all is an error; is_reverse <=> code ends in R|Y; "
    "is_open <=> code ends in X|Y; open => no lap distance; one licence per two-letter area; Display delegates to code; every table "
    "has exactly one row per variant. Exhaustive over the finite tables; binrw's array codec is trusted."
)


class Undecided(Exception):
    pass


def variant_list(body, variants):
    """the `matches!(self, A | B | ..)` list of a flag method, when that is what the method is"""
    st = tables.matches_set(body)
    if st is None:
        return None
    if not any(x[0] == "var" and x[1] in variants for x in st[0]):
        return None
    stmts = body["stmts"] if isinstance(body, dict) and body.get("k") == "Block" else body
    if not (isinstance(stmts, list) and len(stmts) == 1 and stmts[0].get("k") == "Expr" and stmts[0]["e"].get("k") == "Matches"):
        return None          # the list is only part of the answer (an early return, a helper, `||`): evaluate the method instead
    return st


def truth(v):
    if isinstance(v, bool):
        return v
    raise Undecided("result is not a bool")


def pat_match(p, v):
    k = p["k"]
    if k == "Wild":
        return True
    if k == "Or":
        return any(pat_match(c, v) for c in p["cases"])
    if k == "Ref":
        return pat_match(p["pat"], v)
    if k == "Lit":
        if p["t"] in ("int", "byte"):
            return v == int(p["v"])
        if p["t"] in ("char", "str"):
            return v == p["v"]
    if k == "Range":
        lo = lit_val(p["lo"]) if p["lo"] else None
        hi = lit_val(p["hi"]) if p["hi"] else None
        if type(v) not in (int, str) or any(x is not None and type(x) is not type(v) for x in (lo, hi)):
            raise Undecided("range pattern")
        return (lo is None or lo <= v) and (hi is None or (v <= hi if p["inclusive"] else v < hi))
    if k == "TupleStruct" and p["path"].split("::")[-1] == "Some" and len(p["elems"]) == 1:
        return isinstance(v, tuple) and v[0] == "some" and pat_match(p["elems"][0], v[1])
    if k == "Path" and p["path"].split("::")[-1] == "None":
        return v == ("none",)
    if k == "Slice":
        if not isinstance(v, (bytes, list)):
            raise Undecided("slice pattern")
        els = p["elems"]
        rest = [i for i, e in enumerate(els) if e["k"] == "Rest" or (e["k"] == "Ident" and e.get("sub", {}) and e["sub"].get("k") == "Rest")]
        seq = list(v)
        if not rest:
            return len(seq) == len(els) and all(pat_match(e, x) for e, x in zip(els, seq))
        if len(rest) == 1:
            i = rest[0]
            tail = els[i + 1:]
            if len(seq) < len(els) - 1:
                return False
            return all(pat_match(e, x) for e, x in zip(els[:i], seq)) and all(pat_match(e, x) for e, x in zip(tail, seq[len(seq) - len(tail):]))
    raise Undecided("pattern %s" % k)


def lit_val(e):
    if e["k"] == "Lit":
        if e["t"] in ("int", "byte"):
            return int(e["v"])
        if e["t"] in ("char", "str"):
            return e["v"]
        if e["t"] == "bool":
            return e["v"] in (True, "true")
        if e["t"] == "bytestr":
            return bytes(e["v"]) if isinstance(e["v"], list) else e["v"].encode()
    raise Undecided("literal")


def flag_eval(ctx, it, variant, code, depth=3):
    """value of a `&self -> bool` method of Track for one variant, for bodies that compute the answer from the code string
    (`self.code()`/a helper returning the code, `as_bytes`, `last`, `ends_with`, `chars().last()`, `matches!`, `==`, `||`, `&&`)"""
    body = it["body"]
    if isinstance(body, dict) and body.get("k") == "Block":
        body = body["stmts"]

    class Return(Exception):
        def __init__(self, v):
            self.v = v

    def run_block(stmts):
        """value of a block of `if c { return x; }` statements followed by a tail expression"""
        if isinstance(stmts, dict) and stmts.get("k") == "Block":
            stmts = stmts["stmts"]
        if isinstance(stmts, dict):
            return ev(stmts)
        last = None
        for i, st in enumerate(stmts):
            if st.get("k") != "Expr":
                raise Undecided("statement %s" % st.get("k"))
            e = st["e"]
            if i == len(stmts) - 1:
                return ev(e)
            if e.get("k") == "If" and e.get("else") is None:
                if truth(ev(e["cond"])):
                    run_block(e["then"])
                continue
            if e.get("k") == "Return":
                raise Return(ev(e["e"]))
            raise Undecided("statement form")
        return last

    def ev(e):
        k = e["k"]
        if k == "Block" and len(e["stmts"]) == 1 and e["stmts"][0]["k"] == "Expr":
            return ev(e["stmts"][0]["e"])
        if k == "Paren" or k == "Ref":
            return ev(e["e"])
        if k == "Lit":
            return lit_val(e)
        if k == "Return":
            raise Return(ev(e["e"]))
        if k == "If":
            if truth(ev(e["cond"])):
                return run_block(e["then"])
            if e.get("else") is None:
                raise Undecided("if without else as a value")
            return run_block(e["else"]) if e["else"].get("k") == "Block" else ev(e["else"])
        if k == "Matches" and e["e"].get("k") == "Path" and e["e"]["path"] == "self":
            # matches!(self, Self::A | Self::B ..): is this variant listed
            p = tables.pdesc(e["pat"])
            ps = p[1] if p[0] == "or" else (p,)
            if not all(x[0] == "var" for x in ps):
                raise Undecided("pattern on self")
            return variant in {x[1] for x in ps}
        if k == "Matches":
            return pat_match(e["pat"], ev(e["e"]))
        if k == "Unary" and e["op"] == "!":
            return not truth(ev(e["e"]))
        if k == "Unary" and e["op"] == "*":
            return ev(e["e"])
        if k == "Binary":
            if e["op"] == "||":
                return truth(ev(e["lhs"])) or truth(ev(e["rhs"]))
            if e["op"] == "&&":
                return truth(ev(e["lhs"])) and truth(ev(e["rhs"]))
            if e["op"] in ("==", "!="):
                a, b = ev(e["lhs"]), ev(e["rhs"])
                if type(a) is not type(b):
                    raise Undecided("comparison of unlike values")
                return (a == b) == (e["op"] == "==")
            raise Undecided("operator %s" % e["op"])
        if k == "Call" and e["func"]["k"] == "Path" and e["func"]["path"].split("::")[-1] == "Some" and len(e["args"]) == 1:
            return ("some", ev(e["args"][0]))
        if k == "Path" and e["path"].split("::")[-1] == "None":
            return ("none",)
        if k == "MethodCall":
            mth = e["method"]
            if e["recv"].get("k") == "Path" and e["recv"]["path"] == "self":
                ms = ctx.ast.method("Track", mth, crate="insim_core")
                if len(ms) != 1 or e["args"]:
                    raise Undecided("self.%s" % mth)
                e2, it2 = ms[0]
                # a method that (directly or through a helper) is the code table
                def tablelike(mt_):
                    return len([1 for (p, b, g, ln) in tables.rows(mt_["arms"]) if p[0] == "var" and b[0] == "str"]) >= len(code) // 2
                _, it3, mt = tables.follow_match(ctx.ast, "Track", e2, it2, tablelike, crate="insim_core")
                if mt is not None:
                    for (p, b, g, ln) in tables.rows(mt["arms"]):
                        if p[0] == "var" and p[1] == variant and b[0] == "str":
                            return b[1]
                    raise Undecided("no row for %s in Track::%s" % (variant, it3["sig"]["name"]))
                if depth > 0:
                    return flag_eval(ctx, it2, variant, code, depth - 1)
                raise Undecided("self.%s" % mth)
            r = ev(e["recv"])
            args = e["args"]
            if mth in ("to_string", "as_str", "to_owned", "as_ref", "clone", "copied", "cloned", "iter", "into_iter", "to_vec", "borrow") and not args:
                return r
            if mth in ("as_bytes", "bytes") and isinstance(r, str) and not args:
                return r.encode()
            if mth == "chars" and isinstance(r, str) and not args:
                return list(r)
            if mth in ("last", "next_back") and isinstance(r, (bytes, list)) and not args:
                return ("some", r[-1]) if len(r) else ("none",)
            if mth in ("first", "next") and isinstance(r, (bytes, list)) and not args:
                return ("some", r[0]) if len(r) else ("none",)
            if mth == "rev" and isinstance(r, (bytes, list)) and not args:
                return r[::-1]
            if mth == "len" and isinstance(r, (bytes, list, str)) and not args:
                return len(r)
            if mth in ("ends_with", "starts_with", "contains") and len(args) == 1 and isinstance(r, (str, bytes)):
                a = args[0]
                if a["k"] in ("Array", "Ref") and (a.get("elems") or (a.get("e") or {}).get("elems")):
                    els = a.get("elems") or a["e"]["elems"]
                    cands = [lit_val(x) for x in els]
                    if isinstance(r, bytes):
                        # ends_with(&[..]) on a byte slice is a suffix, not an alternative
                        cands = [bytes(cands)]
                elif a["k"] == "Closure":
                    raise Undecided("closure pattern")
                else:
                    cands = [ev(a)]
                res = False
                for c in cands:
                    if isinstance(r, bytes) and isinstance(c, int):
                        c = bytes([c])
                    if type(c) is not type(r):
                        raise Undecided("pattern type")
                    res = res or (r.endswith(c) if mth == "ends_with" else r.startswith(c) if mth == "starts_with" else c in r)
                return res
            if mth in ("is_some_and", "map_or") and isinstance(r, tuple) and r[0] in ("some", "none"):
                clo = args[-1]
                if clo["k"] != "Closure" or len(clo["inputs"]) != 1:
                    raise Undecided("callable")
                if r[0] == "none":
                    return False if mth == "is_some_and" else ev(args[0])
                return bind(clo, r[1])
            if mth == "is_some" and isinstance(r, tuple):
                return r[0] == "some"
            if mth == "is_none" and isinstance(r, tuple):
                return r[0] == "none"
            if mth in ("unwrap", "unwrap_or_default") and isinstance(r, tuple) and r[0] == "some":
                return r[1]
            raise Undecided("method %s" % mth)
        if k == "Path" and e["path"] in env:
            return env[e["path"]]
        raise Undecided("expression %s" % k)

    env = {}

    def bind(clo, val):
        prm = clo["inputs"][0]
        while prm.get("k") in ("Ref", "Typed"):
            prm = prm["pat"]
        if prm.get("k") != "Ident":
            raise Undecided("closure parameter")
        env[prm["name"]] = val
        try:
            return ev(clo["body"])
        finally:
            env.pop(prm["name"], None)
    try:
        return run_block(body) if isinstance(body, list) else ev(body)
    except Return as r:
        return r.v


def bytes_unmodified(ctx, rep):
    """R14.2 (reader side, on MIR): the six bytes that are matched against the table are the six bytes that were read - nowhere
    in Track's reader (its closures and the Track helpers it calls) is a byte array / byte slice handed out mutably or stored
    into.  A reader that normalises the bytes first (zeroing after a NUL, upper-casing) makes several wire values decode to one
    configuration although the table itself is unchanged."""
    from mirq import callee
    fam = [n for n in sorted(ctx.mir.bodies) if n.startswith("<insim_core::track::Track as binrw::binread::BinRead>::read_options") and not n.endswith("#promoted")]
    called = set()
    for n in fam:
        b = ctx.mir.body(n)
        for _bb, t in (b.calls() if b is not None else []):
            d = callee(t)[1] or callee(t)[0] or ""
            if d.startswith("insim_core::track::") and d in ctx.mir.bodies:
                called.add(d)
    bad = []
    for n in fam + sorted(called):
        b = ctx.mir.body(n)
        if b is None:
            continue
        for bb, t in b.calls():
            for ai, aty in enumerate(t.get("argtys") or []):
                if re.match(r"^&mut \[u8(; \d+)?\]$", str(aty)):
                    bad.append("%s hands the bytes mutably to %s" % (n.split("::")[-1], (callee(t)[0] or "?").split("::")[-1]))
        for bl in b.blocks:
            for st in bl["stmts"]:
                if st["k"] == "assign" and st["place"]["p"] and re.match(r"^\[u8; \d+\]$", str(b.locals[st["place"]["l"]].get("ty", ""))) \
                        and any(isinstance(pr, dict) and ("index" in pr or "cidx" in pr) for pr in st["place"]["p"]):
                    bad.append("%s stores into the byte array" % n.split("::")[-1])
    rep.check("R14.2", "read:bytes-unmodified", bool(fam) and not bad,
              "Track's reader changes the bytes before they are matched (%s): more than one six-byte value can then decode to one configuration" % "; ".join(sorted(set(bad)))
              if bad else "Track's reader not found", None, sample={"bodies_examined": len(fam) + len(called)})


def run(ctx, rep):
    rep.explanation = EXPLANATION
    rep.assumptions = ["binrw reads/writes [u8; 6] as six consecutive bytes"]
    ent = ctx.ast.one("Track", kinds=("Enum",), crate="insim_core")
    if ent is None:
        rep.fail("R14.0", "Track", "enum insim_core::track::Track not found")
        return
    variants = [v["name"] for v in ent[3]["variants"]]
    rep.check("R14.0", "variants", len(variants) >= 100 and len(set(variants)) == len(variants), "variant list", ctx.loc(ent), nontrivial=False)

    def method(name, trait=None):
        ms = ctx.ast.method("Track", name, trait=trait, crate="insim_core")
        if len(ms) != 1:
            rep.fail("R14.0", "fn:%s" % name, "Track::%s not found (anchor lost)" % name)
            return None
        rep.fn("insim_core::track::Track::%s" % name)
        return ms[0]

    def table(name, conv, trait=None):
        m = method(name, trait)
        if m is None:
            return None, None
        e, it = m

        def tablelike(mt_):
            return len([1 for (p, b, g, ln) in tables.rows(mt_["arms"]) if p[0] == "var"]) >= len(variants) // 2
        e2, it2, mt = tables.follow_match(ctx.ast, "Track", e, it, tablelike, crate="insim_core")
        if mt is None:
            rep.fail("R14.0", "table:%s" % name, "no match table in Track::%s" % name, ctx.loc(e, it["ln"]))
            return None, None
        if it2 is not it:
            rep.notes.append("R14.1: table of Track::%s found in helper Track::%s" % (name, it2["sig"]["name"]))
            e, it = e2, it2
        t = {}
        dup = []
        for (p, b, g, ln) in tables.rows(mt["arms"]):
            if p[0] != "var":
                continue
            if p[1] in t:
                dup.append(p[1])
            t[p[1]] = (conv(b), ln)
        rep.check("R14.1", "%s:rows" % name, not dup and set(t) == set(variants),
                  "Track::%s must have exactly one row per variant (duplicates %s, missing %s, extra %s)"
                  % (name, dup, sorted(set(variants) - set(t))[:5], sorted(set(t) - set(variants))[:5]), ctx.loc(e, it["ln"]),
                  sample={"table": name, "rows": len(t)})
        return t, e

    code, ce = table("code", lambda b: b[1] if b[0] == "str" else None)
    lic, le = table("license", lambda b: b[1] if b[0] == "path" else None)
    dist, de = table("distance_mile", lambda b: None if b == ("path", "None") else b)
    name_t, ne = table("complete_name", lambda b: b[1] if b[0] == "str" else None)
    wr, we = table("write_options", lambda b: tables.bytes_of(b[2]) if b[0] == "method" and b[1] == "write_options" else None, trait="BinWrite")
    if not (code and lic and dist and wr):
        return
    # reader
    m = method("read_options", "BinRead")
    rd = {}
    if m:
        e, it = m
        mt = tables.first_match(it["body"])

        def seq_rows(mt_):
            return len([1 for (p, b, g, ln) in tables.rows(mt_["arms"]) if p[0] == "seq"]) if mt_ else 0
        if seq_rows(mt) < len(variants) // 2:
            # the byte table may live in a private helper of Track that read_options calls: follow calls by name
            from astq import find_nodes
            names_called = set()
            for n in find_nodes(it["body"], lambda n: n.get("k") in ("Call", "MethodCall", "Path")):
                pth = n.get("path") or (n.get("func") or {}).get("path") or n.get("method") or ""
                if isinstance(pth, str) and pth:
                    names_called.add(pth.split("::")[-1])
            for nm in sorted(names_called):
                for (e2, it2) in ctx.ast.method("Track", nm, crate="insim_core"):
                    mt2 = tables.first_match(it2["body"])
                    if seq_rows(mt2) >= len(variants) // 2:
                        e, it, mt = e2, it2, mt2
                        rep.fn("insim_core::track::Track::%s" % nm)
                        rep.notes.append("R14.2: reader table found in helper Track::%s called from read_options" % nm)
        seen = {}
        catch_all_err = False
        for (p, b, g, ln) in tables.rows(mt["arms"]) if mt else []:
            if p[0] == "seq":
                bs = tables.bytes_of(p)
                var = b[2][0][1].split("::")[-1] if b[0] == "call" and b[1] == "Ok" and b[2] and b[2][0][0] == "path" else None
                rep.check("R14.2", "read:%s:distinct" % var, bs not in seen and bs is not None and var is not None and not g,
                          "read pattern %r appears twice or is not a literal row (also maps to %s)" % (bs, seen.get(bs)), ctx.loc(e, ln), nontrivial=False)
                seen[bs] = var
                rd.setdefault(var, []).append((bs, ln))
            elif p[0] in ("wild", "bind"):
                catch_all_err = b[0] == "call" and b[1] == "Err"
        rep.check("R14.2", "read:catch-all", catch_all_err, "unmatched 6-byte values must be an error", ctx.loc(e, it["ln"]))
        rep.check("R14.1", "read_options:rows", set(rd) == set(variants) and all(len(x) == 1 for x in rd.values()),
                  "reader must have exactly one pattern per variant (missing %s, multiple %s)" % (sorted(set(variants) - set(rd))[:5], [k for k, x in rd.items() if len(x) > 1][:5]),
                  ctx.loc(e, it["ln"]), sample={"table": "read_options", "rows": len(rd)})
    # Display
    dm = ctx.ast.method("Track", "fmt", trait="Display", crate="insim_core")
    if dm:
        from astq import find_nodes
        calls = find_nodes(dm[0][1]["body"], lambda n: n.get("k") == "MethodCall" and n["method"] == "code" and n["recv"].get("path") == "self")
        rep.check("R14.5", "Display", len(calls) == 1, "Display for Track must print self.code()", ctx.loc(dm[0][0], dm[0][1]["ln"]))
    else:
        rep.fail("R14.5", "Display", "impl Display for Track not found")
    is_rev = method("is_reverse")
    is_open = method("is_open")
    rev_set = variant_list(is_rev[1]["body"], variants) if is_rev else None
    open_set = variant_list(is_open[1]["body"], variants) if is_open else None
    computed = {}
    for nm, st, m in (("is_reverse", rev_set, is_rev), ("is_open", open_set, is_open)):
        if st is None and m is not None:
            # not a list of variants: a predicate computed from the code - evaluated for every variant
            try:
                computed[nm] = {v for v in variants if truth(flag_eval(ctx, m[1], v, code))}
                rep.check("R14.1", "%s:rows" % nm, True, "", ctx.loc(m[0], m[1]["ln"]), nontrivial=False,
                          sample={"table": nm, "form": "computed from the code table", "true_for": len(computed[nm])})
                rep.notes.append("R14.4: Track::%s is computed from the code table; evaluated for all %d variants" % (nm, len(variants)))
            except Undecided as ex:
                rep.fail("R14.0", "table:%s" % nm, "Track::%s is neither a matches! list of variants nor a predicate over the code that can be evaluated (%s)" % (nm, ex),
                         ctx.loc(m[0], m[1]["ln"]))
            continue
        if st is None:
            continue
        names = [x[1] for x in st[0] if x[0] == "var"]
        rep.check("R14.1", "%s:rows" % nm, len(names) == len(set(names)) and set(names) <= set(variants) and len(names) == len(st[0]),
                  "Track::%s lists a variant twice or an unknown pattern" % nm, ctx.loc(m[0], st[1]), nontrivial=False)
    revs = {x[1] for x in rev_set[0]} if rev_set else computed.get("is_reverse", set())
    opens = {x[1] for x in open_set[0]} if open_set else computed.get("is_open", set())
    area_lic = {}
    codes_seen = {}
    for v in variants:
        c, ln = code.get(v, (None, None))
        loc = ctx.loc(ce, ln)
        ok_shape = c is not None and re.match(r"^[A-Z]{2}[0-9]{1,2}[A-Z]?$", c) is not None and len(c) <= 6
        rep.check("R14.3", "%s:code-shape" % v, ok_shape, "code %r of %s is not letter letter digit[digit][letter]" % (c, v), loc, nontrivial=False)
        if c is None:
            continue
        rep.check("R14.3", "%s:code-unique" % v, c not in codes_seen, "code %r used by %s and %s" % (c, v, codes_seen.get(c)), loc, nontrivial=False)
        codes_seen[c] = v
        padded = c.encode() + b"\0" * (6 - len(c))
        w = wr.get(v, (None, None))
        rep.check("R14.2", "%s:write" % v, w[0] == padded, "write(%s) = %r but code NUL-padded to 6 is %r" % (v, w[0], padded), ctx.loc(we, w[1]),
                  sample={"variant": v, "code": c, "write": list(w[0]) if w[0] else None})
        r = rd.get(v, [])
        rep.check("R14.2", "%s:read" % v, len(r) == 1 and r[0][0] == padded, "read pattern for %s is %r, expected %r" % (v, [x[0] for x in r], padded),
                  ctx.loc(ent, r[0][1]) if r else loc)
        rep.check("R14.4", "%s:is_reverse" % v, (v in revs) == (c[-1] in "RY"), "is_reverse(%s)=%s but code %s" % (v, v in revs, c), loc,
                  sample={"variant": v, "code": c, "reverse": v in revs, "open": v in opens})
        rep.check("R14.4", "%s:is_open" % v, (v in opens) == (c[-1] in "XY"), "is_open(%s)=%s but code %s" % (v, v in opens, c), loc)
        d = dist.get(v, (None, None))
        if c[-1] in "XY":
            rep.check("R14.4", "%s:open-distance" % v, d[0] is None, "open configuration %s has a lap distance %s" % (v, d[0]), ctx.loc(de, d[1]))
        l = lic.get(v, (None, None))
        area = c[:2]
        if area in area_lic:
            rep.check("R14.4", "%s:licence" % v, area_lic[area][0] == l[0], "licence of %s (%s) differs from %s (%s) in the same area %s" % (v, l[0], area_lic[area][1], area_lic[area][0], area), ctx.loc(le, l[1]))
        else:
            area_lic[area] = (l[0], v)
            rep.check("R14.4", "%s:licence" % v, l[0] is not None and l[0].startswith("License::"), "licence row of %s" % v, ctx.loc(le, l[1]), nontrivial=False)
    bytes_unmodified(ctx, rep)
    rep.floor("R14.2", 2 * 154)
    rep.floor("R14.4", 3 * 154)
    rep.floor("R14.1", 7)
    rep.coverage_exhaustive = True
