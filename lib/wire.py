"""Wire model: byte layout of every binrw item, read side and write side separately, derived from
the #[binrw] attribute directives (wirex) and, for hand-written BinRead/BinWrite impls and helper
parse/write functions, from the sequence of resolved read/write calls along the MIR paths (mirx).

Nothing here decides a property; rules compare the two sides with each other and with the spec."""
import re

from astq import INT_TYPES, NotConst, attr_directives, eval_int, has_attr
from mirq import Undecidable, callee, is_tracing

CORE_HELPERS = ("binrw_parse_codepage_string", "binrw_write_codepage_string", "binrw_parse_codepage_string_until_eof",
                "binrw_parse_duration", "binrw_write_duration")

KNOWN_FIELD_KEYS = {
    "pad_before", "pad_after", "align_before", "align_after", "pad_size_to", "magic", "parse_with", "write_with",
    "args", "map", "try_map", "count", "calc", "temp", "ignore", "default", "if", "try", "assert", "restore_position",
    "seek_before", "little", "big", "is_little", "is_big", "repr", "dbg", "err_context", "import", "args_raw",
    "try_calc", "offset", "pre_assert", "map_stream", "stream", "return_all_errors", "return_unexpected_error",
}


class Seg(dict):
    """one wire segment: {'name','w' (bytes or None),'cls','var','detail'}"""
    pass


def pad(n, why="pad"):
    return Seg(name="_" + why, w=n, cls="pad")


class Wire:
    def __init__(self, ast, mir):
        self.ast = ast
        self.mir = mir
        self.undecidable = []     # (where, what)
        self._layout = {}
        self._hand = {}

    def und(self, where, what):
        self.undecidable.append((where, what))

    # ------------------------------------------------------------------ constants
    def const_int(self, expr, scope_crate=None):
        """evaluate a directive value: literal or a named constant of the workspace"""
        try:
            return eval_int(expr)
        except NotConst:
            pass
        if expr.get("k") == "Path":
            nm = expr["path"].split("::")[-1]
            cands = [k for k in self.mir.consts if k.split("::")[-1] == nm and self.mir.consts[k]["val"] is not None]
            vals = {int(self.mir.consts[k]["val"]) for k in cands}
            if len(vals) == 1:
                return vals.pop()
        return None

    # ------------------------------------------------------------------ type -> codec
    def prim(self, name):
        if name in INT_TYPES:
            bits, signed = INT_TYPES[name]
            return Seg(w=bits // 8, cls="sint" if signed else "uint", ty=name)
        if name == "f32":
            return Seg(w=4, cls="float", ty=name)
        if name == "f64":
            return Seg(w=8, cls="float", ty=name)
        return None

    def type_segs(self, ty, side, where, subst=None):
        """flat list of segments for a Rust type as binrw reads/writes it without field directives"""
        subst = subst or {}
        k = ty["k"]
        if k == "Array":
            try:
                n = int(ty["len"])
            except ValueError:
                self.und(where, "array length %s" % ty["len"])
                return [Seg(name="?", w=None, cls="undecidable")]
            elem = self.type_segs(ty["elem"], side, where, subst)
            if len(elem) == 1 and elem[0]["w"] is not None:
                e = elem[0]
                return [Seg(name="", w=e["w"] * n, cls="array", elem=e, n=n)]
            out = []
            for i in range(n):
                for e in elem:
                    s = Seg(e)
                    s["name"] = "[%d]%s" % (i, ("." + e["name"]) if e.get("name") else "")
                    out.append(s)
            return out
        if k != "Path":
            self.und(where, "type %s" % ty.get("text"))
            return [Seg(name="?", w=None, cls="undecidable")]
        name = ty["name"]
        if name in subst:
            return self.type_segs(subst[name], side, where)
        p = self.prim(name)
        if p is not None:
            return [Seg(p, name="")]
        if name in ("String", "Duration", "Vec", "IndexSet", "bool", "char", "Ipv4Addr"):
            return [Seg(name="", w=None, cls="needs-directive", ty=ty["text"])]
        ent = self.ast.one(name)
        if ent is None:
            c = self.ast.find(name)
            self.und(where, "type %s resolves to %d items" % (name, len(c)))
            return [Seg(name="?", w=None, cls="undecidable")]
        it = ent[3]
        if it["k"] == "Bitflags":
            p = self.prim(it["ty"]["name"])
            return [Seg(p, name="", cls="flags", flags=name)]
        if it["k"] == "Enum":
            reprs = [d for d in attr_directives(it, ("brw", "br", "bw")) if d["key"] == "repr"]
            if has_attr(it, "binrw") and reprs:
                rt = reprs[0]["args"][0]
                rname = rt.get("path") or rt.get("text")
                p = self.prim(rname)
                return [Seg(p, name="", cls="enum", enum=name)]
            return self.hand_segs(ent, side, where)
        if it["k"] == "Struct":
            if has_attr(it, "binrw") or has_attr(it, "binread") or has_attr(it, "binwrite"):
                sub = {}
                gen = it.get("generics", "")
                if gen and ty.get("generics"):
                    gnames = re.findall(r"([A-Z]\w*)\s*(?::|,|>)", gen)
                    for gn, ga in zip(gnames, ty["generics"]):
                        sub[gn] = ga
                lay = self.layout(name, sub)
                return [Seg(s) for s in lay[side]]
            return self.hand_segs(ent, side, where)
        self.und(where, "type %s kind %s" % (name, it["k"]))
        return [Seg(name="?", w=None, cls="undecidable")]

    # ------------------------------------------------------------------ hand-written codecs via MIR
    def hand_body_name(self, ent, side):
        crate, modpath, _f, it = ent
        tpath = "%s::%s" % (modpath, it["name"])
        tr = "binrw::binread::BinRead>::read_options" if side == "read" else "binrw::binwrite::BinWrite>::write_options"
        return "<%s as %s" % (tpath, tr)

    def mir_events(self, body, side):
        """set of maximal successful event sequences of a reader/writer body"""
        ty_w = self

        def classify(kind, bb, idx, node):
            if kind == "stmt":
                if node["k"] == "assign" and node["place"]["l"] == 0 and not node["place"]["p"]:
                    rv = node["rv"]
                    if rv["k"] == "agg" and rv["agg"] == "adt" and rv["adt"] == "core::result::Result":
                        return ("ret", rv["vname"])
                return None
            if node["k"] != "call" or is_tracing(node):
                return None
            d, rd, ga, fn = callee(node)
            if d is None:
                return ("indirect-call",)
            ret = node["dest"]["l"] == 0 and not node["dest"]["p"]
            ev = None
            if d == "binrw::binread::BinRead::read_options" and side == "read":
                ev = ("rw", ga[0], self._count_arg(body, node), None)
            elif d == "binrw::binwrite::BinWrite::write_options" and side == "write":
                o = body.origin(node["args"][0])
                cv = None
                if o[0] == "ref" and o[1][0] == "const" and o[1][1] is not None:
                    cv = o[1][1]
                ev = ("rw", ga[0], None, cv)
            elif d == "std::io::Seek::seek":
                o = body.origin(node["args"][1])
                if o[0] == "agg" and o[1][0] == "adt" and o[1][3] == "Current" and o[2][0][0] == "const" and o[2][0][1] is not None:
                    v = o[2][0][1]
                    if v >= 2 ** 63:
                        v -= 2 ** 64
                    ev = ("seek", v)
                else:
                    ev = ("seek", None)
            elif d == "binrw::helpers::until_eof":
                ev = ("tail",)
            elif d.endswith("from_residual"):
                ev = ("ret", "Err")
            elif fn and fn.get("local") and rd and self.mir.body(rd) is not None and re.search(r"parse|write|read", rd.split("::")[-1]):
                ev = ("helper", rd)
            if ret and ev is not None and ev[0] != "ret":
                return ("retcall", ev)
            if ret and ev is None:
                return ("ret", "call:" + d)
            return ev

        seqs = body.event_paths(classify)
        ok = set()
        for s in seqs:
            evs = [e for e in s if e[0] not in ("return",)]
            if evs and evs[-1][0] in ("unreachable", "diverge", "resume", "terminate"):
                continue   # compiler-proven unreachable, or a panic: not a successful path
            if any(e[0] in ("loop",) for e in evs):
                ok.add(tuple(evs))
                continue
            # classify ending
            rets = [e for e in evs if e[0] in ("ret", "retcall")]
            if rets and rets[-1][0] == "ret" and rets[-1][1] == "Err":
                continue
            if any(e[0] == "ret" and e[1] == "Err" for e in rets[:-1]):
                # the failure exit of an inlined helper (its `?`) followed by a success exit of the caller: with the helper's result
                # propagated by `?` this is not a path of the program (the event paths are not path-sensitive)
                continue
            out = []
            for e in evs:
                if e[0] == "retcall":
                    out.append(e[1])
                elif e[0] == "ret":
                    continue
                else:
                    out.append(e)
            ok.add(tuple(out))
        return ok

    def _count_arg(self, body, node):
        # Vec<T>::read_options(reader, endian, VecArgs{count, inner})
        if len(node["args"]) < 3:
            return None
        o = body.origin(node["args"][2])
        if o[0] == "agg" and o[1][0] == "adt" and "VecArgs" in o[1][1]:
            return "count"
        return None

    def events_to_segs(self, evs, side, where):
        out = []
        for e in evs:
            if e[0] == "rw":
                tname = e[1]
                segs = self.tyname_segs(tname, side, where)
                if e[2] == "count":
                    out.append(Seg(name="", w=None, cls="counted", var={"kind": "count", "elem": segs}))
                elif len(e) > 3 and e[3] is not None and len(segs) == 1:
                    out.append(Seg(name="", w=segs[0]["w"], cls="const0" if e[3] == 0 else "const", value=e[3]))
                else:
                    out.extend(segs)
            elif e[0] == "seek":
                if e[1] is None or e[1] < 0:
                    self.und(where, "seek with non-constant/negative offset")
                    out.append(Seg(name="?", w=None, cls="undecidable"))
                else:
                    out.append(pad(e[1], "seek"))
            elif e[0] == "tail":
                out.append(Seg(name="", w=None, cls="tail", var={"kind": "tail"}))
            elif e[0] == "loop":
                out.append(Seg(name="", w=None, cls="loop", var={"kind": "loop"}))
            elif e[0] == "helper":
                out.append(Seg(name="", w=None, cls="helper", helper=e[1]))
            else:
                self.und(where, "event %s" % (e,))
                out.append(Seg(name="?", w=None, cls="undecidable"))
        return out

    def tyname_segs(self, tname, side, where):
        """segments for a fully-qualified type name string printed by rustc"""
        p = self.prim(tname)
        if p is not None:
            return [Seg(p, name="")]
        m = re.match(r"^\[(.+); (\d+)\]$", tname)
        if m:
            inner = self.tyname_segs(m.group(1), side, where)
            n = int(m.group(2))
            if len(inner) == 1 and inner[0]["w"] is not None:
                return [Seg(name="", w=inner[0]["w"] * n, cls="array", elem=inner[0], n=n)]
        m = re.match(r"^alloc::vec::Vec<(.+)>$", tname)
        if m:
            inner = self.tyname_segs(m.group(1), side, where)
            return [Seg(name="", w=None, cls="vec", var={"kind": "vec", "elem": inner})]
        last = tname.split("<")[0].split("::")[-1]
        ent = self.ast.one(last)
        if ent is not None:
            return self.type_segs({"k": "Path", "name": last, "text": tname, "generics": []}, side, where)
        self.und(where, "type name %s" % tname)
        return [Seg(name="?", w=None, cls="undecidable")]

    def hand_segs(self, ent, side, where):
        key = (ent[1], ent[3]["name"], side)
        if key in self._hand:
            return [Seg(s) for s in self._hand[key]]
        self._hand[key] = [Seg(name="?", w=None, cls="recursive")]
        bname = self.hand_body_name(ent, side)
        body = self.mir.body(bname)
        if body is None:
            self.und(where, "no %s impl body %s" % (side, bname))
            res = [Seg(name="?", w=None, cls="undecidable")]
        else:
            # private helpers of the type's module (a `WireCode::read`, a `RawText::read` phase) are part of the hand-written codec
            from mirq import inline_calls
            tpath = bname[1:].split(" as ")[0] if bname.startswith("<") else bname
            modp = tpath.rsplit("::", 1)[0] + "::"
            ib = inline_calls(body, lambda d, modp=modp: d.startswith(modp) and "{closure" not in d and not d.startswith("<"), depth=3)
            if ib is not body:
                body = ib
            try:
                seqs = self.mir_events(body, side)
            except Undecidable as e:
                self.und(where, str(e))
                seqs = set()
            widths = {}
            for s in seqs:
                segs = self.events_to_segs(s, side, bname)
                widths[tuple((x["w"], x["cls"]) for x in segs)] = segs
            if len(widths) == 1:
                res = list(widths.values())[0]
                for i, s in enumerate(res):
                    s["name"] = "#%d" % i
            elif not widths:
                self.und(where, "%s has no successful path" % bname)
                res = [Seg(name="?", w=None, cls="undecidable")]
            else:
                tot = {sum(x[0] for x in k) if all(x[0] is not None for x in k) else None for k in widths}
                if len(tot) == 1 and None not in tot:
                    res = [Seg(name="#0", w=tot.pop(), cls="hand-variant", alts=[list(k) for k in widths])]
                else:
                    # common fixed prefix, then a variable remainder
                    alts = list(widths.values())
                    pre = []
                    i = 0
                    while all(len(a) > i for a in alts) and len({(a[i]["w"], a[i]["cls"]) for a in alts}) == 1 and alts[0][i]["w"] is not None:
                        pre.append(alts[0][i])
                        i += 1
                    rest = [[(x["w"], x["cls"]) for x in a[i:]] for a in alts]
                    res = pre + [Seg(name="", w=None, cls="tail-alts", var={"kind": "hand", "alts": rest})]
                    for j, s in enumerate(res):
                        s["name"] = "#%d" % j
        for s in res:
            s["hand"] = ent[3]["name"]
        self._hand[key] = res
        return [Seg(s) for s in res]

    # ------------------------------------------------------------------ helper functions (parse_with / write_with)
    def helper_info(self, path_expr, side, where):
        """describe a parse_with/write_with target: {'name', 'generics', 'segs'}"""
        if path_expr.get("k") != "Path":
            self.und(where, "%s target is not a path" % side)
            return None
        segs = path_expr["segs"]
        name = segs[-1]["id"]
        gens = segs[-1].get("generics") or []
        wrapper = None
        argv = None
        if name not in CORE_HELPERS:
            # a private wrapper whose whole body is one call of a core helper (`fn parse_name() { core_helper::<N, _>(reader, endian, (false,)) }`)
            fns = self.ast.free_fn(name)
            if len(fns) == 1:
                body = fns[0][3].get("body")
                if isinstance(body, dict) and body.get("k") == "Block":
                    body = body["stmts"]
                if isinstance(body, list) and len(body) == 1 and body[0].get("k") == "Expr":
                    e = body[0]["e"]
                    if e.get("k") == "Call" and e["func"].get("k") == "Path" and e["func"]["segs"][-1]["id"] in CORE_HELPERS and e["args"]:
                        wrapper = name
                        name = e["func"]["segs"][-1]["id"]
                        gens = e["func"]["segs"][-1].get("generics") or []
                        last = e["args"][-1]
                        if last.get("k") == "Tuple":
                            argv = []
                            for a in last["elems"]:
                                v = self.const_int(a)
                                if v is None and a.get("k") == "Lit" and a.get("t") == "bool":
                                    v = a["v"] in (True, "true")
                                argv.append(v if v is not None else (a.get("path") or a.get("text") or "?"))
        out = []
        for g in gens:
            if g == "_":
                continue
            # a named constant used as a const generic (`::<TRACK_NAME_LEN, _>`): resolve it to its literal value
            if isinstance(g, str) and re.match(r"^[A-Za-z_][A-Za-z0-9_:]*$", g) and not g[0].islower() and g.split("::")[-1].isupper():
                cs = self.ast.const(g.split("::")[-1])
                if len(cs) == 1:
                    v = cs[0][3]["value"]
                    if v.get("k") == "Lit" and v.get("t") == "int":
                        g = str(int(v["v"]))
            out.append(g)
        r = {"name": name, "generics": out}
        if wrapper:
            r["wrapper"] = wrapper
            r["argv"] = argv
        return r

    def helper_body_segs(self, fname, side, where):
        """segments produced/consumed by a workspace helper fn, via MIR events of its body"""
        cands = [k for k in self.mir.bodies if k.split("::")[-1] == fname and not k.endswith("#promoted")]
        if len(cands) != 1:
            self.und(where, "helper %s resolves to %d bodies" % (fname, len(cands)))
            return None
        body = self.mir.body(cands[0])
        try:
            seqs = self.mir_events(body, side)
        except Undecidable as e:
            self.und(where, str(e))
            return None
        # also look into closures of the helper (map(|bytes| ...) never reads)
        alts = {}
        for s in seqs:
            segs = self.events_to_segs(s, side, cands[0])
            alts[tuple((x["w"], x["cls"]) for x in segs)] = segs
        return alts

    # ------------------------------------------------------------------ struct layout from attributes
    def item_layout(self, name, modhint=None):
        """layout of a top-level payload type: attribute-driven for #[binrw] structs, MIR-driven otherwise"""
        ent = self.ast.one(name, kinds=("Struct", "Enum"), modhint=modhint)
        if ent is not None and not (has_attr(ent[3], "binrw") or has_attr(ent[3], "binread")):
            r = {"read": self.hand_segs(ent, "read", name), "write": self.hand_segs(ent, "write", name), "fields": [],
                 "struct": [], "ent": ent, "hand": True}
            return r
        return self.layout(name, None, modhint)

    def layout(self, name, subst=None, modhint=None):
        key = (name, tuple(sorted((k, v["text"]) for k, v in (subst or {}).items())))
        if key in self._layout:
            return self._layout[key]
        ent = self.ast.one(name, kinds=("Struct",), modhint=modhint)
        if ent is None:
            self.und(name, "struct not found / ambiguous")
            r = {"read": [Seg(name="?", w=None, cls="undecidable")], "write": [Seg(name="?", w=None, cls="undecidable")],
                 "fields": [], "struct": [], "ent": None}
            self._layout[key] = r
            return r
        it = ent[3]
        where = "%s::%s" % (ent[1], name)
        res = {"read": [], "write": [], "fields": [], "struct": attr_directives(it, ("brw", "br", "bw")), "ent": ent}
        self._layout[key] = res
        for d in res["struct"]:
            if d["key"] == "magic":
                w = self.magic_width(d["value"])
                for side in self.sides(d):
                    res[side].append(Seg(name="_magic", w=w, cls="magic", value=d["raw"]))
        for f in it["fields"]:
            fi = self.field_layout(f, where, subst, it)
            res["fields"].append(fi)
            for side in ("read", "write"):
                res[side].extend(fi[side])
        return res

    def sides(self, d):
        return {"brw": ("read", "write"), "br": ("read",), "bw": ("write",)}[d["attr"]]

    def magic_width(self, v):
        if v is None:
            return None
        if v["k"] == "Lit":
            if v["t"] == "bytestr":
                return len(v["v"])
            if v["t"] == "byte":
                return 1
            if v["t"] == "int" and v.get("suffix") in INT_TYPES:
                return INT_TYPES[v["suffix"]][0] // 8
        return None

    def field_layout(self, f, where, subst, struct_item):
        fname = f["name"]
        fw = "%s.%s" % (where, fname)
        dirs = attr_directives(f, ("brw", "br", "bw"))
        out = {"name": fname, "ty": f["ty"], "read": [], "write": [], "dirs": {"read": {}, "write": {}}, "ln": f["ln"], "where": fw}
        for d in dirs:
            if d["key"] not in KNOWN_FIELD_KEYS:
                self.und(fw, "unknown directive %s" % d["raw"])
            for side in self.sides(d):
                if d["key"] in out["dirs"][side]:
                    self.und(fw, "duplicate directive %s on %s side" % (d["key"], side))
                out["dirs"][side][d["key"]] = d
        for side in ("read", "write"):
            ds = out["dirs"][side]
            segs = []
            if "magic" in ds:
                segs.append(Seg(name="_magic", w=self.magic_width(ds["magic"]["value"]), cls="magic"))
            for k in ("pad_before",):
                if k in ds:
                    n = self.const_int(ds[k]["value"])
                    if n is None:
                        self.und(fw, "non-constant %s" % k)
                    segs.append(pad(n, "pad_before"))
            if "align_before" in ds:
                segs.append(Seg(name="_align", w=None, cls="align", align=self.const_int(ds["align_before"]["value"])))
            on_wire = True
            if "ignore" in ds:
                on_wire = False
            if side == "read" and ("default" in ds or "calc" in ds):
                on_wire = False
            if side == "write" and "temp" in ds and "calc" not in ds:
                # br(temp) fields are absent from the struct; without bw(calc) nothing is written
                on_wire = False
            for bad in ("if", "try", "restore_position", "seek_before", "offset", "map_stream", "try_map", "try_calc"):
                if bad in ds:
                    self.und(fw, "directive %s not modelled" % ds[bad]["raw"])
            # `#[br(temp)] #[bw(calc = 0)] _pad: uN` is an explicit spare field: zero on write, discarded on read
            wds = out["dirs"]["write"]
            explicit_pad = "calc" in wds and wds["calc"]["value"].get("k") == "Lit" and wds["calc"]["value"].get("t") == "int" \
                and wds["calc"]["value"].get("v") == "0" and ("temp" in out["dirs"]["read"] or has_attr(struct_item, "binrw")) \
                and not any(k in ds for k in ("parse_with", "write_with", "map", "count"))
            if on_wire and explicit_pad:
                p_ = self.prim(f["ty"].get("name", ""))
                if p_ is not None:
                    segs.append(pad(p_["w"], "explicit"))
                    on_wire = False
                    out["explicit_pad"] = True
            if on_wire:
                body = self.field_body(f, side, ds, fw, subst)
                for s in body:
                    s = Seg(s)
                    s["name"] = fname + (("." + s["name"]) if s.get("name") else "")
                    s["field"] = fname
                    if "pad_size_to" in ds:
                        n = self.const_int(ds["pad_size_to"]["value"])
                        if s["w"] is not None and n is not None and len(body) == 1:
                            s["w"] = max(s["w"], n)
                        else:
                            self.und(fw, "pad_size_to on composite")
                    segs.append(s)
            if "pad_after" in ds:
                n = self.const_int(ds["pad_after"]["value"])
                if n is None:
                    self.und(fw, "non-constant pad_after")
                segs.append(pad(n, "pad_after"))
            if "align_after" in ds:
                segs.append(Seg(name="_align", w=None, cls="align", align=self.const_int(ds["align_after"]["value"])))
            out[side] = segs
        return out

    def closure_in_ty(self, e):
        """type of the single parameter of a closure `|x: T|` / `|&x: &T|` or None"""
        if e.get("k") != "Closure" or len(e["inputs"]) != 1:
            return None
        p = e["inputs"][0]
        if p["k"] == "Typed":
            t = p["ty"]
            if t["k"] == "Ref":
                t = t["elem"]
            return t
        return None

    def field_body(self, f, side, ds, fw, subst):
        ty = f["ty"]
        # ---- custom parser / writer
        key = "parse_with" if side == "read" else "write_with"
        if key in ds:
            h = self.helper_info(ds[key]["value"], side, fw)
            if h is None:
                return [Seg(name="", w=None, cls="undecidable")]
            args = ds.get("args")
            argv = []
            if args is None and h.get("argv") is not None:
                argv = list(h["argv"])
            if args is not None and args.get("args") is not None:
                for a in args["args"]:
                    v = self.const_int(a)
                    argv.append(v if v is not None else (a.get("path") or a.get("text") or "?"))
            return [self.helper_seg(h, side, argv, fw)]
        # ---- map
        if "map" in ds:
            m = ds["map"]["value"]
            wt = self.map_wire_type(m, side, f, fw)
            if wt is None:
                self.und(fw, "cannot resolve wire type of map %s" % ds["map"]["raw"])
                return [Seg(name="", w=None, cls="undecidable")]
            segs = self.type_segs(wt, side, fw, subst)
            for s in segs:
                s["map"] = ds["map"]["raw"]
                s["rust_ty"] = ty["text"]
                if ty["text"] == "bool":
                    s["cls"] = "bool"
                elif ty["text"] == "char":
                    s["cls"] = "char"
                elif ty["text"] == "Ipv4Addr":
                    s["cls"] = "ip"
                elif "Set" in ty["text"]:
                    s["cls"] = "flags"
                    s["flags"] = ty["name"]
            return segs
        # ---- count (read) / Vec (write)
        if ty["k"] == "Path" and ty["name"] == "Vec":
            elem = self.type_segs(ty["generics"][0], side, fw, subst)
            cnt = None
            if side == "read":
                if "count" not in ds:
                    self.und(fw, "Vec without count")
                else:
                    cnt = ds["count"]["value"].get("path") or ds["count"]["raw"]
            return [Seg(name="", w=None, cls="counted", var={"kind": "count", "count": cnt, "elem": elem})]
        if side == "write" and "calc" in ds:
            segs = self.type_segs(ty, side, fw, subst)
            for s in segs:
                s["calc"] = ds["calc"]["raw"]
                s["calc_expr"] = ds["calc"]["value"]
            return segs
        return self.type_segs(ty, side, fw, subst)

    def map_wire_type(self, m, side, f, fw):
        prim = lambda n: {"k": "Path", "name": n, "text": n, "generics": []}
        if side == "read":
            if m["k"] == "Closure":
                return self.closure_in_ty(m)
            if m["k"] == "Path":
                # T::from_bits_truncate etc: first parameter type of the named fn
                segs = m["segs"]
                if len(segs) >= 2:
                    tyname, fn = segs[-2]["id"], segs[-1]["id"]
                    if tyname == "Self":
                        tyname = f["ty"]["name"]
                    for _e, it in self.ast.method(tyname, fn):
                        ins = [i for i in it["sig"]["inputs"] if not i["self"]]
                        if ins:
                            return ins[0]["ty"]
            return None
        # write side: the closure's result type
        if m["k"] == "Closure":
            b = m["body"]
            if b["k"] == "Cast":
                return b["ty"]
            if b["k"] == "MethodCall" and b["method"] == "bits":
                pt = self.closure_in_ty(m)
                tyname = pt["name"] if pt else f["ty"]["name"]
                if tyname == "Self":
                    tyname = f["ty"]["name"]
                ent = self.ast.one(tyname)
                if ent and ent[3]["k"] == "Bitflags":
                    return ent[3]["ty"]
                for _e, it in self.ast.method(tyname, "bits"):
                    return it["sig"]["ret"]
            if b["k"] == "Call" and b["func"]["k"] == "Path" and b["func"]["path"].endswith("::from"):
                return prim(b["func"]["segs"][0]["id"])
        return None

    def helper_seg(self, h, side, argv, fw):
        name, gens = h["name"], h["generics"]
        d = {"helper": name, "generics": gens, "args": argv}
        if name in ("binrw_parse_codepage_string", "binrw_write_codepage_string"):
            try:
                n = int(gens[0])
            except (ValueError, IndexError):
                self.und(fw, "codepage string helper without SIZE")
                return Seg(name="", w=None, cls="undecidable", **d)
            raw = argv[0] if argv else False
            align = argv[1] if len(argv) > 1 else 0
            raw = raw in (True, 1, "true")
            if side == "write" and isinstance(align, int) and align > 1:
                return Seg(name="", w=None, cls="text", var={"kind": "tail", "max": n, "align": align}, size=n, raw=raw, **d)
            return Seg(name="", w=n, cls="text", size=n, raw=raw, align=align, **d)
        if name == "binrw_parse_codepage_string_until_eof":
            raw = (argv[0] if argv else False) in (True, 1, "true")
            return Seg(name="", w=None, cls="text", var={"kind": "tail"}, raw=raw, **d)
        if name in ("binrw_parse_duration", "binrw_write_duration"):
            p = self.prim(gens[0]) if gens else None
            if p is None:
                self.und(fw, "duration helper without int type")
                return Seg(name="", w=None, cls="undecidable", **d)
            return Seg(name="", w=p["w"], cls="time", ity=gens[0], scale=int(gens[1]) if len(gens) > 1 and gens[1].isdigit() else None, **d)
        # workspace-local helper: derive from its body
        info = self.helper_events(name, side, fw)
        if info is None:
            return Seg(name="", w=None, cls="undecidable", **d)
        body, seqs = info
        d["helper_path"] = body.name
        seqs = set(seqs)
        # loop shape: {(), (elems..., loop)}
        loops = [s for s in seqs if s and s[-1][0] == "loop"]
        if loops and len(loops) == 1 and seqs - set(loops) <= {()}:
            elems = self.events_to_segs(loops[0][:-1], side, body.name)
            src = self.loop_source(body, side)
            return Seg(name="", w=None, cls="helper", var={"kind": "helper-loop", "source": src},
                       inner=[Seg(name="", w=None, cls="loop")] + elems, loop_source=src, **d)
        alts = {}
        for s in seqs:
            segs = self.events_to_segs(s, side, body.name)
            alts[tuple((x["w"], x["cls"]) for x in segs)] = segs
        if len(alts) == 1:
            segs = list(alts.values())[0]
            if all(s["w"] is not None for s in segs):
                return Seg(name="", w=sum(s["w"] for s in segs), cls="helper", inner=segs, **d)
            return Seg(name="", w=None, cls="helper", var={"kind": "helper", "inner": segs}, inner=segs, **d)
        return Seg(name="", w=None, cls="helper", var={"kind": "helper-alts", "alts": [list(k) for k in alts]}, **d)

    def helper_events(self, fname, side, where):
        cands = [k for k in self.mir.bodies if k.split("::")[-1] == fname and not k.endswith("#promoted")]
        if len(cands) != 1:
            self.und(where, "helper %s resolves to %d bodies" % (fname, len(cands)))
            return None
        body = self.mir.body(cands[0])
        try:
            return body, self.mir_events(body, side)
        except Undecidable as e:
            self.und(where, str(e))
            return None

    def loop_source(self, body, side):
        """what the single loop of a helper iterates over: ('range0', arg index, tuple field) | ('iter', arg index) | ('?', text)"""
        its = body.calls_to(r"IntoIterator::into_iter$")
        if len(its) != 1:
            return ("?", "%d into_iter calls" % len(its))
        o = body.origin(its[0][1]["args"][0])
        if o[0] == "agg" and o[1][0] == "adt" and o[1][1].endswith("ops::range::Range") and o[2][0][0] == "const" and o[2][0][1] == 0:
            hi = o[2][1]
            if hi[0] == "field" and hi[1][0] == "arg":
                return ("range0", hi[1][1], hi[2])
            if hi[0] == "arg":
                return ("range0", hi[1], None)
            return ("?", "range upper bound %s" % (hi,))
        if o[0] == "call" and o[1].endswith("::iter") and o[3] and o[3][0][0] == "ref":
            inner = o[3][0][1]
            if inner[0] == "deref" and inner[1][0] == "arg":
                return ("iter", inner[1][1])
            if inner[0] == "arg":
                return ("iter", inner[1])
        return ("?", str(o)[:120])


def fixed_size(segs):
    """(sum of fixed widths, list of variable segments)"""
    tot, var = 0, []
    for s in segs:
        if s["w"] is None:
            var.append(s)
        else:
            tot += s["w"]
    return tot, var


def flat(segs):
    """[(offset or None, seg)] with running offsets until the first variable segment"""
    off = 0
    out = []
    for s in segs:
        out.append((off, s))
        if off is not None:
            off = off + s["w"] if s["w"] is not None else None
    return out
