"""Query helpers over the wirex JSON syntax tree."""


class Ast:
    """All crates' syntax trees with a flat index of items by name."""

    def __init__(self, facts, crates=("insim", "insim_core", "insim_pth", "insim_smx")):
        self.crates = {}
        self.items = []          # (crate, modpath, file, item)
        for c in crates:
            try:
                a = facts.ast(c)
            except FileNotFoundError:
                continue
            self.crates[c] = a
            self._walk(c, [c], a["root"].get("file"), a["root"])
        self.by_name = {}
        for ent in self.items:
            it = ent[3]
            nm = it.get("name")
            if it["k"] in ("Struct", "Enum", "Const", "TypeAlias", "Trait") and nm:
                self.by_name.setdefault(nm, []).append(ent)
            if it["k"] == "Fn":
                self.by_name.setdefault(it["sig"]["name"], []).append(ent)
            if it["k"] == "Bitflags":
                self.by_name.setdefault(nm, []).append(ent)
            if it["k"] == "Impl":
                # associated constants (`impl T { const K: .. = ..; }`) are found by name like free constants
                for sub in it.get("items", []) or []:
                    if sub and sub.get("k") == "Const" and sub.get("name"):
                        self.by_name.setdefault(sub["name"], []).append((ent[0], ent[1], ent[2], dict(sub, assoc_of=it.get("self_ty") or it.get("name"))))

    def _walk(self, crate, modpath, file, mod):
        for it in mod.get("items", []) or []:
            if it is None:
                continue
            k = it.get("k")
            if k == "Mod":
                self._walk(crate, modpath + [it["name"]], it.get("file", file), it)
            elif k == "MacroBitflags":
                for d in it["defs"]:
                    self.items.append((crate, "::".join(modpath), file, d))
            else:
                self.items.append((crate, "::".join(modpath), file, it))

    # ---- lookup
    def find(self, name, kinds=("Struct", "Enum", "Bitflags"), crate=None):
        out = [e for e in self.by_name.get(name, []) if e[3]["k"] in kinds and (crate is None or e[0] == crate)]
        return out

    def one(self, name, kinds=("Struct", "Enum", "Bitflags"), crate=None, modhint=None):
        c = self.find(name, kinds, crate)
        if modhint:
            h = [e for e in c if modhint in e[1]]
            if h:
                c = h
        if len(c) == 1:
            return c[0]
        return None

    def impls(self, self_name, trait=None, crate=None):
        """impl blocks whose self type's last segment is self_name (trait: last path segment match or None=inherent/any)"""
        out = []
        for e in self.items:
            it = e[3]
            if it["k"] != "Impl":
                continue
            if crate and e[0] != crate:
                continue
            st = it["self_ty"]
            if st.get("name") != self_name and st.get("text") != self_name:
                continue
            t = it.get("trait")
            if trait is None:
                out.append(e)
            elif trait == "" and t is None:
                out.append(e)
            elif t is not None and (t == trait or t.split("<")[0].split("::")[-1] == trait or t.startswith(trait + "<") or ("::" + trait + "<") in t):
                out.append(e)
        return out

    def method(self, self_name, fn_name, trait=None, crate=None):
        res = []
        for e in self.impls(self_name, trait, crate):
            for it in e[3]["items"]:
                if it["k"] == "Fn" and it["sig"]["name"] == fn_name:
                    res.append((e, it))
        return res

    def free_fn(self, name, crate=None):
        return [e for e in self.by_name.get(name, []) if e[3]["k"] == "Fn" and (crate is None or e[0] == crate)]

    def const(self, name, crate=None):
        return [e for e in self.by_name.get(name, []) if e[3]["k"] == "Const" and (crate is None or e[0] == crate)]


def attr_directives(item, names):
    """flatten the directives of all attributes whose name is in `names` -> list of dicts"""
    out = []
    for a in item.get("attrs", []):
        if a["name"] in names and a["form"] == "list":
            for d in a["items"]:
                dd = dict(d)
                dd["attr"] = a["name"]
                out.append(dd)
        elif a["name"] in names and a["form"] == "raw":
            out.append({"key": "?raw", "raw": a["raw"], "attr": a["name"], "value": None, "args": None, "ln": a["ln"]})
    return out


def has_attr(item, name):
    return any(a["name"] == name for a in item.get("attrs", []))


def walk(node, fn):
    """pre-order walk over every dict node of an expression/statement tree"""
    if isinstance(node, dict):
        fn(node)
        for v in node.values():
            walk(v, fn)
    elif isinstance(node, list):
        for v in node:
            walk(v, fn)


def find_nodes(node, pred):
    out = []
    walk(node, lambda n: out.append(n) if pred(n) else None)
    return out


INT_TYPES = {"u8": (8, False), "i8": (8, True), "u16": (16, False), "i16": (16, True), "u32": (32, False),
             "i32": (32, True), "u64": (64, False), "i64": (64, True), "u128": (128, False), "i128": (128, True),
             "usize": (64, False), "isize": (64, True)}


class NotConst(Exception):
    pass


def eval_int(e, env=None):
    """evaluate a constant integer expression tree; env maps path text -> int; raises NotConst"""
    env = env or {}
    k = e.get("k")
    if k == "Lit":
        if e["t"] in ("int", "byte"):
            return int(e["v"])
        if e["t"] == "char":
            return ord(e["v"])
        if e["t"] == "bool":
            return 1 if e["v"] else 0
        raise NotConst(str(e))
    if k == "Binary":
        a, b = eval_int(e["lhs"], env), eval_int(e["rhs"], env)
        op = e["op"]
        if op == "<<":
            return a << b
        if op == ">>":
            return a >> b
        if op == "|":
            return a | b
        if op == "&":
            return a & b
        if op == "+":
            return a + b
        if op == "-":
            return a - b
        if op == "*":
            return a * b
        if op == "/":
            return a // b
        raise NotConst(op)
    if k == "Unary" and e["op"] == "!":
        raise NotConst("bitwise not needs width")
    if k == "Cast":
        return eval_int(e["e"], env)
    if k == "Path":
        if e["path"] in env:
            return env[e["path"]]
        raise NotConst(e["path"])
    if k == "MethodCall" and e["method"] == "bits" and not e["args"]:
        return eval_int(e["recv"], env)
    raise NotConst(k)


def subst_paths(node, env):
    """copy of an expression tree with plain identifiers replaced by the expressions in env"""
    if isinstance(node, dict):
        if node.get("k") == "Path" and node.get("path") in env and not node.get("qself"):
            return env[node["path"]]
        return {k: subst_paths(v, env) for k, v in node.items()}
    if isinstance(node, list):
        return [subst_paths(x, env) for x in node]
    return node


def inline_simple_call(ast, e, crate=None, depth=0):
    """`helper(a, b)` -> the helper's body with its parameters replaced by the arguments, when helper is a free function of
    the workspace whose body is a single tail expression over plain identifier parameters (e.g. `fn node_count(nodes: &[Node])
    -> i32 { nodes.len() as i32 }`); otherwise e unchanged.  References (`&x`) around arguments are looked through."""
    if depth > 3 or not isinstance(e, dict) or e.get("k") != "Call" or (e.get("func") or {}).get("k") != "Path":
        return e
    name = e["func"]["path"].split("::")[-1]
    fs = ast.free_fn(name, crate)
    if len(fs) != 1:
        return e
    it = fs[0][3]
    body = it.get("body") or []
    if len(body) != 1 or body[0].get("k") != "Expr" or body[0].get("semi"):
        return e
    params = []
    for inp in it["sig"]["inputs"]:
        if inp.get("self") or (inp.get("pat") or {}).get("k") != "Ident":
            return e
        params.append(inp["pat"]["name"])
    if len(params) != len(e.get("args") or []):
        return e
    env = {}
    for p_, a in zip(params, e["args"]):
        while isinstance(a, dict) and a.get("k") == "Ref":
            a = a["e"]
        env[p_] = a
    return inline_simple_call(ast, subst_paths(body[0]["e"], env), crate, depth + 1)
