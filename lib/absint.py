"""A3 — interval analysis with branch refinement over mirx MIR (forward dataflow, hull join, widening).

Keys: ('l', n) whole local; ('l', n, i) tuple/aggregate field i of a local; ('p', text) any other place (by text,
invalidated when its base local is written or borrowed mutably by a call).
Facts kept besides intervals: for bool locals the comparison they hold (for refinement on SwitchInt), for locals
holding a discriminant the place it was read from (for enum-variant specialisation)."""
import re

from mirq import callee, is_tracing

INT_RANGE = {
    "u8": (0, 2 ** 8 - 1), "u16": (0, 2 ** 16 - 1), "u32": (0, 2 ** 32 - 1), "u64": (0, 2 ** 64 - 1), "u128": (0, 2 ** 128 - 1),
    "usize": (0, 2 ** 64 - 1), "i8": (-2 ** 7, 2 ** 7 - 1), "i16": (-2 ** 15, 2 ** 15 - 1), "i32": (-2 ** 31, 2 ** 31 - 1),
    "i64": (-2 ** 63, 2 ** 63 - 1), "i128": (-2 ** 127, 2 ** 127 - 1), "isize": (-2 ** 63, 2 ** 63 - 1), "bool": (0, 1), "char": (0, 0x10FFFF),
}
LEN_MAX = 2 ** 63 - 1

# dependency functions with a known result range
CALL_RANGES = [
    (re.compile(r"(BytesMut|Bytes|Vec<.*>|Vec::<.*>|String|IndexSet.*|UninitSlice)::len$|<impl \[T\]>::len$|<impl str>::len$|slice.*::len$|str::len$"), (0, LEN_MAX)),
    (re.compile(r"Duration::as_millis$"), (0, (2 ** 64 - 1) * 1000 + 999)),
    (re.compile(r"Duration::as_secs$"), (0, 2 ** 64 - 1)),
    (re.compile(r"Duration::subsec_millis$"), (0, 999)),
    (re.compile(r"Cursor::<T>::position$|Cursor<.*>::position$"), (0, 2 ** 64 - 1)),
]


def ty_range(ty):
    return INT_RANGE.get(ty)


def place_key(p):
    if not p["p"]:
        return ("l", p["l"])
    if len(p["p"]) == 1 and isinstance(p["p"][0], dict) and "f" in p["p"][0]:
        return ("l", p["l"], p["p"][0]["f"])
    return ("p", "%d%s" % (p["l"], "".join(_pj(x) for x in p["p"])))


def _pj(x):
    if x == "deref":
        return ".*"
    if isinstance(x, dict):
        if "f" in x:
            return ".%d" % x["f"]
        if "downcast" in x:
            return "@%d" % x["downcast"]
        if "index" in x:
            return "[_%d]" % x["index"]
        if "cidx" in x:
            return "[%d]" % x["cidx"]
    return ".?"


STD_ENUMS = {
    "core::option::Option": {"variants": [{"name": "None", "idx": 0, "discr": "0", "fields": []}, {"name": "Some", "idx": 1, "discr": "1", "fields": [{"name": "0"}]}]},
    "core::result::Result": {"variants": [{"name": "Ok", "idx": 0, "discr": "0", "fields": [{"name": "0"}]}, {"name": "Err", "idx": 1, "discr": "1", "fields": [{"name": "0"}]}]},
}

AST = None          # syntax-tree index (set by the check driver): values of named constant structs

EMPTY = (2 ** 300, -2 ** 300)          # the interval of a value that cannot exist on this path


def hull(a, b):
    if a is None or b is None:
        return None
    return (min(a[0], b[0]), max(a[1], b[1]))


class Intervals:
    def __init__(self, body, mir, assume_discr=None, assume=None, summaries=None):
        """assume_discr: {place-key-text: variant index} e.g. {'1.*': 1} = discriminant(*_1) is 1
        assume: {key: (lo,hi)} initial intervals (arguments)"""
        self.b = body
        self.mir = mir
        self.assume_discr = assume_discr or {}
        self.assume = assume or {}
        self.summaries = summaries if summaries is not None else {}
        self.entry = {}          # bb -> env
        self.rel = {}            # key -> (op, a, b)   a/b: key or ('c', v)
        self.disc = {}           # key -> place key text
        self.infeasible = set()  # edges pruned
        self.casts = []          # (bb, idx, from, to, interval, fits, line)
        self.asserts = []        # (bb, msg, discharged, detail, line)
        self._run()

    # ------------------------------------------------------------ operand evaluation
    def ty_of_local(self, l):
        return self.b.locals[l]["ty"]

    def op_key(self, op):
        if "const" in op:
            c = op["const"]
            if c.get("val") is not None:
                return ("c", int(c["val"]))
            return None
        p = op.get("copy") or op.get("move")
        if p is None:
            return None
        return place_key(p)

    def op_ty(self, op):
        if "const" in op:
            return op["const"].get("ty")
        p = op.get("copy") or op.get("move")
        if p is None:
            return None
        if not p["p"]:
            return self.ty_of_local(p["l"])
        last = p["p"][-1]
        if isinstance(last, dict) and "ty" in last:
            return last["ty"]
        return None

    def val(self, env, op):
        p0 = (op.get("copy") or op.get("move")) if isinstance(op, dict) else None
        if p0 is not None and p0["p"] and p0["p"][0] == "deref" and ("r", p0["l"]) in env:
            # `(*r).f` where r = &x: the field of x
            op = {"copy": {"l": env[("r", p0["l"])], "p": list(p0["p"][1:])}}
        k = self.op_key(op)
        if k is not None and k[0] in ("a", "e"):
            return None
        if k is None:
            r = ty_range(self.op_ty(op) or "")
            return r
        if k[0] == "c":
            v = k[1]
            t = self.op_ty(op)
            r = ty_range(t or "")
            if r and r[0] < 0 and v > r[1]:
                v -= (r[1] - r[0] + 1)     # signed constants are exported as raw bits
            return (v, v)
        if k in env:
            if env[k][0] > env[k][1]:
                return ty_range(self.op_ty(op) or "")          # empty: read on a path the analysis cannot rule out
            return env[k]
        return ty_range(self.op_ty(op) or "")

    # ------------------------------------------------------------ transfer
    def clamp(self, iv, ty):
        r = ty_range(ty or "")
        if iv is None:
            return r
        if r is None:
            return iv
        if iv[0] < r[0] or iv[1] > r[1]:
            return r     # wrapped
        return iv

    def arith(self, op, a, b):
        if a is None or b is None:
            return None
        if op in ("Add", "AddWithOverflow", "AddUnchecked"):
            return (a[0] + b[0], a[1] + b[1])
        if op in ("Sub", "SubWithOverflow", "SubUnchecked"):
            return (a[0] - b[1], a[1] - b[0])
        if op in ("Mul", "MulWithOverflow", "MulUnchecked"):
            c = [a[0] * b[0], a[0] * b[1], a[1] * b[0], a[1] * b[1]]
            return (min(c), max(c))
        if op == "Div":
            if b[0] <= 0 <= b[1] or a[0] < 0:
                return None if b[0] <= 0 <= b[1] else (min(a[0] // b[0], a[0] // b[1], a[1] // b[0], a[1] // b[1]), max(a[0] // b[0], a[0] // b[1], a[1] // b[0], a[1] // b[1]))
            return (a[0] // b[1], a[1] // b[0])
        if op == "Rem":
            if b[0] > 0 and a[0] >= 0:
                return (0, min(a[1], b[1] - 1))
            return None
        if op == "BitAnd":
            if a[0] >= 0 and b[0] >= 0:
                return (0, min(a[1], b[1]))
            return None
        if op == "BitOr" or op == "BitXor":
            if a[0] >= 0 and b[0] >= 0:
                m = max(a[1], b[1])
                return (0, (1 << m.bit_length()) - 1)
            return None
        if op in ("Shr", "ShrUnchecked"):
            if a[0] >= 0 and b[0] == b[1] and b[0] >= 0:
                return (a[0] >> b[0], a[1] >> b[0])
            if a[0] >= 0:
                return (0, a[1])
            return None
        if op in ("Shl", "ShlUnchecked"):
            if a[0] >= 0 and b[0] == b[1] and 0 <= b[0] < 128:
                return (a[0] << b[0], a[1] << b[0])
            return None
        return None

    def invalidate(self, env, local):
        def hits(kk):
            return kk is not None and ((kk[0] == "l" and kk[1] == local) or (kk[0] == "p" and re.match(r"^%d(\D|$)" % local, kk[1]) is not None))
        env.pop(("d", local), None)
        env.pop(("r", local), None)
        for k in list(env):
            if k[0] == "r":
                if env[k] == local:
                    del env[k]
                continue
            if k[0] == "d":
                continue
            if k[0] == "e":
                op, a, b = env[k]
                if hits(k[1]) or hits(a) or hits(b):
                    del env[k]
                continue
            if k[0] == "a":
                src = env[k]
                if (src[0] == "l" and src[1] == local) or (src[0] == "p" and re.match(r"^%d(\D|$)" % local, src[1])):
                    del env[k]
                elif k[1][0] == "l" and k[1][1] == local:
                    del env[k]
                continue
            if (k[0] == "l" and k[1] == local) or (k[0] == "p" and (k[1] == str(local) or k[1].startswith("%d." % local) or k[1].startswith("%d@" % local) or k[1].startswith("%d[" % local))):
                del env[k]
        for d in (self.rel, self.disc):
            pass

    def assign(self, env, bb, idx, st):
        p = st["place"]
        k = place_key(p)
        rv = st["rv"]
        kind = rv["k"]
        dst_ty = None
        if not p["p"]:
            dst_ty = self.ty_of_local(p["l"])
        elif isinstance(p["p"][-1], dict) and "ty" in p["p"][-1]:
            dst_ty = p["p"][-1]["ty"]
        # writing a whole local invalidates everything keyed under it
        if not p["p"]:
            self.invalidate(env, p["l"])
        elif k[0] == "p":
            env.pop(k, None)
        self.relf.pop(k, None)
        self.discf.pop(k, None)
        iv = None
        if kind == "ref" and not p["p"] and not rv["place"]["p"] and not rv.get("mut"):
            env[("r", p["l"])] = rv["place"]["l"]          # a shared reference to a whole local
        if kind == "use" and not p["p"] and isinstance(rv["x"], dict) and "const" in rv["x"] and rv["x"]["const"].get("val") is None and AST is not None:
            # a named constant struct (`const K: S = S { a: 1, b: 4 }`): its integer fields, from the syntax tree
            c = rv["x"]["const"]
            nm = (c.get("uneval") or c.get("text") or "").split("::")[-1]
            fields = (self.mir.structs.get(c.get("ty") or "") or {}).get("fields")
            cs = AST.const(nm) if nm and fields else []
            if len(cs) == 1 and cs[0][3]["value"].get("k") == "Struct":
                from astq import eval_int
                for f in cs[0][3]["value"].get("fields", []):
                    idx = next((i for i, fd in enumerate(fields) if fd["name"] == f.get("member")), None)
                    if idx is None:
                        continue
                    try:
                        v = eval_int(f["e"])
                    except Exception:
                        continue
                    env[("l", p["l"], idx)] = (v, v)
        if kind == "use":
            iv = self.val(env, rv["x"])
            sk = self.op_key(rv["x"])
            sp = rv["x"].get("copy") or rv["x"].get("move") if isinstance(rv["x"], dict) else None
            if sp is not None and not sp["p"] and not p["p"] and ("r", sp["l"]) in env:
                env[("r", p["l"])] = env[("r", sp["l"])]
            if sp is not None and not sp["p"] and not p["p"] and sp["l"] != p["l"]:
                # a whole local copied / moved: what is known about its fields and variant payloads goes with it
                if ("d", sp["l"]) in env:
                    env[("d", p["l"])] = env[("d", sp["l"])]
                for kk in list(env):
                    if kk[0] == "l" and len(kk) == 3 and kk[1] == sp["l"]:
                        env[("l", p["l"], kk[2])] = env[kk]
                    elif kk[0] == "p" and re.match(r"^%d[.@]" % sp["l"], kk[1]):
                        env[("p", "%d%s" % (p["l"], kk[1][len(str(sp["l"])):]))] = env[kk]
            if sk is not None and sk[0] != "c" and "copy" in rv["x"]:
                env[("a", k)] = sk
            elif sk is not None and sk[0] != "c" and ("a", sk) in env and "move" in rv["x"]:
                env[("a", k)] = env[("a", sk)]          # a moved copy is still a copy of the original (`f(len)` passes `move tmp` where tmp = copy len)
            if sk is not None and sk[0] != "c":
                if sk in self.relf:
                    self.relf[k] = self.relf[sk]
                if sk in self.discf:
                    self.discf[k] = self.discf[sk]
        elif kind == "cast":
            src = self.val(env, rv["x"])
            to = rv["to"]
            if rv["kind"] == "IntToInt":
                r = ty_range(to)
                fr = ty_range(rv["from"])
                fits = src is not None and r is not None and src[0] >= r[0] and src[1] <= r[1]
                narrowing = fr is not None and r is not None and (fr[0] < r[0] or fr[1] > r[1])
                if narrowing:
                    self.casts.append({"bb": bb, "idx": idx, "from": rv["from"], "to": to, "iv": src, "fits": fits, "line": st.get("line"), "exp": st.get("exp")})
                iv = src if fits else r
            else:
                iv = ty_range(to)
        elif kind == "bin":
            a, b = self.val(env, rv["l"]), self.val(env, rv["r"])
            op = rv["op"]
            if op in ("Lt", "Le", "Gt", "Ge", "Eq", "Ne"):
                iv = (0, 1)
                ka, kb = self.op_key(rv["l"]), self.op_key(rv["r"])
                if ka is not None and kb is not None:
                    self.relf[k] = (op, ka, kb, rv.get("lty"))
                # decide statically when possible
                if a is not None and b is not None:
                    t = self.decide(op, a, b)
                    if t is not None:
                        iv = (t, t)
            elif op.endswith("WithOverflow"):
                res = self.arith(op, a, b)
                lty = rv.get("lty")
                r = ty_range(lty or "")
                over = res is None or r is None or res[0] < r[0] or res[1] > r[1]
                # value after the accompanying assert(!overflow): the mathematical result inside the type range
                if res is not None and r is not None:
                    env[("l", p["l"], 0)] = (max(res[0], r[0]), min(res[1], r[1])) if not (res[1] < r[0] or res[0] > r[1]) else r
                else:
                    env[("l", p["l"], 0)] = r
                env[("l", p["l"], 1)] = (0, 1) if over else (0, 0)
                return
            else:
                res = self.arith(op, a, b)
                iv = self.clamp(res, rv.get("lty") if op not in ("Shl", "Shr") else rv.get("lty"))
                ka, kb = self.op_key(rv["l"]), self.op_key(rv["r"])
                if ka is not None and kb is not None and op in ("Div", "Mul", "Add", "Sub", "Shr", "BitAnd", "Rem"):
                    self._efact = (k, (op, ka, kb))
        elif kind == "un":
            x = self.val(env, rv["x"])
            if rv["op"] == "Not":
                sk = self.op_key(rv["x"])
                if sk in self.relf:
                    op, a, b, lty = self.relf[sk]
                    neg = {"Lt": "Ge", "Le": "Gt", "Gt": "Le", "Ge": "Lt", "Eq": "Ne", "Ne": "Eq"}[op]
                    self.relf[k] = (neg, a, b, lty)
                if x is not None and x[0] == x[1] and dst_ty == "bool":
                    iv = (1 - x[0], 1 - x[0])
                else:
                    iv = ty_range(dst_ty or "")
            elif rv["op"] == "PtrMetadata":
                iv = (0, LEN_MAX)
                sp = rv["x"].get("copy") or rv["x"].get("move")
                if sp is not None and not sp["p"]:
                    sym = ("p", "%d#len" % sp["l"])
                    iv = env.get(sym, iv)
                    env[sym] = iv
                    env[k] = iv
                    env[("a", k)] = sym
                    return
            else:
                iv = ty_range(dst_ty or "")
        elif kind == "discr":
            pk = place_key(rv["place"])
            pt = pk[1] if pk[0] == "p" else str(pk[1])
            self.discf[k] = pt
            if pt in self.assume_discr:
                v = self.assume_discr[pt]
                iv = (v, v)
            elif not rv["place"]["p"] and ("d", rv["place"]["l"]) in env:
                iv = env[("d", rv["place"]["l"])]
            else:
                iv = ty_range(dst_ty or "") or (0, 2 ** 63)
                en = self.mir.enums.get((rv.get("of") or "").split("<")[0])
                if en and en["variants"]:
                    ds = [int(x["discr"]) for x in en["variants"]]
                    r = ty_range(dst_ty or "")
                    if r and r[0] < 0:
                        ds = [d - 2 ** 128 if d >= 2 ** 127 else d for d in ds]
                    iv = (min(ds), max(ds))
        elif kind == "agg":
            for i, o in enumerate(rv["ops"]):
                v = self.val(env, o)
                if v is not None and not p["p"]:
                    env[("l", p["l"], i)] = v
                    if rv.get("agg") == "adt" and rv.get("variant") is not None:
                        # payload of an enum variant, as read back through `(x as Variant).i`
                        env[("p", "%d@%d.%d" % (p["l"], rv["variant"], i))] = v
            if rv.get("agg") == "adt" and rv.get("variant") is not None and not p["p"]:
                en0 = self.mir.enums.get(rv.get("adt") or "") or STD_ENUMS.get(rv.get("adt") or "")
                dv = next((int(w["discr"]) for w in (en0 or {}).get("variants", []) if w["idx"] == rv["variant"]), None)
                if dv is not None and dv < 2 ** 63:
                    env[("d", p["l"])] = (dv, dv)          # discriminant of a value built as this variant
                # the payloads of the other variants do not exist in this value: the empty interval (neutral at joins), so that
                # `if c { E::A(1) } else { E::B(2) }` keeps what is known about either payload
                en = self.mir.enums.get(rv.get("adt") or "") or STD_ENUMS.get(rv.get("adt") or "")
                for w in (en or {}).get("variants", []):
                    if w["idx"] != rv["variant"]:
                        for i in range(len(w.get("fields") or [])):
                            env[("p", "%d@%d.%d" % (p["l"], w["idx"], i))] = EMPTY
            return
        else:
            iv = ty_range(dst_ty or "")
        if iv is None:
            env.pop(k, None)
        else:
            env[k] = iv
        ef = getattr(self, "_efact", None)
        if ef is not None and ef[0] == k:
            env[("e", k)] = ef[1]
        self._efact = None

    def decide(self, op, a, b):
        if op == "Lt":
            return 1 if a[1] < b[0] else (0 if a[0] >= b[1] else None)
        if op == "Le":
            return 1 if a[1] <= b[0] else (0 if a[0] > b[1] else None)
        if op == "Gt":
            return 1 if a[0] > b[1] else (0 if a[1] <= b[0] else None)
        if op == "Ge":
            return 1 if a[0] >= b[1] else (0 if a[1] < b[0] else None)
        if op == "Eq":
            return 1 if a[0] == a[1] == b[0] == b[1] else (0 if a[1] < b[0] or a[0] > b[1] else None)
        if op == "Ne":
            return 0 if a[0] == a[1] == b[0] == b[1] else (1 if a[1] < b[0] or a[0] > b[1] else None)
        return None

    def call(self, env, bb, t):
        d, rd, ga, fn = callee(t)
        dest = t["dest"]
        k = place_key(dest)
        if not dest["p"]:
            self.invalidate(env, dest["l"])
        # a call that receives `&mut local` may change it (its length symbol and anything keyed under it)
        for a, aty in zip(t["args"], t.get("argtys", [])):
            if aty.startswith("&mut"):
                base = self.ref_base(a)
                if base is not None:
                    self.invalidate(env, base)
        iv = ty_range(t.get("dty") or "")
        name = rd or d or ""
        sym = None
        if re.search(r"::len$", d or "") and t["args"]:
            base = self.ref_base(t["args"][0])
            if base is not None:
                sym = ("p", "%d#len" % base)
        if sym is not None:
            iv = env.get(sym, (0, LEN_MAX))
            env[sym] = iv
            env[k] = iv
            if not dest["p"]:
                env[("a", k)] = sym
            return
        if re.search(r"ops::range::Range(Inclusive)?::<Idx>::contains$", d or "") and len(t["args"]) == 2 and not dest["p"]:
            # the bool result relates the tested local to the constant bounds of the range
            try:
                ro = self.b.origin(t["args"][0])
                while ro[0] in ("ref", "deref"):
                    ro = ro[1]
                lo = hi = None
                if ro[0] == "call" and (ro[1] or "").endswith("RangeInclusive::<Idx>::new") and all(x[0] == "const" and x[1] is not None for x in ro[3]):
                    lo, hi = ro[3][0][1], ro[3][1][1]
                elif ro[0] == "agg" and "ops::range::Range" in str(ro[1]) and str(ro[1][1]).endswith("::Range") and all(x[0] == "const" and x[1] is not None for x in ro[2]):
                    lo, hi = ro[2][0][1], ro[2][1][1] - 1
                base = self.ref_base(t["args"][1])
                for _ in range(3):
                    if base is not None and ("r", base) in env:
                        base = env[("r", base)]          # `&&x` handed to contains: the local behind the references
                if lo is not None and base is not None:
                    self.relf[k] = ("In", ("l", base), (lo, hi), None)
            except Exception:
                pass
            iv = (0, 1)
        elif name in self.summaries:
            iv = self.summaries[name](self, env, t)
        elif re.search(r"convert::num::<impl core::convert::From<(u8|u16|u32|u64|usize|i8|i16|i32|i64)> for [ui](8|16|32|64|128|size)>::from$", name) and len(t["args"]) == 1:
            # lossless integer widening keeps the operand's interval
            v = self.val(env, t["args"][0])
            if v is not None:
                iv = v
        else:
            for rx, r in CALL_RANGES:
                if rx.search(name) or (d and rx.search(d)):
                    iv = r
                    break
        if iv is None:
            env.pop(k, None)
        else:
            env[k] = iv

    def ref_base(self, op):
        """local whose address the operand holds (`&_n` / `&mut _n`, possibly through one copy), else None"""
        p = op.get("copy") or op.get("move")
        if p is None or p["p"]:
            return None
        for _ in range(3):
            d = self.b.single_def(p["l"])
            if d is None or d[0] != "stmt":
                return None
            rv = d[3]["rv"]
            if rv["k"] in ("ref", "rawptr") and not rv["place"]["p"]:
                return rv["place"]["l"]
            if rv["k"] in ("ref", "rawptr") and rv["place"]["p"] == ["deref"]:
                # reborrow of a reference held in a local: identify by that local
                return rv["place"]["l"]
            if rv["k"] == "use" and (rv["x"].get("copy") or rv["x"].get("move")) and not (rv["x"].get("copy") or rv["x"].get("move"))["p"]:
                p = rv["x"].get("copy") or rv["x"].get("move")
                continue
            return None
        return None

    # ------------------------------------------------------------ refinement
    def refine(self, env, key, lo=None, hi=None):
        if key is None or key[0] == "c":
            return True
        cur = env.get(key)
        if cur is None:
            cur = self.key_range(key)
        nlo = cur[0] if lo is None else max(cur[0], lo)
        nhi = cur[1] if hi is None else min(cur[1], hi)
        if nlo > nhi:
            return False
        env[key] = (nlo, nhi)
        changed = {key}
        src = env.get(("a", key))
        hops = 0
        while src is not None and hops < 8:
            c2 = env.get(src) or self.key_range(src)
            l2, h2 = (c2[0] if lo is None else max(c2[0], lo)), (c2[1] if hi is None else min(c2[1], hi))
            if l2 > h2:
                return False
            env[src] = (l2, h2)
            changed.add(src)
            src = env.get(("a", src))
            hops += 1
        # downward: live copies of anything refined hold the same value
        grew = True
        rounds = 0
        while grew and rounds < 4:
            grew = False
            rounds += 1
            for k2 in list(env):
                if k2[0] == "a" and env[k2] in changed and k2[1] not in changed:
                    s = env[env[k2]] if env[k2] in env else None
                    if s is None:
                        continue
                    c2 = env.get(k2[1]) or self.key_range(k2[1])
                    n = (max(c2[0], s[0]), min(c2[1], s[1]))
                    if n[0] > n[1]:
                        return False
                    env[k2[1]] = n
                    changed.add(k2[1])
                    grew = True
        return self.recompute(env, changed, 0)

    def recompute(self, env, changed, depth):
        """re-derive values defined by a recorded arithmetic expression over a refined operand (bounded propagation)"""
        if depth > 3:
            return True
        nxt = set()
        for k in list(env):
            if k[0] != "e":
                continue
            op, a, b = env[k]
            if a in changed or b in changed:
                va, vb = self.kv(env, a), self.kv(env, b)
                res = self.arith(op, va, vb)
                if res is None:
                    continue
                cur = env.get(k[1]) or self.key_range(k[1])
                n = (max(cur[0], res[0]), min(cur[1], res[1]))
                if n[0] > n[1]:
                    return False
                if n != cur:
                    env[k[1]] = n
                    nxt.add(k[1])
                    # copies of the re-derived value
                    for k2 in list(env):
                        if k2[0] == "a" and env[k2] == k[1]:
                            c2 = env.get(k2[1]) or (-2 ** 200, 2 ** 200)
                            env[k2[1]] = (max(c2[0], n[0]), min(c2[1], n[1]))
        if nxt:
            return self.recompute(env, nxt, depth + 1)
        return True

    def key_range(self, key):
        if key[0] == "l" and len(key) == 2:
            r = ty_range(self.ty_of_local(key[1]))
            if r:
                return r
        return (-2 ** 200, 2 ** 200)

    def kv(self, env, k):
        if k[0] == "c":
            return (k[1], k[1])
        return env.get(k)

    def apply_rel(self, env, rel, truth):
        if rel[0] == "In":
            # `(lo..=hi).contains(&x)` / `(lo..hi).contains(&x)`: true puts x inside the constant range
            _op, a, (lo, hi), _ty = rel
            return self.refine(env, a, lo=lo, hi=hi) if truth else True
        op, a, b, lty = rel
        if not truth:
            op = {"Lt": "Ge", "Le": "Gt", "Gt": "Le", "Ge": "Lt", "Eq": "Ne", "Ne": "Eq"}[op]
        r = ty_range(lty or "") or (-2 ** 200, 2 ** 200)
        va = self.kv(env, a) or r
        vb = self.kv(env, b) or r
        ok = True
        if op == "Lt":
            ok = self.refine(env, a, hi=vb[1] - 1) and self.refine(env, b, lo=va[0] + 1)
        elif op == "Le":
            ok = self.refine(env, a, hi=vb[1]) and self.refine(env, b, lo=va[0])
        elif op == "Gt":
            ok = self.refine(env, a, lo=vb[0] + 1) and self.refine(env, b, hi=va[1] - 1)
        elif op == "Ge":
            ok = self.refine(env, a, lo=vb[0]) and self.refine(env, b, hi=va[1])
        elif op == "Eq":
            ok = self.refine(env, a, lo=vb[0], hi=vb[1]) and self.refine(env, b, lo=va[0], hi=va[1])
        elif op == "Ne":
            if vb[0] == vb[1]:
                if va[0] == va[1] == vb[0]:
                    ok = False
                elif va[0] == vb[0]:
                    ok = self.refine(env, a, lo=va[0] + 1)
                elif va[1] == vb[0]:
                    ok = self.refine(env, a, hi=va[1] - 1)
        return ok

    def edge_env(self, env, bb, t, succ):
        """environment along the edge bb -> succ, or None if infeasible"""
        e = dict(env)
        k = t["k"]
        if k == "switch":
            dk = self.op_key(t["discr"])
            tg = [(int(v), tb) for v, tb in t["targets"]]
            vals = [v for v, tb in tg if tb == succ]
            is_other = succ == t["otherwise"]
            cur = self.val(env, t["discr"])
            if dk is not None and dk[0] == "c":
                want = [tb for v, tb in tg if v == dk[1]]
                want = want[0] if want else t["otherwise"]
                return e if succ == want else None
            if vals and not is_other:
                if cur is not None and not any(cur[0] <= v <= cur[1] for v in vals):
                    return None
                if len(vals) == 1:
                    if not self.refine(e, dk, lo=vals[0], hi=vals[0]):
                        return None
                    if dk in self.relf and t.get("dty") == "bool":
                        if not self.apply_rel(e, self.relf[dk], vals[0] != 0):
                            return None
            elif is_other:
                listed = [v for v, _ in tg]
                if cur is not None and cur[0] == cur[1] and cur[0] in listed:
                    return None
                if dk in self.relf and t.get("dty") == "bool" and listed == [0]:
                    if not self.apply_rel(e, self.relf[dk], True):
                        return None
                # trim listed values from the ends
                if cur is not None and dk is not None:
                    lo, hi = cur
                    while lo in listed and lo <= hi:
                        lo += 1
                    while hi in listed and hi >= lo:
                        hi -= 1
                    if lo > hi:
                        return None
                    e[dk] = (lo, hi)
            return e
        if k == "assert":
            # continuing means the condition held
            ck = self.op_key(t["cond"])
            if ck is not None and ck[0] != "c":
                v = 1 if t["expected"] else 0
                self.refine(e, ck, lo=v, hi=v)
                if ck in self.relf:
                    self.apply_rel(e, self.relf[ck], t["expected"])
            return e
        return e

    # ------------------------------------------------------------ driver
    def _run(self):
        b = self.b
        self.relf = {}
        self.discf = {}
        env0 = dict(self.assume)
        work = [0]
        self.entry = {0: env0}
        visits = {}
        succs = b.succs()
        while work:
            bb = work.pop()
            visits[bb] = visits.get(bb, 0) + 1
            if visits[bb] > 60:
                continue
            env = dict(self.entry[bb])
            bl = b.blocks[bb]
            for i, st in enumerate(bl["stmts"]):
                if st["k"] == "assign":
                    self.assign(env, bb, i, st)
            t = bl["term"]
            if t is None:
                continue
            if t["k"] == "call":
                self.call(env, bb, t)
            for s in succs[bb]:
                e = self.edge_env(env, bb, t, s)
                if e is None:
                    self.infeasible.add((bb, s))
                    continue
                self.infeasible.discard((bb, s))
                if s not in self.entry:
                    self.entry[s] = e
                    work.append(s)
                else:
                    old = self.entry[s]
                    new = {}
                    for k in old:
                        if k in e and k[0] in ("a", "e", "r"):
                            if old[k] == e[k]:
                                new[k] = old[k]
                            continue
                        if k in e:
                            h = hull(old[k], e[k])
                            if visits.get(s, 0) > 8 and h != old[k]:
                                # widening
                                h = (h[0] if h[0] == old[k][0] else -2 ** 200, h[1] if h[1] == old[k][1] else 2 ** 200)
                            new[k] = h
                    if new != old:
                        self.entry[s] = new
                        work.append(s)
        # second pass: collect cast/assert verdicts with the fixpoint environments
        self.casts = []
        for bb in sorted(self.entry):
            env = dict(self.entry[bb])
            bl = b.blocks[bb]
            for i, st in enumerate(bl["stmts"]):
                if st["k"] == "assign":
                    self.assign(env, bb, i, st)
            t = bl["term"]
            if t and t["k"] == "assert":
                ck = self.op_key(t["cond"])
                v = self.val(env, t["cond"])
                want = 1 if t["expected"] else 0
                ok = v is not None and v[0] == v[1] == want
                self.asserts.append({"bb": bb, "msg": t["msg"], "ok": ok, "line": t["line"], "exp": t.get("exp"),
                                     "detail": {kk: self.val(env, t[kk]) for kk in ("l", "r", "len", "index") if kk in t}})
            self.exit_env = getattr(self, "exit_env", {})
            self.exit_env[bb] = env

    def reachable(self):
        return set(self.entry)

    def value_at_exit(self, bb, op):
        return self.val(self.exit_env[bb], op)

    def value_at_entry(self, bb, op):
        return self.val(self.entry[bb], op)


def const_table_summary(mir, name, ast=None):
    """summary for a local fn whose every return is a constant selected by discriminant(*arg1): {variant: value}.
    First the literal form (`match self { A => 255, B => 1020 }`); otherwise - with the syntax tree at hand - the function is
    normalised (module helpers inlined) and its decision table evaluated per variant, so that `self.framing().max_length`
    over named constant structs yields the same table."""
    t = _const_table_literal(mir, name)
    if t is not None or ast is None:
        return t
    import tabeval
    from mirq import inline_calls, strip_refs
    b = mir.body(name)
    if b is None:
        return None
    mod = name.rsplit("::", 2)[0] + "::"
    b = inline_calls(b, lambda d: d.startswith(mod) and "{closure" not in d and d != name, depth=3)
    try:
        rows = b.decision_rows()
    except Exception:
        return None

    class _C:
        pass
    c = _C()
    c.mir, c.ast = mir, ast
    cur = {}

    def leaf(o, model):
        if o[0] == "discr" and strip_refs(o[1]) == ("arg", 1):
            return cur["v"]
        return None
    model = tabeval.Model(c, b, None, local_prefix=mod, extra_leaf=leaf)
    table = {}
    for vi in range(0, 8):
        cur["v"] = vi
        model.ev.reset()
        try:
            ms = model.ev.matching_rows(rows)
            vals = {model.ev.ev(r[1][3][0]) for r in ms if len(r[1]) > 3 and r[1][3]}
        except (tabeval.Unknown, tabeval.Panic):
            return None
        if len(vals) == 1:
            v = vals.pop()
            if isinstance(v, int):
                table[vi] = v
    if not table:
        return None
    if len(set(table.values())) == 1 and len(table) == 8:
        return {None: next(iter(table.values()))}
    return table


def _const_table_literal(mir, name):
    b = mir.body(name)
    if b is None:
        return None
    rows = b.decision_rows()
    table = {}
    for conds, ret, others in rows:
        if ret[1] not in ("use", "const") or not ret[2] or not re.match(r"^-?\d+$", ret[2][0]):
            return None
        v = int(ret[2][0])
        cs = [(c[1], c[2], c[3]) for c in conds]
        if not cs:
            table[None] = v
        elif len(cs) == 1 and cs[0][0] == "discr(*arg1)" and cs[0][1] == "eq":
            for x in cs[0][2]:
                table[x] = v
        else:
            return None
    return table


def make_table_summary(table, self_key="1.*"):
    def f(an, env, t):
        if None in table and len(table) == 1:
            return (table[None], table[None])
        v = an.assume_discr.get(self_key)
        if v is not None and v in table:
            return (table[v], table[v])
        vals = list(table.values())
        return (min(vals), max(vals))
    return f


def per_path_values(body, mir, target_bb, operand, limit=3000, **kw):
    """path-sensitive value of `operand` at the exit of block target_bb: the interval analysis is run once per acyclic path
    from the entry to target_bb on a copy of the body in which every branch off the path leads to an `unreachable` block, so
    that what a path establishes (a guard, the variant a helper's result was built as) is not lost at joins.  Returns the
    hull over the paths on which target_bb is reachable, or None when no path is / the path count exceeds the limit."""
    from mirq import Body
    succs = body.succs()
    paths = []

    def go(bb, path):
        if len(paths) > limit:
            return
        if bb == target_bb:
            paths.append(path + [bb])
            return
        for s2 in sorted(set(succs[bb])):
            if s2 in path or s2 == bb:
                continue
            go(s2, path + [bb])
    import sys
    old = sys.getrecursionlimit()
    sys.setrecursionlimit(max(old, 10000))
    try:
        go(0, [])
    finally:
        sys.setrecursionlimit(old)
    if not paths or len(paths) > limit:
        return None
    out = None
    seen = set()
    for path in paths:
        key = tuple(path)
        if key in seen:
            continue
        seen.add(key)
        nxt = {a: b2 for a, b2 in zip(path, path[1:])}
        blocks = []
        dead = len(body.raw["blocks"])
        for i, bl in enumerate(body.raw["blocks"]):
            t = bl["term"]
            if i in nxt and t and t["k"] == "switch":
                keep = nxt[i]
                t = dict(t, targets=[[v, (tb if tb == keep else dead)] for v, tb in t["targets"]], otherwise=(t["otherwise"] if t["otherwise"] == keep else dead))
                bl = dict(bl, term=t)
            blocks.append(bl)
        blocks.append({"stmts": [], "term": {"k": "unreachable"}, "cleanup": False})
        pb = Body(body.name + "#path", dict(body.raw, blocks=blocks), mir)
        try:
            an = Intervals(pb, mir, **kw)
        except Exception:
            return None
        if target_bb not in an.reachable():
            continue
        v = an.value_at_exit(target_bb, operand)
        if v is None:
            return None
        out = v if out is None else hull(out, v)
    return out
