"""A2 — panic-site inventory over the workspace call graph from given entry points."""
import json
import os
import re

import absint
from core import VERIF
from mirq import callee, is_tracing

PANIC_CALLS = re.compile(r"^core::panicking::|^std::rt::begin_panic|^core::option::expect_failed|^core::result::unwrap_failed|^std::process::abort|^core::option::unwrap_failed")
UNWRAPS = re.compile(r"^core::option::Option::<T>::(unwrap|expect)$|^core::result::Result::<T, E>::(unwrap|expect|unwrap_err|expect_err)$")

# dependency functions with a panicking precondition (reviewed list; `why` says what must hold)
PANICKY = [
    (r"^bytes::bytes_mut::BytesMut::(split_to|split_off)$", "at <= len"),
    (r"^bytes::buf::buf_impl::Buf::(advance|copy_to_bytes|copy_to_slice|get_u8|get_u16|get_u32|get_u64|get_i8|get_i16|get_i32|get_uint|get_int)(_le|_ne)?$", "cnt <= remaining"),
    (r"^bytes::bytes::Bytes::(split_to|split_off|slice|truncate)$", "range within len"),
    (r"^bytes::buf::buf_mut::BufMut::(put_slice|put_bytes|put_u8|put)$", "remaining_mut >= len (Vec/BytesMut grow: cannot fail)"),
    (r"^core::ops::index::Index(Mut)?::index(_mut)?$", "index in bounds / char boundary"),
    (r"^core::slice::<impl \[T\]>::(copy_from_slice|clone_from_slice|split_at|split_at_mut|swap|chunks|chunks_exact|windows|rotate_left|rotate_right|copy_within)$", "lengths agree / index in bounds / size non-zero"),
    (r"^core::str::<impl str>::(split_at|split_at_mut)$", "char boundary"),
    (r"^alloc::vec::Vec::<T, A>::(remove|swap_remove|insert|drain|split_off)$|^alloc::vec::Vec::<T>::(remove|swap_remove|insert|drain|split_off)$", "index in bounds"),
    (r"^alloc::string::String::(remove|insert|insert_str|drain|split_off|replace_range)$", "char boundary / in bounds"),
    (r"^core::time::Duration::(new|from_secs_f32|from_secs_f64|mul_f32|mul_f64|div_f32|div_f64)$", "no overflow / finite"),
    (r"^<core::time::Duration as core::ops::arith::(Add|Sub|Mul|Div)(<.*>)?>::(add|sub|mul|div)$|^core::ops::arith::(Add|Sub|Mul|Div)::(add|sub|mul|div)$", "no overflow (only when the operand types are Duration/Instant)"),
    (r"^core::cell::RefCell::<T>::(borrow|borrow_mut)$", "not already borrowed"),
    (r"^core::iter::traits::iterator::Iterator::step_by$", "step != 0"),
    (r"^core::char::methods::<impl char>::(from_digit|to_digit)$", "radix <= 36"),
    (r"^alloc::vec::Vec::<T>::with_capacity$|^alloc::vec::Vec::<T, A>::(reserve|reserve_exact|resize)$|^alloc::string::String::with_capacity$|^bytes::bytes_mut::BytesMut::(with_capacity|reserve|resize)$", "capacity overflow / allocation (only when sized by untrusted input)"),
]
PANICKY = [(re.compile(p), why) for p, why in PANICKY]


def load_reviewed():
    p = os.path.join(VERIF, "tables", "panic_sites.json")
    if not os.path.exists(p):
        return {}
    with open(p) as fh:
        return {e["key"]: e for e in json.load(fh)}


class Inventory:
    def __init__(self, mir, roots, stop=()):
        self.mir = mir
        self.roots_ = set(roots)
        self.reach = []
        self.edges = {}
        self.unresolved = []
        self.external = {}
        seen = set()
        work = list(roots)
        stop = [re.compile(s) for s in stop]
        while work:
            n = work.pop()
            if n in seen or any(s.search(n) for s in stop):
                continue
            b = mir.body(n)
            if b is None:
                continue
            seen.add(n)
            self.reach.append(n)
            # closures / coroutines defined inside
            for k in mir.bodies:
                if k.startswith(n + "::{closure#") and not k.endswith("#promoted") and k not in seen:
                    work.append(k)
            for bb, t in b.calls():
                d, rd, ga, fn = callee(t)
                if fn is None:
                    self.unresolved.append((n, bb, t["line"]))
                    continue
                tgt = None
                if rd and mir.body(rd) is not None:
                    tgt = rd
                elif mir.body(d) is not None:
                    tgt = d
                if tgt is not None:
                    self.edges.setdefault(n, set()).add(tgt)
                    work.append(tgt)
                else:
                    self.external.setdefault(rd or d, 0)
                    self.external[rd or d] += 1
                    # blanket wrappers of core that dispatch to a workspace impl
                    for w in self.blanket_targets(d, ga):
                        self.edges.setdefault(n, set()).add(w)
                        work.append(w)
            # function items passed as values (binrw passes parsers as fn items)
            for bl in b.blocks:
                for st in bl["stmts"]:
                    if st["k"] == "assign":
                        for c in _fn_consts(st["rv"]):
                            tgt = (c.get("resolved") or {}).get("def") or c["def"]
                            if mir.body(tgt) is not None:
                                work.append(tgt)
                t = bl["term"]
                if t and t["k"] == "call":
                    for a in t["args"]:
                        if "const" in a and "fn" in a["const"]:
                            c = a["const"]["fn"]
                            tgt = (c.get("resolved") or {}).get("def") or c["def"]
                            if mir.body(tgt) is not None:
                                work.append(tgt)
        self.reach.sort()

    def blanket_targets(self, d, ga):
        """workspace impls reached through core's blanket impls: Into->From, TryInto->TryFrom, ToString->Display, parse->FromStr"""
        out = []
        idx = self._impl_index()
        if d == "core::convert::Into::into" and len(ga) >= 2:
            out += idx.get(("From", ga[1], ga[0]), [])
        elif d == "core::convert::TryInto::try_into" and len(ga) >= 2:
            out += idx.get(("TryFrom", ga[1], ga[0]), [])
        elif d in ("alloc::string::ToString::to_string", "std::string::ToString::to_string") and ga:
            out += idx.get(("Display", ga[0], None), [])
        elif d == "core::str::<impl str>::parse" and ga:
            out += idx.get(("FromStr", ga[0], None), [])
        return out

    def _impl_index(self):
        if hasattr(self.mir, "_impl_index"):
            return self.mir._impl_index
        idx = {}
        for k in self.mir.bodies:
            m = re.match(r"^<(.+) as core::convert::(From|TryFrom)<(.+)>>::(from|try_from)$", k)
            if m:
                idx.setdefault((m.group(2), m.group(1), m.group(3)), []).append(k)
                continue
            m = re.match(r"^.*<impl core::convert::(From|TryFrom)<(.+)> for (.+)>::(from|try_from)$", k)
            if m:
                idx.setdefault((m.group(1), m.group(3), m.group(2)), []).append(k)
                continue
            m = re.match(r"^<(.+) as core::fmt::Display>::fmt$", k)
            if m:
                idx.setdefault(("Display", m.group(1), None), []).append(k)
                continue
            m = re.match(r"^<(.+) as core::str::traits::FromStr>::from_str$", k)
            if m:
                idx.setdefault(("FromStr", m.group(1), None), []).append(k)
        self.mir._impl_index = idx
        return idx

    def _caller_intervals(self, n):
        c = getattr(self, "_anc", None)
        if c is None:
            c = self._anc = {}
        if n not in c:
            try:
                c[n] = absint.Intervals(self.mir.body(n), self.mir, assume=self.param_ranges(n, _depth=1))
            except Exception:
                c[n] = False
        return c[n]

    def param_ranges(self, fn, _depth=0):
        """intervals of the integer parameters of `fn`, as the union over its call sites inside the analysed call graph
        (a private helper is only ever entered with the values its callers pass) - {} when fn is a root, is used as a
        function value, has no call site in the graph, or an argument cannot be bounded"""
        if fn in getattr(self, "roots_", ()) or _depth > 2:
            return {}
        b = self.mir.body(fn)
        if b is None or "{closure" in fn:
            return {}
        sites = []
        for n in self.reach:
            if n == fn:
                continue
            cb = self.mir.body(n)
            if cb is None:
                continue
            for bl in cb.blocks:
                for st in bl["stmts"]:
                    if st["k"] == "assign":
                        for c in _fn_consts(st["rv"]):
                            if fn in (c.get("def"), (c.get("resolved") or {}).get("def")):
                                return {}
            for bb, t in cb.calls():
                d, rd, ga, f2 = callee(t)
                if fn in (d, rd):
                    sites.append((n, bb, t))
        if not sites:
            return {}
        out = {}
        for i in range(1, b.argc + 1):
            ty = b.locals[i].get("ty", "")
            if absint.ty_range(ty) is None:
                continue
            lo, hi = None, None
            ok = True
            for n, bb, t in sites:
                an = self._caller_intervals(n) if _depth == 0 else None
                iv = None
                if an:
                    try:
                        iv = an.value_at_exit(bb, t["args"][i - 1])
                    except Exception:
                        iv = None
                if iv is None:
                    ok = False
                    break
                lo = iv[0] if lo is None else min(lo, iv[0])
                hi = iv[1] if hi is None else max(hi, iv[1])
            if ok and lo is not None:
                out[("l", i)] = (lo, hi)
        return out

    def sites(self):
        """[(function, kind, what, ordinal, line, discharged, detail)]"""
        out = []
        for n in self.reach:
            b = self.mir.body(n)
            an = None
            counts = {}

            def add(kind, what, line, ok, detail, exp):
                key = (kind, what)
                counts[key] = counts.get(key, 0) + 1
                out.append({"fn": n, "kind": kind, "what": what, "ord": counts[key] - 1, "line": line, "ok": ok, "detail": detail, "exp": exp,
                            "file": b.file, "bb": self._cur_bb})
            for bb, bl in enumerate(b.blocks):
                self._cur_bb = bb
                if bl.get("cleanup"):
                    continue
                t = bl["term"]
                if t is None:
                    continue
                if t["k"] == "assert":
                    if t["msg"] in ("resumed_after_return", "resumed_after_panic", "resumed_after_drop", "misaligned", "null_deref"):
                        continue
                    if an is None:
                        try:
                            an = absint.Intervals(b, self.mir, assume=self.param_ranges(n))
                        except Exception as e:  # analysis failure = not discharged
                            an = False
                    ok = False
                    detail = None
                    if an:
                        for a in an.asserts:
                            if a["bb"] == bb:
                                ok = a["ok"]
                                detail = a["detail"]
                        if bb not in an.reachable():
                            ok = True
                            detail = "unreachable"
                    add("assert", t["msg"], t["line"], ok, detail, t.get("exp"))
                elif t["k"] == "call":
                    if is_tracing(t):
                        continue
                    d, rd, ga, fn = callee(t)
                    if d is None:
                        continue
                    name = rd or d
                    if PANIC_CALLS.search(d):
                        add("panic", d.split("::")[-1], t["line"], False, None, t.get("exp"))
                    elif UNWRAPS.search(d):
                        add("unwrap", d.split("::")[-1], t["line"], False, None, t.get("exp"))
                    else:
                        for rx, why in PANICKY:
                            if rx.search(d) or rx.search(name):
                                if "arith" in d and not any("Duration" in g or "Instant" in g for g in ga):
                                    break
                                add("precondition", d, t["line"], False, why, t.get("exp"))
                                break
        return out


def _fn_consts(rv):
    out = []

    def walk(x):
        if isinstance(x, dict):
            if "const" in x and isinstance(x["const"], dict) and "fn" in x["const"]:
                out.append(x["const"]["fn"])
            for v in x.values():
                walk(v)
        elif isinstance(x, list):
            for v in x:
                walk(v)
    walk(rv)
    return out


def auto_discharge(mir, site_fn, b, bb, t):
    """cheap structural discharges for dependency preconditions; returns reason or None"""
    d, rd, ga, fn = callee(t)
    name = d or ""
    args = [b.origin(a) for a in t["args"]]
    if name.endswith("<impl [T]>::windows") or name.endswith("<impl [T]>::chunks") or name.endswith("chunks_exact"):
        if len(args) > 1 and args[1][0] == "const" and args[1][1]:
            return "window/chunk size is the non-zero constant %d" % args[1][1]
    if re.search(r"Vec::<T(, A)?>::insert$", name):
        if len(args) > 1 and args[1][0] == "const" and args[1][1] == 0:
            return "insert at index 0 is always in bounds"
    if re.search(r"(String|Vec::<T>|BytesMut)::with_capacity$", name):
        o = args[0] if args else None
        x = o
        while x is not None and x[0] == "cast":
            x = x[4]
        if x is not None and x[0] == "arg" and isinstance(x[1], int) and "{closure" not in site_fn:
            # the capacity is a parameter of a helper with one call site: what that call site passes
            sites = _callsites(mir, site_fn)
            if len(sites) == 1 and x[1] - 1 < len(sites[0][2]["args"]):
                x = sites[0][0].origin(sites[0][2]["args"][x[1] - 1])
                while x is not None and x[0] == "cast":
                    x = x[4]
        if x is not None and x[0] == "call" and re.search(r"::len$", x[1] or ""):
            return "capacity is the length of data already in memory (%s)" % x[1]
        if x is not None and x[0] == "const":
            return "constant capacity"
        if x is not None and x[0] == "call" and (x[1] or "").endswith("size_hint"):
            return "capacity is a table constant (size_hint)"
    if re.search(r"Index(Mut)?::index(_mut)?$", name) and len(args) == 2:
        # constant index / range into a fixed-size array: `bytes[0..=2]` on a `[u8; 4]`
        m = re.search(r"\[[^;\]]+; (\d+)\]", (t.get("argtys") or [""])[0] or "")
        if m:
            n = int(m.group(1))
            r = args[1]
            lo = hi = None
            if r[0] == "const" and r[1] is not None:
                lo, hi = r[1], r[1] + 1
            elif r[0] == "call" and (r[1] or "").endswith("RangeInclusive::<Idx>::new") and all(x[0] == "const" and x[1] is not None for x in r[3]):
                lo, hi = r[3][0][1], r[3][1][1] + 1
            elif r[0] == "agg" and "ops::range::Range" in str(r[1]) and all(x[0] == "const" and x[1] is not None for x in r[2]):
                nm = str(r[1][1]).split("::")[-1] if len(r[1]) > 1 else ""
                vals = [x[1] for x in r[2]]
                if nm == "Range":
                    lo, hi = vals
                elif nm == "RangeTo":
                    lo, hi = 0, vals[0]
                elif nm == "RangeToInclusive":
                    lo, hi = 0, vals[0] + 1
                elif nm == "RangeFrom":
                    lo, hi = vals[0], n
                elif nm == "RangeFull":
                    lo, hi = 0, n
            if lo is not None and 0 <= lo <= hi <= n:
                return "constant range %d..%d inside a fixed-size array of %d elements" % (lo, hi, n)
    if re.search(r"core::str::<impl str>::(split_at|split_at_mut)$", name) and len(args) == 2:
        # `s.split_at(s.find(..).unwrap_or(s.len()))`: an index str::find returned for the same string is a character boundary of
        # it, and so is its length
        def same_str(x):
            a, b2 = x, args[0]
            for _ in range(4):
                while isinstance(a, tuple) and a and a[0] in ("ref", "deref"):
                    a = a[1]
                while isinstance(b2, tuple) and b2 and b2[0] in ("ref", "deref"):
                    b2 = b2[1]
            return a == b2

        def boundary(o, depth=0):
            while isinstance(o, tuple) and o and o[0] in ("ref", "deref"):
                o = o[1]
            if not isinstance(o, tuple) or not o or depth > 4:
                return False
            if o[0] == "call" and re.search(r"core::str::<impl str>::(find|rfind|len)$", o[1] or "") and o[3]:
                return same_str(o[3][0])
            if o[0] == "call" and re.search(r"Option::<T>::unwrap_or$", o[1] or "") and len(o[3]) == 2:
                return boundary(o[3][0], depth + 1) and boundary(o[3][1], depth + 1)
            if o[0] == "const" and o[1] == 0:
                return True
            if o[0] == "field" and o[1][0] == "downcast" and o[1][3] == "Some":
                return boundary(o[1][1], depth + 1)
            return False
        if boundary(args[1]):
            return "the split position is what str::find returned for this very string, or its length: a character boundary inside it"
    if re.search(r"Index(Mut)?::index(_mut)?$", name) and len(args) == 2:
        # `s[k..]` / `s[..k]` / `s[a..b]` with constant bounds on a slice whose length a dominating guard bounds from below
        # (`if s.len() < 2 { continue }`): the interval analysis keeps the length of the slice as a symbol
        r = args[1]
        need = None
        if r[0] == "agg" and "ops::range::Range" in str(r[1]) and all(x[0] == "const" and x[1] is not None for x in r[2]):
            nm = str(r[1][1]).split("::")[-1] if len(r[1]) > 1 else ""
            vals = [x[1] for x in r[2]]
            if nm == "RangeFrom":
                need = vals[0]
            elif nm == "RangeTo":
                need = vals[0]
            elif nm == "RangeToInclusive":
                need = vals[0] + 1
            elif nm == "Range" and vals[0] <= vals[1]:
                need = vals[1]
        elif r[0] == "const" and r[1] is not None:
            need = r[1] + 1
        if need is not None:
            try:
                an = absint.Intervals(b, mir)
                base = an.ref_base(t["args"][0])
                env = getattr(an, "exit_env", {}).get(bb, {})
                iv = env.get(("p", "%d#len" % base)) if base is not None else None
            except Exception:
                iv = None
            if iv is not None and iv[0] >= need:
                return "constant bound %d inside a slice of at least %d elements (dominating length guard, interval analysis)" % (need, iv[0])
    if re.search(r"Vec::<T(, A)?>::resize$", name) and len(args) >= 2:
        # the new length is computed from lengths of data already in memory and constants only (through integer-only helpers)
        def in_memory(o, depth=0):
            if depth > 12 or not isinstance(o, tuple) or not o:
                return False
            k = o[0]
            if k == "const":
                return True
            if k in ("ref", "deref"):
                return in_memory(o[1], depth + 1)
            if k == "cast":
                return in_memory(o[4], depth + 1)
            if k == "field" and o[1][0] == "bin":
                return in_memory(o[1], depth + 1)
            if k == "bin":
                return in_memory(o[2], depth + 1) and in_memory(o[3], depth + 1)
            if k == "un":
                return in_memory(o[2], depth + 1)
            if k == "call":
                if re.search(r"::len$", o[1] or ""):
                    return True
                if re.search(r"^core::num::<impl [ui](8|16|32|64|128|size)>::\w+$", o[1] or ""):
                    return all(in_memory(a, depth + 1) for a in o[3])          # integer-only std helper (next_multiple_of, min, ...)
                cb = mir.bodies.get(o[2] or o[1] or "")
                if cb is not None and not cb.get("coroutine") and all(absint.ty_range(cb["locals"][i].get("ty", "")) is not None for i in range(1, cb["argc"] + 1)):
                    return all(in_memory(a, depth + 1) for a in o[3])
            return False
        if in_memory(args[1]):
            return "new length is computed from the length of data already in memory and constants"
    if re.search(r"BufMut::(put_slice|put_bytes|put_u8|put)$", name):
        if ga and ("alloc::vec::Vec<u8>" in ga[0] or "BytesMut" in ga[0]):
            return "Vec<u8>/BytesMut grow on demand (remaining_mut is unbounded)"
    return None


def _mutated_between(b, vec, frm, to):
    """is the vector `vec` (an origin, references stripped) handed by `&mut` to a call in a block on a path from block frm (exclusive)
    to block to (exclusive)?"""
    from mirq import strip_refs
    fwd = set()
    for sx in b.succs()[frm]:
        fwd |= b.reach(sx, avoid_blocks=(to,))
    fwd |= {to}
    for x in sorted(fwd):
        if x in (frm, to) or to not in b.reach(x):
            continue
        t = b.blocks[x]["term"]
        if t and t["k"] == "call":
            for a, aty in zip(t["args"], t.get("argtys", [])):
                if str(aty).startswith("&mut") and strip_refs(b.origin(a)) == vec:
                    return True
    return False


def discharge_assert_relational(mir, b, bb):
    """overflow asserts of `a - v.len()` that hold by a relation between a and the length, visible in the code shape:
    (T) v.truncate(a) dominates the length read and v is not handed out mutably in between: len <= a;
    (R) a = (v.len() + m) & !m  or  v.len().next_multiple_of(c), with v unchanged in between: a >= len."""
    from mirq import strip_refs
    t = b.blocks[bb]["term"]
    if t and t["k"] == "assert" and t.get("msg") == "bounds" and "len" in t and "index" in t:
        # `w[i]` with a constant i where w is an element of `s.windows(k)` / `s.chunks_exact(k)`: every such element has k items
        lo = b.origin(t["len"])
        io = b.origin(t["index"])
        x = lo[2] if lo[0] == "un" and lo[1] in ("PtrMetadata", "Len") else None
        while isinstance(x, tuple) and x and x[0] in ("ref", "deref"):
            x = x[1]
        if x is not None and io[0] == "const" and io[1] is not None and x[0] == "field" and x[1][0] == "downcast" and x[1][3] == "Some":
            it = x[1][1]
            for _ in range(6):
                if not (isinstance(it, tuple) and it):
                    break
                if it[0] in ("ref", "deref"):
                    it = it[1]
                elif it[0] == "call" and re.search(r"Iterator::next$|IntoIterator::into_iter$|Iterator::by_ref$", it[1] or "") and it[3]:
                    it = it[3][0]
                else:
                    break
            if isinstance(it, tuple) and it and it[0] == "call" and re.search(r"<impl \[T\]>::(windows|chunks_exact|array_windows)$", it[1] or "") and len(it[3]) > 1:
                k = it[3][1]
                if k[0] == "const" and k[1] is not None and io[1] < k[1]:
                    return "index %d into an element of `%s(%d)`: every element has exactly %d items" % (io[1], it[1].split("::")[-1], k[1], k[1])
        return None
    if not t or t["k"] != "assert" or "overflow" not in str(t.get("msg", "")).lower():
        return None
    o = b.origin(t["cond"])
    if not (o[0] == "field" and o[2] == 1 and o[1][0] == "bin" and o[1][1] == "SubWithOverflow"):
        return None
    A, B = o[1][2], o[1][3]

    def f0(x):
        return x[1] if x[0] == "field" and x[2] == 0 and x[1][0] == "bin" else x

    def len_of(x):
        if x[0] == "call" and re.search(r"Vec::<T(, A)?>::len$|BytesMut::len$", x[1] or "") and x[3]:
            return strip_refs(x[3][0]), x[4]
        return None
    lb = len_of(B)
    if lb is None:
        return None
    vec, bbL = lb
    # (T)
    for bbT, tt in b.calls_to(r"Vec::<T(, A)?>::truncate$|BytesMut::truncate$"):
        if strip_refs(b.origin(tt["args"][0])) == vec and b.origin(tt["args"][1]) == A and b.dominates(bbT, bbL) and not _mutated_between(b, vec, bbT, bbL):
            return "`a - v.len()` after `v.truncate(a)` with v untouched in between: len <= a"
    # (R)
    a = f0(A)
    if a[0] == "bin" and a[1] == "BitAnd":
        x, m = f0(a[2]), a[3]
        if x[0] == "bin" and x[1] in ("AddWithOverflow", "Add") and m[0] == "un" and m[1] == "Not":
            la = len_of(x[2])
            if la is not None and la[0] == vec and f0(x[3]) == f0(m[2]) and b.dominates(la[1], bbL) and not _mutated_between(b, vec, la[1], bbL):
                return "`((len + m) & !m) - len`: rounding up never goes below len"
    if a[0] == "call" and re.search(r"<impl usize>::next_multiple_of$", a[1] or "") and a[3]:
        la = len_of(a[3][0])
        if la is not None and la[0] == vec and b.dominates(la[1], bbL) and not _mutated_between(b, vec, la[1], bbL):
            return "`len.next_multiple_of(c) - len`: rounding up never goes below len"
    return None


def discharge_assert_in_caller(mir, s, param_ranges=None):
    """a private helper with a single caller is part of that caller: its assert is decided on the caller's body with the helper
    (and the caller's other single-caller helpers) inlined - where the values of non-integer parameters (enum payloads, struct
    fields) are visible - by the interval analysis and the relational shapes above."""
    from mirq import inline_calls
    f = s["fn"]
    chain = []
    g = f
    for _ in range(3):
        g = sole_caller(mir, g)
        if g is None:
            break
        chain.append(g)
    for g in chain:
        gb = mir.body(g)
        if gb is None:
            continue
        helpers = {f}
        for n in mir.bodies:
            if not n.endswith("#promoted") and "{closure" not in n and n != g and sole_caller(mir, n) in ([g] + list(helpers)):
                helpers.add(n)
        gmod = (g[1:].split(" as ")[0] if g.startswith("<") else g).rsplit("::", 2)[0] + "::"
        # inlining is always sound: besides the helper itself, any function of the caller's module that the caller uses to build the
        # helper's arguments (a table lookup such as `self.limits()`) is inlined too
        ib = inline_calls(gb, lambda d: d in helpers or (d.startswith(gmod) and "{closure" not in d and d != g), depth=4)
        if ib is gb:
            continue
        cands = [bb for bb, bl in enumerate(ib.blocks) if bl["term"] and bl["term"]["k"] == "assert" and bl["term"]["line"] == s["line"]
                 and bl["term"]["msg"] == s["what"] and bb >= len(gb.blocks)]
        if not cands:
            continue
        try:
            an = absint.Intervals(ib, mir, assume=param_ranges(g) if param_ranges else None)
        except Exception:
            an = None
        ok_all = True
        why = []
        for bb in cands:
            ok = False
            if an:
                if bb not in an.reachable():
                    ok = True
                    why.append("unreachable")
                for a in an.asserts:
                    if a["bb"] == bb and a["ok"]:
                        ok = True
                        why.append("interval analysis: %s" % (a["detail"],))
            if not ok:
                r = discharge_assert_relational(mir, ib, bb)
                if r:
                    ok = True
                    why.append(r)
            ok_all = ok_all and ok
        if ok_all:
            return "decided on the body of the only caller %s with the helper inlined: %s" % (g, "; ".join(sorted(set(why)))[:300])
    return None


def is_or_helper_of(mir, fn, root, generic=None):
    """fn is root, or a function whose only-caller chain leads to root; with generic=<name>: every call along that chain passes the
    caller's own generic parameter of that name on (so that what is known about root's instantiations holds for fn as well)"""
    f = fn.split("::{closure")[0]
    for _ in range(4):
        if f == root:
            return True
        g = sole_caller(mir, f)
        if g is None:
            return False
        if generic is not None:
            gb = mir.body(g)
            ok = False
            for _bb, t in (gb.calls() if gb is not None else []):
                d, rd, ga, _f = callee(t)
                if (rd or d) == f or d == f:
                    ok = generic in [str(x) for x in (ga or [])]
                    if not ok:
                        return False
            if not ok:
                return False
        f = g
    return False


def _callsites(mir, fn):
    """(caller body, block, terminator) of every workspace call to fn"""
    sole_caller(mir, fn)          # builds the caller map
    out = []
    for n in sorted(_CALLERS[id(mir)].get(fn, ())):
        for nm in [k for k in mir.bodies if (k == n or k.startswith(n + "::{closure")) and not k.endswith("#promoted")]:
            cb = mir.body(nm)
            if cb is None:
                continue
            for bb, t in cb.calls():
                d, rd, ga, f2 = callee(t)
                if fn in (d, rd):
                    out.append((cb, bb, t))
    return out


def _const_values(b, o, bb, ctx=None, depth=0):
    """the constant values an operand origin can take at block bb, or None when it is not a set of constants.
    Looks through multiply-assigned locals (reaching definitions), parameters (every workspace call site of the function)
    and iteration over a literal constant array (`for x in CONST_ARRAY` / `.iter()`), whose elements come from the AST."""
    if depth > 6:
        return None
    while isinstance(o, tuple) and o and o[0] in ("ref", "deref"):
        o = o[1]
    if not isinstance(o, tuple) or not o:
        return None
    if o[0] == "const" and o[1] is not None:
        return [o[1]]
    if o[0] == "phi" and isinstance(o[1], int):
        out = []
        ds = b.reaching_defs(o[1], bb)
        if not ds:
            return None
        for d in ds:
            if d[0] == "arg":
                v = _const_values(b, ("arg", d[1]), bb, ctx, depth + 1)
            else:
                v = _const_values(b, b.def_origin(d), d[1] if len(d) > 1 and isinstance(d[1], int) else bb, ctx, depth + 1)
            if v is None:
                return None
            out.extend(v)
        return out
    if o[0] == "arg" and isinstance(o[1], int) and "{closure" not in b.name:
        fn = b.name.split("#")[0]
        sites = _callsites(b.mir, fn)
        if not sites:
            return None
        out = []
        for cb, cbb, t in sites:
            if o[1] - 1 >= len(t["args"]):
                return None
            v = _const_values(cb, cb.origin(t["args"][o[1] - 1]), cbb, ctx, depth + 1)
            if v is None:
                return None
            out.extend(v)
        return out
    if o[0] == "arg" and o[1] == 2 and "{closure" in b.name and ctx is not None:
        # the parameter of a closure handed to an iterator adaptor over a constant array (`A.into_iter().filter(..).find_map(|x| ..)`):
        # the elements of A
        bname = re.sub(r"#(promoted|inlined|tmp)$", "", b.name)
        m = re.match(r"(.*)::\{closure#\d+\}$", bname)
        pb = b.mir.body(m.group(1)) if m else None
        if pb is not None:
            for cbb, t in pb.calls():
                if not re.search(r"Iterator::(find_map|filter|filter_map|map|find|position|all|any|for_each|take_while|skip_while|map_while|inspect|flat_map)$", callee(t)[0] or ""):
                    continue
                args = [pb.origin(a) for a in t["args"]]
                if len(args) == 2 and args[1][0] == "agg" and args[1][1] == ("closure", bname):
                    return _iter_source_consts(pb, args[0], ctx)
    # element of an iteration over a constant array: next(into_iter(const A)) as Some.0 / next(iter(&A))
    if o[0] == "field" and o[1][0] == "downcast" and o[1][3] == "Some" and o[1][1][0] == "call" and re.search(r"Iterator::next$", o[1][1][1] or ""):
        it = o[1][1][3][0] if o[1][1][3] else None
        while isinstance(it, tuple) and it and it[0] in ("ref", "deref"):
            it = it[1]
        if isinstance(it, tuple) and it[0] == "phi":
            alts = [b.def_origin(d) for d in b.defs().get(it[1], []) if d[0] != "arg"]
            alts = [a for a in alts if isinstance(a, tuple) and a[0] == "call"]
            it = alts[0] if len(alts) == 1 else it
        if isinstance(it, tuple) and it[0] == "call" and re.search(r"IntoIterator::into_iter$|<impl \[T\]>::iter$|::iter$", it[1] or "") and it[3]:
            src = it[3][0]
            while isinstance(src, tuple) and src and src[0] in ("ref", "deref", "cast"):
                src = src[4] if src[0] == "cast" else src[1]
            if isinstance(src, tuple) and src[0] == "const" and isinstance(src[2], str) and ctx is not None:
                name = src[2].split("::")[-1]
                cs = ctx.ast.const(name)
                if len(cs) == 1:
                    v = cs[0][3]["value"]
                    elems = v.get("elems")
                    if elems and all(x.get("t") in ("char", "int") for x in elems):
                        return [ord(x["v"]) if x["t"] == "char" else int(x["v"]) for x in elems]
    return None


def _iter_source_consts(pb, it, ctx):
    """elements of the constant array an iterator chain runs over (through adaptors that only drop or reorder elements)"""
    for _ in range(8):
        while isinstance(it, tuple) and it and it[0] in ("ref", "deref"):
            it = it[1]
        if not (isinstance(it, tuple) and it and it[0] == "call" and it[3]):
            return None
        nm = it[1] or ""
        if re.search(r"IntoIterator::into_iter$|<impl \[T\]>::iter$|::iter$", nm):
            src = it[3][0]
            while isinstance(src, tuple) and src and src[0] in ("ref", "deref", "cast"):
                src = src[4] if src[0] == "cast" else src[1]
            if isinstance(src, tuple) and src[0] == "const" and isinstance(src[2], str):
                cs = ctx.ast.const(src[2].split("::")[-1])
                if len(cs) == 1:
                    elems = cs[0][3]["value"].get("elems")
                    if elems and all(x.get("t") in ("char", "int") for x in elems):
                        return [ord(x["v"]) if x["t"] == "char" else int(x["v"]) for x in elems]
            return None
        if re.search(r"Iterator::(filter|skip|take|rev|copied|cloned|skip_while|take_while|step_by|peekable|fuse|by_ref|inspect)$", nm):
            it = it[3][0]
            continue
        return None
    return None


def discharge_unreachable_closure(mir, s, ctx=None):
    """`f(K).unwrap_or_else(|| unreachable!())` where f is a workspace function that is a finite table over its argument
    (every path decided by comparing the argument with constants) and K can only be constants for which the table
    returns Some: the closure is never called.  Decided from f's decision table on every run."""
    m = re.match(r"(.*)::\{closure#\d+\}$", s["fn"])
    if not m:
        return None
    pb = mir.body(m.group(1))
    if pb is None:
        return None
    hits = []
    for bb, bl in enumerate(pb.blocks):
        t = bl["term"]
        if not t or t["k"] != "call":
            continue
        args = [pb.origin(a) for a in t["args"]]
        if any(a[0] == "agg" and a[1] == ("closure", s["fn"]) for a in args if isinstance(a, tuple) and a):
            hits.append((bb, t, args))
    if len(hits) != 1:
        return None
    bb, t, args = hits[0]
    if not re.search(r"Option::<T>::unwrap_or_else$", callee(t)[0] or "") or len(args) != 2:
        return None
    recv = args[0]
    if recv[0] != "call" or not recv[2] or len(recv[3]) != 1:
        return None
    tb = mir.body(recv[2])
    if tb is None:
        return None
    vals = _const_values(pb, recv[3][0], recv[4], ctx)
    if not vals:
        return None
    try:
        rows = tb.decision_rows()
    except Exception:
        return None
    if not rows:
        return None
    for v in vals:
        matched = 0
        for conds, ret, _ in rows:
            ok = True
            for c in conds:
                if c[0] != "cond" or c[2] not in ("eq", "ne") or c[4] not in (("arg", 1), ("deref", ("arg", 1))):
                    return None
                if (c[2] == "eq") != (v in c[3]):
                    ok = False
            if ok:
                matched += 1
                if ret[0] != "ret" or ret[1] != "Some":
                    return None
        if matched == 0:
            return None
    return "closure passed to unwrap_or_else on %s(K), K in {%s}: the callee's decision table returns Some for each of these constants, so the closure is never called" % (
        recv[2], ", ".join(repr(chr(v)) if 32 <= v < 127 else str(v) for v in sorted(set(vals))))


_CALLERS = {}


def sole_caller(mir, fn):
    """the single workspace function that calls (or mentions as a fn item) `fn`, or None"""
    key = id(mir)
    if key not in _CALLERS:
        cm = {}
        for n in mir.bodies:
            if n.endswith("#promoted"):
                continue
            b = mir.body(n)
            if b is None:
                continue
            for bb, t in b.calls():
                d, rd, ga, f2 = callee(t)
                for x in (rd, d):
                    if x and x in mir.bodies:
                        cm.setdefault(x, set()).add(n.split("::{closure")[0])
            for bl in b.blocks:
                for st in bl["stmts"]:
                    if st["k"] == "assign":
                        for c in _fn_consts(st["rv"]):
                            tgt = (c.get("resolved") or {}).get("def") or c["def"]
                            if tgt in mir.bodies:
                                cm.setdefault(tgt, set()).add(n.split("::{closure")[0])
        _CALLERS[key] = cm
    cs = _CALLERS[key].get(fn.split("::{closure")[0], set()) - {fn.split("::{closure")[0]}
    if len(cs) == 1:
        return next(iter(cs))
    return None


def check_paths(ctx, rep, rule, roots, stop=(), label=None, extra_discharge=None, site_filter=None):
    """A2 as a rule: every panic site reachable from roots must be discharged mechanically, reviewed, or a known finding"""
    inv = Inventory(ctx.mir, roots, stop)
    reviewed = load_reviewed()
    sites = inv.sites()
    n_auto = n_rev = n_open = 0
    if site_filter is not None:
        sites = [s for s in sites if site_filter(s)]
    for s in sites:
        b = ctx.mir.body(s["fn"])
        rep.fn(s["fn"])
        key = "%s:%s:%s:%d" % (s["fn"], s["kind"], s["what"].split("::")[-1], s["ord"])
        why = None
        if s["ok"]:
            why = "interval analysis: %s" % (s["detail"],)
        else:
            if s["kind"] == "precondition":
                # locate the terminator again
                for bb, bl in enumerate(b.blocks):
                    t = bl["term"]
                    if t and t["k"] == "call" and t["line"] == s["line"] and (callee(t)[0] == s["what"]):
                        why = auto_discharge(ctx.mir, s["fn"], b, bb, t)
                        if why:
                            break
            if why is None and s["kind"] == "panic":
                why = discharge_unreachable_closure(ctx.mir, s, ctx)
            if why is None and s["kind"] == "assert":
                why = discharge_assert_relational(ctx.mir, b, s["bb"])
            if why is None and extra_discharge is not None:
                why = extra_discharge(s)
            if why is None and s["kind"] == "assert":
                why = discharge_assert_in_caller(ctx.mir, s, inv.param_ranges)
        if why is not None:
            n_auto += 1
            rep.check(rule, key, True, "", "%s:%s" % (s["file"], s["line"]), nontrivial=not s["ok"],
                      sample={"site": key, "discharged": why} if not s["ok"] else None)
            continue
        rkey = "%s:%s:%s:%d" % (s["fn"], s["kind"], s["what"].split("::")[-1], s["ord"])
        rv = reviewed.get(rkey)
        if rv is None:
            for k2, e2 in reviewed.items():
                if k2.endswith(":*") and rkey.startswith(k2[:-1]):
                    rv = e2
        if rv is None:
            # a helper whose only caller in the workspace is G is part of G: G's reviewed wildcard entries cover it
            f = s["fn"]
            for _ in range(3):
                cs = sole_caller(ctx.mir, f)
                if cs is None:
                    break
                k3 = "%s:%s:%s:" % (cs, s["kind"], s["what"].split("::")[-1])
                for k2, e2 in reviewed.items():
                    if k2.endswith(":*") and k3.startswith(k2[:-1]):
                        rv = dict(e2, why=e2["why"] + " [%s is a helper called only from %s]" % (s["fn"], cs))
                if rv is not None:
                    break
                f = cs
        if rv is not None:
            n_rev += 1
            rep.check(rule, key, True, "", "%s:%s" % (s["file"], s["line"]), sample={"site": key, "reviewed": rv["why"]})
            continue
        n_open += 1
        rep.check(rule, key, False,
                  "panic site on the %s path: %s `%s` in %s is neither discharged mechanically nor reviewed (%s)"
                  % (label or rule, s["kind"], s["what"], s["fn"], s["detail"]), "%s:%s" % (s["file"], s["line"]))
    rep.notes.append("%s: %d functions reachable from %s; %d panic sites (%d discharged mechanically, %d reviewed, %d open); %d dependency callees not entered"
                     % (rule, len(inv.reach), roots, len(sites), n_auto, n_rev, n_open, len(inv.external)))
    return inv, sites
