"""Literal decision tables from the syntax tree: `match x { PAT => BODY, ... }` and `matches!(x, PAT | PAT)`."""
from astq import find_nodes


def pdesc(p):
    k = p["k"]
    if k == "Path":
        return ("var", p["path"].split("::")[-1])
    if k in ("TupleStruct", "Struct"):
        return ("var", p["path"].split("::")[-1], tuple(pdesc(e) for e in p.get("elems", [])) if k == "TupleStruct" else ())
    if k == "Lit":
        if p["t"] in ("int", "byte"):
            return ("lit", int(p["v"]))
        if p["t"] == "char":
            return ("lit", p["v"])
        return ("lit", p["v"])
    if k == "Slice":
        return ("seq", tuple(pdesc(e) for e in p["elems"]))
    if k == "Tuple":
        return ("tuple", tuple(pdesc(e) for e in p["elems"]))
    if k == "Range":
        lo = edesc(p["lo"]) if p["lo"] else None
        hi = edesc(p["hi"]) if p["hi"] else None
        return ("range", lo[1] if lo else None, hi[1] if hi else None, p["inclusive"])
    if k == "Wild":
        return ("wild",)
    if k == "Ident":
        return ("bind", p["name"])
    if k == "Ref":
        return pdesc(p["pat"])
    if k == "Or":
        return ("or", tuple(pdesc(c) for c in p["cases"]))
    return ("other", str(p)[:60])


def edesc(e):
    k = e["k"]
    if k == "Lit":
        if e["t"] in ("int", "byte"):
            return ("lit", int(e["v"]))
        if e["t"] == "float":
            return ("lit", float(e["v"]))
        if e["t"] == "str":
            return ("str", e["v"])
        return ("lit", e["v"])
    if k == "Path":
        return ("path", e["path"])
    if k == "Call" and e["func"]["k"] == "Path":
        return ("call", e["func"]["path"], tuple(edesc(a) for a in e["args"]))
    if k == "MethodCall":
        return ("method", e["method"], edesc(e["recv"]), tuple(edesc(a) for a in e["args"]))
    if k == "Array":
        return ("seq", tuple(edesc(x) for x in e["elems"]))
    if k == "Tuple":
        return ("tuple", tuple(edesc(x) for x in e["elems"]))
    if k == "Macro":
        return ("macro", e["name"], tuple(edesc(a) for a in (e["args"] or [])))
    if k == "Struct":
        return ("struct", e["path"], tuple((f["member"], edesc(f["e"])) for f in e["fields"]))
    if k == "Block" and len(e["stmts"]) == 1 and e["stmts"][0]["k"] == "Expr":
        return edesc(e["stmts"][0]["e"])
    if k == "Cast":
        return ("cast", edesc(e["e"]), e["ty"]["text"])
    if k == "Binary":
        return ("bin", e["op"], edesc(e["lhs"]), edesc(e["rhs"]))
    if k == "Ref":
        return edesc(e["e"])
    if k == "Return":
        return ("return", edesc(e["e"]) if e["e"] else None)
    return ("other", k)


def rows(arms):
    """[(pattern-desc, body-desc, guard?, line)] with or-patterns expanded"""
    out = []
    for a in arms:
        p = pdesc(a["pat"])
        b = edesc(a["body"])
        ps = p[1] if p[0] == "or" else (p,)
        for x in ps:
            out.append((x, b, a.get("guard") is not None, a["ln"]))
    return out


def first_match(body, scrutinee=None):
    """first `match` in a fn body (optionally on a given scrutinee path text)"""
    ms = find_nodes(body, lambda n: n.get("k") == "Match")
    for m in ms:
        if scrutinee is None or (m["e"].get("k") == "Path" and m["e"]["path"] == scrutinee):
            return m
    return None


def matches_set(body):
    """variants listed in the first `matches!(self, A | B | ...)` of a fn body"""
    ms = find_nodes(body, lambda n: n.get("k") == "Matches")
    if not ms:
        return None
    p = pdesc(ms[0]["pat"])
    ps = p[1] if p[0] == "or" else (p,)
    return [x for x in ps], ms[0]["ln"]


def bytes_of(d):
    """('seq', (('lit',66),...)) -> bytes or None"""
    if d[0] != "seq":
        return None
    out = []
    for x in d[1]:
        if x[0] != "lit" or not isinstance(x[1], int):
            return None
        out.append(x[1])
    return bytes(out)


def follow_match(ast, tyname, ent, it, good, crate=None, depth=2):
    """the match table of a method - or, when the method only delegates (`self.helper(..)`, `Self::helper(..)`), of the
    helper method of the same type it calls.  good(match) -> bool selects a table-like match.  Returns (entity, item, match)."""
    from astq import find_nodes
    for m in find_nodes(it["body"], lambda n: n.get("k") == "Match"):
        if good(m):
            return ent, it, m
    if depth <= 0:
        return ent, it, None
    called = set()
    for n in find_nodes(it["body"], lambda n: n.get("k") in ("Call", "MethodCall")):
        if n["k"] == "MethodCall":
            called.add(n["method"])
        else:
            pth = (n.get("func") or {}).get("path") or ""
            if pth:
                called.add(pth.split("::")[-1])
    for nm in sorted(called):
        for (e2, it2) in ast.method(tyname, nm, crate=crate):
            if it2 is it:
                continue
            r = follow_match(ast, tyname, e2, it2, good, crate, depth - 1)
            if r[2] is not None:
                return r
    return ent, it, None
