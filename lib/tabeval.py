"""Exhaustive evaluation of an extracted decision table over a finite domain.

`decision_rows()` turns a small loop-free function into rows (conditions, result) whose conditions and results are origin
expressions.  This module evaluates such expressions for concrete values of the leaves (arguments, lengths, a first byte,
an enum discriminant), so that a rule can state a function's contract semantically - "accepted => len % 4 == 0 and the
byte is len / 4" - and decide it for every value of a finite domain that covers all the constants the table compares with,
independent of how the source spells the test (`len % 4 != 0`, `checked_rem`, `& 3`, a helper function, a let-else ...).
Nothing of /repo is executed: the table is data extracted from MIR, and evaluating it is arithmetic on that data.

Values: int (integers, bools as 0/1), ('opt', has, value) for Option-like results of modelled calls, UNKNOWN.
"""

UNKNOWN = ("?",)

WIDTH = {"u8": 8, "u16": 16, "u32": 32, "u64": 64, "usize": 64, "u128": 128, "i8": 8, "i16": 16, "i32": 32, "i64": 64, "isize": 64, "i128": 128, "bool": 1, "char": 32}
SIGNED = {"i8", "i16", "i32", "i64", "isize", "i128"}


class Unknown(Exception):
    def __init__(self, what):
        Exception.__init__(self, what)
        self.what = what


class Panic(Exception):
    """the expression would trap (overflow assert, division by zero) - the path diverges"""


def wrap(v, ty):
    w = WIDTH.get(ty)
    if w is None:
        return v
    v &= (1 << w) - 1
    if ty in SIGNED and v >= 1 << (w - 1):
        v -= 1 << w
    return v


def fits(v, ty):
    w = WIDTH.get(ty)
    if w is None:
        return True
    if ty in SIGNED:
        return -(1 << (w - 1)) <= v < (1 << (w - 1))
    return 0 <= v < (1 << w)


class Evaluator:
    """leaf(o) -> value | None  decides source values; call(name, resolved, args(list of origins), ev) -> value | None models callees"""

    def __init__(self, leaf, call=None):
        self.leaf = leaf
        self.call = call

    def ev(self, o):
        v = self.leaf(o)
        if v is not None:
            return v
        k = o[0]
        if k == "const":
            if o[1] is None:
                raise Unknown("constant %s" % (o[2],))
            return o[1]
        if k in ("ref", "deref"):
            return self.ev(o[1])
        if k == "cast":
            v = self.ev(o[4])
            if isinstance(v, tuple):
                raise Unknown("cast of non-integer")
            if o[1] in ("IntToInt", "int", "Transmute") or True:
                return wrap(v, o[3]) if o[3] in WIDTH else v
        if k == "un":
            v = self.ev(o[2])
            if o[1] == "Not":
                if o[2][0] == "bin" and o[2][1] in ("Lt", "Gt", "Le", "Ge", "Eq", "Ne") or v in (0, 1):
                    return 0 if v else 1
                raise Unknown("bitwise not of unknown width")
            if o[1] == "Neg":
                return -v
            raise Unknown("unary %s" % o[1])
        if k == "bin":
            return self.binop(o)
        if k == "field":
            base = o[1]
            # (a OpWithOverflow b).0 / .1
            if base[0] == "bin" and base[1].endswith("WithOverflow"):
                val, ovf = self.binop(base, pair=True)
                return val if o[2] == 0 else (1 if ovf else 0)
            # Some.0 of an option value
            if base[0] == "downcast":
                inner = self.ev(base[1])
                if isinstance(inner, tuple) and inner[0] == "opt":
                    if not inner[1]:
                        raise Panic("payload of None")
                    return inner[2]
                raise Unknown("payload of %s" % (base[3],))
            raise Unknown("field %s" % (o[3],))
        if k == "discr":
            inner = self.ev(o[1])
            if isinstance(inner, tuple) and inner[0] == "opt":
                return 1 if inner[1] else 0
            if isinstance(inner, tuple) and inner[0] == "enum":
                return inner[1]
            raise Unknown("discriminant")
        if k == "call":
            if self.call is not None:
                v = self.call(o[1] or "", o[2] or "", o[3], self)
                if v is not None:
                    return v
            raise Unknown("call %s" % (o[2] or o[1]))
        raise Unknown("%s" % (k,))

    def binop(self, o, pair=False):
        op = o[1]
        a, b = self.ev(o[2]), self.ev(o[3])
        if isinstance(a, tuple) or isinstance(b, tuple):
            raise Unknown("binary op on non-integers")
        ty = o[4] if len(o) > 4 else None
        base = op.replace("WithOverflow", "").replace("Unchecked", "")
        if base in ("Lt", "Gt", "Le", "Ge", "Eq", "Ne"):
            return 1 if {"Lt": a < b, "Gt": a > b, "Le": a <= b, "Ge": a >= b, "Eq": a == b, "Ne": a != b}[base] else 0
        if base == "Add":
            r = a + b
        elif base == "Sub":
            r = a - b
        elif base == "Mul":
            r = a * b
        elif base == "Div":
            if b == 0:
                raise Panic("division by zero")
            r = abs(a) // abs(b) * (1 if (a >= 0) == (b >= 0) else -1)
        elif base == "Rem":
            if b == 0:
                raise Panic("remainder by zero")
            r = abs(a) % abs(b) * (1 if a >= 0 else -1)
        elif base == "BitAnd":
            r = a & b
        elif base == "BitOr":
            r = a | b
        elif base == "BitXor":
            r = a ^ b
        elif base == "Shl":
            r = a << b
        elif base == "Shr":
            r = a >> b
        else:
            raise Unknown("operator %s" % op)
        ovf = ty is not None and not fits(r, ty)
        if pair:
            return (wrap(r, ty) if ty else r), ovf
        if ty is None and (r < 0 or r >= 1 << 64):
            # untyped operand (constant-folded): treat as usize
            ty = "usize"
        return wrap(r, ty) if ty else r

    def reset(self):
        """call when the leaf values change: forgets the per-input cache of condition values"""
        self._cm = {}

    def cond_holds(self, c):
        """c = ('cond', text, kind, vals, origin) -> True/False"""
        cm = getattr(self, "_cm", None)
        if cm is None:
            v = self.ev(c[4])
        else:
            k = id(c[4])
            if k in cm:
                v = cm[k]
                if isinstance(v, Exception):
                    raise v
            else:
                try:
                    v = self.ev(c[4])
                except (Unknown, Panic) as e:
                    cm[k] = e
                    raise
                cm[k] = v
        if isinstance(v, tuple):
            raise Unknown("condition on a non-integer")
        if c[2] == "eq":
            return v in c[3]
        if c[2] == "ne":
            return v not in c[3]
        raise Unknown("condition kind %s" % c[2])

    def matching_rows(self, rows):
        """rows whose conditions all hold; rows that trap before deciding are dropped; raises Unknown if a condition of a
        candidate row cannot be evaluated"""
        out = []
        for r in rows:
            try:
                if all(self.cond_holds(c) for c in r[0]):
                    out.append(r)
            except Panic:
                continue
        return out


def std_call(d, args, ev):
    """models of pure std integer helpers that decision tables commonly mention; None = not modelled"""
    import re
    m = re.search(r"::checked_(rem|div|mul|add|sub)$", d or "")
    if m and len(args) == 2:
        a, c = ev.ev(args[0]), ev.ev(args[1])
        op = m.group(1)
        if op in ("rem", "div") and c == 0:
            return ("opt", False, None)
        r = {"rem": lambda: a % c, "div": lambda: a // c, "mul": lambda: a * c, "add": lambda: a + c, "sub": lambda: a - c}[op]()
        return ("opt", 0 <= r < 2 ** 64, r)
    m = re.search(r"::(is_multiple_of)$", d or "")
    if m and len(args) == 2:
        a, c = ev.ev(args[0]), ev.ev(args[1])
        return 1 if (c != 0 and a % c == 0) or (c == 0 and a == 0) else 0
    m = re.search(r"::(min|max)$", d or "")
    if m and len(args) == 2 and re.search(r"cmp::(Ord::)?(min|max)$|Ord::(min|max)$", d):
        a, c = ev.ev(args[0]), ev.ev(args[1])
        return min(a, c) if m.group(1) == "min" else max(a, c)
    return None
