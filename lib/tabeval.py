"""Exhaustive evaluation of an extracted decision table over a finite domain.

`decision_rows()` turns a small loop-free function into rows (conditions, result) whose conditions and results are origin
expressions.  This module evaluates such expressions for concrete values of the leaves (arguments, lengths, a first byte,
an enum discriminant), so that a rule can state a function's contract semantically - "accepted => len % 4 == 0 and the
byte is len / 4" - and decide it for every value of a finite domain that covers all the constants the table compares with,
independent of how the source spells the test (`len % 4 != 0`, `checked_rem`, `& 3`, a helper function, a let-else ...).
Nothing of /repo is executed: the table is data extracted from MIR, and evaluating it is arithmetic on that data.

Values: int (integers, bools as 0/1), ('opt', has, value) for Option-like results of modelled calls, UNKNOWN.
"""

UNKNOWN = ("?",)

WIDTH = {"u8": 8, "u16": 16, "u32": 32, "u64": 64, "usize": 64, "u128": 128, "i8": 8, "i16": 16, "i32": 32, "i64": 64, "isize": 64, "i128": 128, "bool": 1, "char": 32}
SIGNED = {"i8", "i16", "i32", "i64", "isize", "i128"}


class Unknown(Exception):
    def __init__(self, what):
        Exception.__init__(self, what)
        self.what = what


class Panic(Exception):
    """the expression would trap (overflow assert, division by zero) - the path diverges"""


def wrap(v, ty):
    w = WIDTH.get(ty)
    if w is None:
        return v
    v &= (1 << w) - 1
    if ty in SIGNED and v >= 1 << (w - 1):
        v -= 1 << w
    return v


def fits(v, ty):
    w = WIDTH.get(ty)
    if w is None:
        return True
    if ty in SIGNED:
        return -(1 << (w - 1)) <= v < (1 << (w - 1))
    return 0 <= v < (1 << w)


def type_of(o):
    """integer type of an origin where the tree records it (binary operations, casts, typed constants)"""
    for _ in range(6):
        if not isinstance(o, tuple) or not o:
            return None
        if o[0] == "bin":
            return o[4] if len(o) > 4 else None
        if o[0] == "cast":
            return o[3]
        if o[0] == "const":
            return o[3] if len(o) > 3 else None
        if o[0] == "field" and isinstance(o[1], tuple) and o[1] and o[1][0] == "bin" and o[2] == 0:
            o = o[1]
            continue
        if o[0] in ("ref", "deref"):
            o = o[1]
            continue
        return None
    return None


class Evaluator:
    """leaf(o) -> value | None  decides source values; call(name, resolved, args(list of origins), ev) -> value | None models callees"""

    def __init__(self, leaf, call=None):
        self.leaf = leaf
        self.call = call

    def ev(self, o):
        v = self.leaf(o)
        if v is not None:
            return v
        k = o[0]
        if k in ("field", "downcast") and isinstance(o[1], tuple) and o[1]:
            # a value built as a variant / tuple and taken apart again
            if k == "downcast" and o[1][0] == "agg" and o[1][1][0] == "adt" and o[1][1][2] == o[2]:
                return self.ev(o[1])
            if k == "field" and o[1][0] == "agg" and o[1][1][0] in ("adt", "tuple", "closure") and isinstance(o[2], int) and o[2] < len(o[1][2]):
                return self.ev(o[1][2][o[2]])
            if k == "field" and o[1][0] == "downcast" and isinstance(o[1][1], tuple) and o[1][1] and o[1][1][0] == "agg" and o[1][1][1][0] == "adt":
                if o[1][1][1][2] == o[1][2] and isinstance(o[2], int) and o[2] < len(o[1][1][2]):
                    return self.ev(o[1][1][2][o[2]])
                raise Panic("payload of another variant")
        if k == "agg" and o[1] and o[1][0] == "adt":
            if o[1][1] == "core::option::Option":
                if o[1][3] == "None":
                    return ("opt", False, None)
                try:
                    return ("opt", True, self.ev(o[2][0]))
                except Unknown:
                    pass
            # an enum value of known variant: usable as the operand of a discriminant read
            return ("enum", o[1][2])
        if k == "agg" and o[1] and o[1][0] == "tuple":
            vals = []
            for x in o[2]:
                try:
                    vals.append(self.ev(x))
                except Unknown:
                    vals.append(None)
            return ("tup", tuple(vals))
        if k == "const":
            if o[1] is None:
                raise Unknown("constant %s" % (o[2],))
            return o[1]
        if k in ("ref", "deref"):
            return self.ev(o[1])
        if k == "cast":
            v = self.ev(o[4])
            if isinstance(v, tuple) and v and v[0] in ("list", "tup") and not (o[3] in WIDTH):
                return v          # unsizing / pointer coercions keep the value
            if isinstance(v, tuple):
                raise Unknown("cast of non-integer")
            if o[1] in ("IntToInt", "int", "Transmute") or True:
                return wrap(v, o[3]) if o[3] in WIDTH else v
        if k == "un":
            v = self.ev(o[2])
            if o[1] == "Not":
                if o[2][0] == "bin" and o[2][1] in ("Lt", "Gt", "Le", "Ge", "Eq", "Ne"):
                    return 0 if v else 1
                ty = (o[3] if len(o) > 3 and o[3] else None) or type_of(o[2])
                if ty == "bool":
                    return 0 if v else 1
                if ty in WIDTH and ty not in SIGNED and isinstance(v, int):
                    return v ^ ((1 << WIDTH[ty]) - 1)
                if v in (0, 1):
                    return 0 if v else 1
                raise Unknown("bitwise not of unknown width")
            if o[1] == "Neg":
                return -v
            raise Unknown("unary %s" % o[1])
        if k == "bin":
            return self.binop(o)
        if k == "field":
            base = o[1]
            nb = self.peel(base)
            if nb is not base and nb[0] == "agg" and nb[1][0] in ("adt", "tuple", "closure") and isinstance(o[2], int) and o[2] < len(nb[2]):
                return self.ev(nb[2][o[2]])
            # (a OpWithOverflow b).0 / .1
            if base[0] == "bin" and base[1].endswith("WithOverflow"):
                val, ovf = self.binop(base, pair=True)
                return val if o[2] == 0 else (1 if ovf else 0)
            # Some.0 of an option value
            if base[0] == "downcast":
                inner = self.ev(base[1])
                if isinstance(inner, tuple) and inner[0] == "opt":
                    if not inner[1]:
                        raise Panic("payload of None")
                    return inner[2]
                if isinstance(inner, tuple) and inner[0] in ("res", "cf"):
                    # Ok.0 / Err.0 of a result value, Continue.0 / Break.0 of a `?`
                    want_ok = base[3] in ("Ok", "Continue")
                    if inner[1] != want_ok:
                        raise Panic("payload of another variant")
                    pl = inner[2]
                    if isinstance(pl, tuple) and pl and pl[0] == "lazy":
                        return self.ev(pl[1])
                    if pl is None:
                        raise Unknown("payload of %s" % (base[3],))
                    return pl
                raise Unknown("payload of %s" % (base[3],))
            try:
                bv = self.ev(base)
            except Unknown:
                bv = None
            if isinstance(bv, tuple) and bv and bv[0] == "tup" and isinstance(o[2], int) and o[2] < len(bv[1]):
                if bv[1][o[2]] is None:
                    raise Unknown("tuple element %d" % o[2])
                return bv[1][o[2]]
            raise Unknown("field %s" % (o[3],))
        if k == "discr":
            inner = self.ev(o[1])
            if isinstance(inner, tuple) and inner[0] == "opt":
                return 1 if inner[1] else 0
            if isinstance(inner, tuple) and inner[0] == "enum":
                return inner[1]
            if isinstance(inner, tuple) and inner[0] in ("res", "cf"):
                return 0 if inner[1] else 1
            raise Unknown("discriminant")
        if k == "call" and (o[1] or "").endswith("ops::try_trait::Try::branch") and o[3]:
            # `?` on a value of known shape
            a = o[3][0]
            if a[0] == "agg" and a[1][0] == "adt" and a[1][3] in ("Ok", "Some", "Err", "None"):
                cont = a[1][3] in ("Ok", "Some")
                return ("cf", cont, ("lazy", a[2][0]) if cont and a[2] else None)
            try:
                v = self.ev(a)
            except Unknown:
                v = None
            if isinstance(v, tuple) and v[0] == "res":
                return ("cf", v[1], v[2] if v[1] else None)
            if isinstance(v, tuple) and v[0] == "opt":
                return ("cf", v[1], v[2] if v[1] else None)
        if k == "call":
            if self.call is not None:
                v = self.call(o[1] or "", o[2] or "", o[3], self)
                if v is not None:
                    return v
            raise Unknown("call %s" % (o[2] or o[1]))
        raise Unknown("%s" % (k,))

    def peel(self, o):
        """the aggregate an origin stands for when it is the payload of a literal Ok/Some/Continue taken apart again:
        `(Ok(x)? )`, `Ok(x) as Ok.0`, references"""
        for _ in range(8):
            if not isinstance(o, tuple) or not o:
                return o
            if o[0] in ("ref", "deref"):
                o = o[1]
                continue
            if o[0] == "field" and o[2] == 0 and isinstance(o[1], tuple) and o[1][0] == "downcast" and o[1][3] in ("Continue", "Ok", "Some"):
                x = o[1][1]
                if x[0] == "call" and (x[1] or "").endswith("ops::try_trait::Try::branch") and x[3]:
                    x = x[3][0]
                if x[0] == "agg" and x[1][0] == "adt" and x[1][3] in ("Ok", "Some", "Continue") and x[2]:
                    o = x[2][0]
                    continue
            return o
        return o

    def binop(self, o, pair=False):
        op = o[1]
        a, b = self.ev(o[2]), self.ev(o[3])
        if isinstance(a, tuple) or isinstance(b, tuple):
            raise Unknown("binary op on non-integers")
        ty = o[4] if len(o) > 4 else None
        base = op.replace("WithOverflow", "").replace("Unchecked", "")
        if base in ("Lt", "Gt", "Le", "Ge", "Eq", "Ne"):
            return 1 if {"Lt": a < b, "Gt": a > b, "Le": a <= b, "Ge": a >= b, "Eq": a == b, "Ne": a != b}[base] else 0
        if base == "Add":
            r = a + b
        elif base == "Sub":
            r = a - b
        elif base == "Mul":
            r = a * b
        elif base == "Div":
            if b == 0:
                raise Panic("division by zero")
            r = abs(a) // abs(b) * (1 if (a >= 0) == (b >= 0) else -1)
        elif base == "Rem":
            if b == 0:
                raise Panic("remainder by zero")
            r = abs(a) % abs(b) * (1 if a >= 0 else -1)
        elif base == "BitAnd":
            r = a & b
        elif base == "BitOr":
            r = a | b
        elif base == "BitXor":
            r = a ^ b
        elif base == "Shl":
            r = a << b
        elif base == "Shr":
            r = a >> b
        else:
            raise Unknown("operator %s" % op)
        ovf = ty is not None and not fits(r, ty)
        if pair:
            return (wrap(r, ty) if ty else r), ovf
        if ty is None and (r < 0 or r >= 1 << 64):
            # untyped operand (constant-folded): treat as usize
            ty = "usize"
        return wrap(r, ty) if ty else r

    def reset(self):
        """call when the leaf values change: forgets the per-input cache of condition values"""
        self._cm = {}

    def cond_holds(self, c):
        """c = ('cond', text, kind, vals, origin) -> True/False"""
        cm = getattr(self, "_cm", None)
        if cm is None:
            v = self.ev(c[4])
        else:
            k = id(c[4])
            if k in cm:
                v = cm[k]
                if isinstance(v, Exception):
                    raise v
            else:
                try:
                    v = self.ev(c[4])
                except (Unknown, Panic) as e:
                    cm[k] = e
                    raise
                cm[k] = v
        if isinstance(v, tuple):
            raise Unknown("condition on a non-integer")
        if c[2] == "eq":
            return v in c[3]
        if c[2] == "ne":
            return v not in c[3]
        raise Unknown("condition kind %s" % c[2])

    def matching_rows(self, rows, lenient=False):
        """rows whose conditions all hold; rows that trap before deciding are dropped; raises Unknown if a condition of a
        candidate row cannot be evaluated - unless lenient: then a condition over values the caller did not fix counts as
        "may hold" (the caller must check that all matching rows agree on the result it is interested in)"""
        out = []
        for r in rows:
            try:
                ok = True
                for c in r[0]:
                    try:
                        if not self.cond_holds(c):
                            ok = False
                            break
                    except Unknown:
                        if not lenient:
                            raise
                if ok:
                    out.append(r)
            except Panic:
                continue
        return out


def std_call(d, args, ev):
    """models of pure std integer helpers that decision tables commonly mention; None = not modelled"""
    import re
    m = re.search(r"::checked_(rem|div|mul|add|sub)$", d or "")
    if m and len(args) == 2:
        a, c = ev.ev(args[0]), ev.ev(args[1])
        op = m.group(1)
        if op in ("rem", "div") and c == 0:
            return ("opt", False, None)
        r = {"rem": lambda: a % c, "div": lambda: a // c, "mul": lambda: a * c, "add": lambda: a + c, "sub": lambda: a - c}[op]()
        return ("opt", 0 <= r < 2 ** 64, r)
    m = re.search(r"core::num::<impl ([ui](?:8|16|32|64|128|size))>::(next_multiple_of|div_ceil|saturating_sub|saturating_add|wrapping_sub|wrapping_add|abs_diff|pow)$", d or "")
    if m and len(args) == 2:
        a, c = ev.ev(args[0]), ev.ev(args[1])
        if isinstance(a, int) and isinstance(c, int):
            ty, op = m.group(1), m.group(2)
            hi = (1 << WIDTH[ty]) - 1
            if op in ("next_multiple_of", "div_ceil") and c == 0:
                raise Panic("division by zero")
            if op == "next_multiple_of":
                r = (a + c - 1) // c * c
                if r > hi:
                    raise Panic("overflow")
                return r
            if op == "div_ceil":
                return (a + c - 1) // c
            if op == "saturating_sub":
                return max(0, a - c)
            if op == "saturating_add":
                return min(hi, a + c)
            if op == "wrapping_sub":
                return (a - c) & hi
            if op == "wrapping_add":
                return (a + c) & hi
            if op == "abs_diff":
                return abs(a - c)
            if op == "pow":
                r = a ** c
                if r > hi:
                    raise Panic("overflow")
                return r
    m = re.search(r"::(is_multiple_of)$", d or "")
    if m and len(args) == 2:
        a, c = ev.ev(args[0]), ev.ev(args[1])
        return 1 if (c != 0 and a % c == 0) or (c == 0 and a == 0) else 0
    m = re.search(r"::(min|max)$", d or "")
    if m and len(args) == 2 and re.search(r"cmp::(Ord::)?(min|max)$|Ord::(min|max)$", d):
        a, c = ev.ev(args[0]), ev.ev(args[1])
        return min(a, c) if m.group(1) == "min" else max(a, c)
    return None


import re

from mirq import strip_refs

IDENT = re.compile(r"<impl \[T\]>::iter$|IntoIterator::into_iter$|Deref::deref$|::as_slice$|AsRef::as_ref$|Borrow::borrow$|iter::Iterator::by_ref$|Clone::clone$|::as_ref$")
ASCII = {
    "is_ascii_alphanumeric": lambda v: (48 <= v <= 57) or (65 <= v <= 90) or (97 <= v <= 122),
    "is_ascii_alphabetic": lambda v: (65 <= v <= 90) or (97 <= v <= 122),
    "is_ascii_digit": lambda v: 48 <= v <= 57,
    "is_ascii_uppercase": lambda v: 65 <= v <= 90,
    "is_ascii_lowercase": lambda v: 97 <= v <= 122,
    "is_ascii": lambda v: v < 128,
}


def ast_literal(v):
    """value of a literal expression of the syntax tree: ints / chars / bytes / bools, tuples and arrays of them"""
    k = v.get("k")
    if k == "Lit":
        if v.get("t") in ("int", "byte"):
            return int(v["v"])
        if v.get("t") == "char":
            return ord(v["v"])
        if v.get("t") == "bool":
            return 1 if v["v"] in (True, "true") else 0
        if v.get("t") == "bytestr":
            bs = v.get("v")
            if isinstance(bs, list):
                return ("list", tuple(int(x) for x in bs))
            if isinstance(bs, str):
                return ("list", tuple(bs.encode("latin-1")))
        return None
    if k == "Path" and "::" in (v.get("path") or "") and v["path"].split("::")[-1][:1].isupper():
        # a unit variant of an enum (`Vehicle::Xfg`): carried as a value of its own
        return ("enumv", v["path"].split("::")[-2] if v["path"].count("::") >= 1 else "", v["path"].split("::")[-1])
    if k == "Tuple":
        els = [ast_literal(e) for e in v["elems"]]
        return None if any(e is None for e in els) else ("tup", tuple(els))
    if k == "Array":
        els = [ast_literal(e) for e in v["elems"]]
        return None if any(e is None for e in els) else ("list", tuple(els))
    if k == "Ref" or (k == "Unary" and v.get("op") == "*"):
        return ast_literal(v["e"])
    if k == "Lit" and v.get("t") == "bytestr":
        bs = v.get("v")
        if isinstance(bs, list):
            return ("list", tuple(int(x) for x in bs))
        if isinstance(bs, str):
            return ("list", tuple(bs.encode("latin-1")))
    return None


class Model:
    """Evaluator with models of the pure std idioms that small table-like functions use (arrays and slices of known bytes,
    ranges, `iter().all(closure)`, `==` on arrays, ASCII class tests, Option adaptors, le/be byte conversions) and of calls to
    small workspace functions / closures (through their own decision tables).  `base`: the origin that stands for the input
    byte array (its value is `self.bytes`); `extra_leaf` / `extra_call`: rule-specific sources; `local_prefix`: module whose
    functions may be entered."""

    def __init__(self, ctx, body, base, local_prefix="", extra_leaf=None, extra_call=None):
        self.ctx = ctx
        self.body = body
        self.base = base
        self.bytes = None
        self.args = None
        self.local_prefix = local_prefix
        self.extra_leaf = extra_leaf
        self.extra_call = extra_call
        self.ev = Evaluator(self.leaf, self.call)

    # ---- values: ints, ('list', tuple), ('range', lo, hi|None), ('opt', has, v)
    def leaf(self, o):
        if self.extra_leaf is not None:
            v = self.extra_leaf(o, self)
            if v is not None:
                return v
        if o[0] == "value":
            return o[1]
        if self.args is not None and o[0] == "arg" and o[1] in self.args:
            return self.args[o[1]]
        x = strip_refs(o)
        if x is not o:
            o = x
            if self.args is not None and o[0] == "arg" and o[1] in self.args:
                return self.args[o[1]]
        if self.base is not None and o == self.base:
            return ("list", tuple(self.bytes))
        if o[0] == "cindex":
            v = self.ev.ev(o[1])
            if isinstance(v, tuple) and v[0] == "list":
                i = o[2] if not o[3] else len(v[1]) - o[2]
                if not 0 <= i < len(v[1]):
                    raise Panic("index")
                return v[1][i]
            raise Unknown("constant index into a non-array")
        if o[0] == "index":
            v = self.ev.ev(o[1])
            i = self.ev.ev(o[2])
            return self.index(v, i)
        if o[0] == "subslice":
            v = self.ev.ev(o[1])
            if isinstance(v, tuple) and v[0] == "list":
                hi = len(v[1]) - o[3] if o[4] else o[3]
                if not 0 <= o[2] <= hi <= len(v[1]):
                    raise Panic("subslice")
                return ("list", v[1][o[2]:hi])
            raise Unknown("subslice of a non-array")
        if o[0] == "agg":
            d = o[1]
            if d and d[0] == "array":
                return ("list", tuple(self.ev.ev(x) for x in o[2]))
            if d and d[0] == "adt" and "ops::range::Range" in str(d[1]):
                nm = str(d[1]).split("::")[-1]
                vals = [self.ev.ev(x) for x in o[2]]
                if nm == "Range":
                    return ("range", vals[0], vals[1])
                if nm == "RangeTo":
                    return ("range", 0, vals[0])
                if nm == "RangeFrom":
                    return ("range", vals[0], None)
                if nm == "RangeToInclusive":
                    return ("range", 0, vals[0] + 1)
                if nm == "RangeFull":
                    return ("range", 0, None)
        if o[0] == "field" and isinstance(o[1], tuple):
            # field of a named constant struct / tuple (`const COMPRESSED: Framing = Framing { unit: 4, .. }`): from the AST
            base = strip_refs(o[1])
            if base[0] == "const" and base[1] is None and isinstance(base[2], str) and "::" in base[2]:
                cs = self.ctx.ast.const(base[2].split("::")[-1])
                if len(cs) == 1:
                    v = cs[0][3]["value"]
                    e = None
                    if v.get("k") == "Struct":
                        for f in v.get("fields", []):
                            if f.get("member") == o[3] or str(f.get("member")) == str(o[2]):
                                e = f.get("e")
                    elif v.get("k") in ("Tuple", "Array") and isinstance(o[2], int) and o[2] < len(v.get("elems", [])):
                        e = v["elems"][o[2]]
                    if e is not None:
                        from astq import eval_int
                        try:
                            iv = eval_int(e)
                        except Exception:
                            iv = None
                        if iv is not None:
                            return iv
        if o[0] == "const" and o[1] is None and isinstance(o[2], str) and "::" in o[2] and str(o[3]).lstrip("&").startswith("[") and not str(o[3]).lstrip("&").startswith("[u8"):
            # a named constant array of scalars / tuples of scalars: from the AST
            cs = self.ctx.ast.const(o[2].split("::")[-1])
            if len(cs) == 1:
                lv = ast_literal(cs[0][3]["value"])
                if lv is not None and lv[0] == "list":
                    return lv
        if o[0] == "const" and o[1] is None and isinstance(o[2], str) and "::" in o[2] and "[u8" in str(o[3]):
            cs = self.ctx.ast.const(o[2].split("::")[-1])
            if len(cs) == 1:
                v = cs[0][3]["value"]
                if v.get("elems") is not None and all(e.get("t") == "int" for e in v["elems"]):
                    return ("list", tuple(int(e["v"]) for e in v["elems"]))
                if v.get("k") == "Repeat" or v.get("repeat"):
                    pass
        if o[0] == "discr" and o[1][0] == "call" and (o[1][1] or "").endswith("BinRead::read_options") and not (self.local_prefix and (o[1][2] or "").startswith(self.local_prefix)):
            return 0          # `read(..).map(|bytes| ..)`: the read of the bytes succeeded (Ok)
        # the I/O that produced the bytes is assumed to have succeeded (its failure is returned by `?` before any byte is looked at)
        if o[0] == "discr" and o[1][0] == "call" and (o[1][1] or "").endswith("Try::branch"):
            inner = o[1][3][0] if o[1][3] else None
            if inner is not None and inner[0] == "call" and (inner[1] or "").endswith("FromResidual::from_residual"):
                return 1          # `?` on the value a failed `?` produced: the failure variant again
            if inner is not None and inner[0] == "call" and not (self.local_prefix and (inner[2] or inner[1] or "").startswith(self.local_prefix)) \
                    and not re.search(r"convert::(TryFrom::try_from|TryInto::try_into)$|::checked_\w+$", inner[1] or ""):
                return 0
        return None

    def index(self, v, i):
        if not (isinstance(v, tuple) and v[0] == "list"):
            raise Unknown("index into a non-array")
        if isinstance(i, tuple) and i[0] == "range":
            hi = len(v[1]) if i[2] is None else i[2]
            if not (0 <= i[1] <= hi <= len(v[1])):
                raise Panic("slice range")
            return ("list", v[1][i[1]:hi])
        if isinstance(i, int):
            if not 0 <= i < len(v[1]):
                raise Panic("index")
            return v[1][i]
        raise Unknown("index kind")

    def call(self, d, rd, args, ev):
        name = rd or d
        if self.extra_call is not None:
            v = self.extra_call(d, rd, args, self)
            if v is not None:
                return v
        v = std_call(d, args, ev)
        if v is not None:
            return v
        m = re.search(r"Option::<T>::(map_or|map|unwrap_or|is_some|is_none|unwrap_or_default|and_then|filter|is_some_and)$", d)
        if m:
            ov = ev.ev(args[0])
            if not (isinstance(ov, tuple) and ov[0] == "opt"):
                raise Unknown("Option adaptor on an unknown value")
            op = m.group(1)

            def clo(a, x):
                if a[0] == "agg" and a[1][0] == "closure":
                    return self.eval_body(a[1][1], self.closure_args(a, x, ev))
                if a[0] == "fnconst":
                    return self.call(a[1], a[2], [("value", x)], ev)
                raise Unknown("callable")
            if op == "is_some":
                return 1 if ov[1] else 0
            if op == "is_none":
                return 0 if ov[1] else 1
            if op == "unwrap_or":
                return ov[2] if ov[1] else ev.ev(args[1])
            if op == "unwrap_or_default":
                return ov[2] if ov[1] else 0
            if op == "map_or":
                return clo(args[2], ov[2]) if ov[1] else ev.ev(args[1])
            if op == "map":
                return ("opt", True, clo(args[1], ov[2])) if ov[1] else ov
            if op == "and_then":
                return clo(args[1], ov[2]) if ov[1] else ov
            if op == "filter":
                return ov if ov[1] and clo(args[1], ov[2]) else ("opt", False, None)
            if op == "is_some_and":
                return 1 if ov[1] and clo(args[1], ov[2]) else 0
        if IDENT.search(d) or IDENT.search(name):
            return ev.ev(args[0])
        m = re.search(r"convert::num::<impl core::convert::TryFrom<[ui](?:8|16|32|64|128|size)> for ([ui](?:8|16|32|64|128|size))>::try_from$", rd or "")
        if m and len(args) == 1:
            v = ev.ev(args[0])          # checked integer conversion: Ok(v) when it fits, Err otherwise
            if isinstance(v, int):
                return ("res", fits(v, m.group(1)), v)
        if re.search(r"convert::num::<impl core::convert::From<(u8|u16|u32|u64|usize|i8|i16|i32|i64|bool)> for [ui](8|16|32|64|128|size)>::from$", rd or "") and len(args) == 1:
            v = ev.ev(args[0])          # lossless integer widening
            if isinstance(v, int):
                return v
        if re.search(r"Index::index$", d) and len(args) == 2:
            return self.index(ev.ev(args[0]), ev.ev(args[1]))
        if re.search(r"RangeInclusive::<Idx>::new$", d):
            return ("range", ev.ev(args[0]), ev.ev(args[1]) + 1)
        if re.search(r"ops::range::Range(Inclusive|From|To|ToInclusive)?::<Idx>::contains$", d) and len(args) == 2:
            r, v = ev.ev(args[0]), ev.ev(args[1])
            if isinstance(r, tuple) and r[0] == "range" and isinstance(v, int):
                return 1 if (r[1] <= v and (r[2] is None or v < r[2])) else 0
        m = re.search(r"<impl u8>::(is_ascii\w*)$|<impl char>::(is_ascii\w*)$", d)
        if m and (m.group(1) or m.group(2)) in ASCII:
            return 1 if ASCII[m.group(1) or m.group(2)](ev.ev(args[0])) else 0
        def apply(f, x):
            """a closure literal or a function item applied to one value"""
            if f[0] == "agg" and f[1][0] == "closure":
                return self.eval_body(f[1][1], self.closure_args(f, x, ev))
            if f[0] == "fnconst":
                v = self.call(f[1], f[2], [("value", x)], ev)
                if v is None:
                    raise Unknown("call %s" % (f[2] or f[1]))
                return v
            raise Unknown("callable")
        callable_arg = len(args) == 2 and ((args[1][0] == "agg" and args[1][1][0] == "closure") or args[1][0] == "fnconst")
        if re.search(r"Iterator::(all|any)$", d) and callable_arg:
            seq = ev.ev(args[0])
            if not (isinstance(seq, tuple) and seq[0] == "list"):
                raise Unknown("iterator over a non-array")
            res = [apply(args[1], x) for x in seq[1]]
            return (1 if all(res) else 0) if d.endswith("all") else (1 if any(res) else 0)
        if re.search(r"Iterator::(find|position|find_map)$", d) and callable_arg:
            seq = ev.ev(args[0])
            if not (isinstance(seq, tuple) and seq[0] == "list"):
                raise Unknown("iterator over a non-array")
            for i, x in enumerate(seq[1]):
                r = apply(args[1], x)
                if d.endswith("find_map"):
                    if not (isinstance(r, tuple) and r[0] == "opt"):
                        raise Unknown("find_map closure result")
                    if r[1]:
                        return r
                elif r:
                    return ("opt", True, x if d.endswith("find") else i)
            return ("opt", False, None)
        if (re.search(r"cmp::PartialEq::(eq|ne)$", d) or ("PartialEq" in d and d.endswith(("::eq", "::ne")))) and len(args) == 2:
            a, b = ev.ev(args[0]), ev.ev(args[1])
            return 1 if (a == b) == d.endswith("eq") else 0
        if re.search(r"<impl u32>::from_le_bytes$", d):
            v = ev.ev(args[0])
            if isinstance(v, tuple) and v[0] == "list" and len(v[1]) == 4:
                return int.from_bytes(bytes(v[1]), "little")
        if re.search(r"<impl u32>::from_be_bytes$", d):
            v = ev.ev(args[0])
            if isinstance(v, tuple) and v[0] == "list" and len(v[1]) == 4:
                return int.from_bytes(bytes(v[1]), "big")
        if self.local_prefix and (name.startswith(self.local_prefix) or (name.startswith("<") and ((" as " + self.local_prefix) in name or name.startswith("<" + self.local_prefix)))) \
                and self.ctx.mir.body(name) is not None:
            return self.eval_body(name, {i + 1: ev.ev(a) for i, a in enumerate(args)})
        return None

    def closure_args(self, a, x, ev):
        """arguments of a closure body: _1 = the environment (captured values, evaluated where the closure is built), _2 = the item"""
        ups = []
        for u in a[2]:
            try:
                ups.append(ev.ev(u))
            except Unknown:
                ups.append(None)
        return {1: ("tup", tuple(ups)), 2: x}

    _ROWS = {}
    _MEMO = {}

    def eval_body(self, name, argvals):
        """value returned by a small workspace function / closure for concrete arguments (through its own decision table)"""
        key = (id(self.ctx.mir), name, tuple(sorted(argvals.items())))
        if key in Model._MEMO:
            return Model._MEMO[key]
        v = self._eval_body(name, argvals)
        Model._MEMO[key] = v
        return v

    def _eval_body(self, name, argvals):
        b = self.ctx.mir.body(name)
        if b is None:
            raise Unknown("body %s" % name)
        sub = Model(self.ctx, b, None, self.local_prefix, self.extra_leaf, self.extra_call)
        sub.args = argvals
        rk = (id(self.ctx.mir), name)
        if rk not in Model._ROWS:
            Model._ROWS[rk] = b.decision_rows()
        rows = Model._ROWS[rk]
        m = sub.ev.matching_rows(rows)
        vals = set()
        for r in m:
            ret = r[1]
            if ret[1].startswith("call:"):
                v = sub.call(ret[1][5:], ret[1][5:], list(ret[3]), sub.ev)
                if v is None:
                    raise Unknown("call %s" % ret[1][5:])
                vals.add(v)
            elif ret[1] == "None" and not ret[3]:
                vals.add(("opt", False, None))
            elif ret[1] == "Some" and len(ret[3]) == 1:
                vals.add(("opt", True, sub.ev.ev(ret[3][0])))
            elif ret[3]:
                vals.add(sub.ev.ev(ret[3][0]))
            else:
                raise Unknown("result of %s" % name)
        if len(vals) != 1:
            raise Unknown("ambiguous result of %s" % name)
        return vals.pop()


