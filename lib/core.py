"""Framework core for the /verif static checks: fact extraction + cache, reports, evidence,
known findings, entry point.  Python 3 stdlib only."""
import fcntl
import hashlib
import json
import os
import subprocess
import sys
import time

VERIF = os.path.dirname(os.path.dirname(os.path.abspath(__file__)))
REPO = os.environ.get("VERIF_REPO", "/repo")
CACHE = os.path.join(VERIF, ".cache")
WIREX = os.path.join(VERIF, "tools/wirex/target/release/wirex")
MIRX = os.path.join(VERIF, "tools/mirx/target/release/mirx")

CRATES = {
    "insim": "insim/src/lib.rs",
    "insim_core": "insim_core/src/lib.rs",
    "insim_pth": "insim_pth/src/lib.rs",
    "insim_smx": "insim_smx/src/lib.rs",
}

# feature configurations: name -> (cargo args, wirex feature list for crate insim)
CONFIGS = {
    "default": (["-p", "insim", "-p", "insim_core", "-p", "insim_pth", "-p", "insim_smx"],
                "tokio,blocking,websocket"),
    "blocking": (["-p", "insim", "--no-default-features", "--features", "blocking"], "blocking"),
    # `--no-default-features --features tokio` does not build on the pinned tree (builder.rs imports the websocket
    # items unconditionally), so the tokio-only configuration is websocket (= tokio + websocket)
    "websocket": (["-p", "insim", "--no-default-features", "--features", "websocket"], "tokio,websocket"),
    "all": (["-p", "insim", "--all-features"], "tokio,blocking,websocket,serde,pth,smx"),
}


def sh(cmd, **kw):
    return subprocess.run(cmd, stdout=subprocess.PIPE, stderr=subprocess.STDOUT, text=True, **kw)


def nightly_sysroot():
    r = sh(["rustc", "+nightly", "--print", "sysroot"])
    return r.stdout.strip()


def tree_hash():
    """sha256 over every source file that influences the build, plus the extractor binaries."""
    h = hashlib.sha256()
    files = []
    for root, dirs, fs in os.walk(REPO):
        dirs[:] = sorted(d for d in dirs if d not in ("target", ".git"))
        for f in sorted(fs):
            if f.endswith(".rs") or f in ("Cargo.toml", "Cargo.lock"):
                files.append(os.path.join(root, f))
    for p in files:
        h.update(os.path.relpath(p, REPO).encode())
        h.update(b"\0")
        with open(p, "rb") as fh:
            h.update(hashlib.sha256(fh.read()).digest())
    for tool in (WIREX, MIRX):
        if not os.path.exists(tool):
            raise SystemExit("FATAL: extractor %s missing; run MANIFEST.setup_cmd (./setup.sh)" % tool)
        with open(tool, "rb") as fh:
            h.update(hashlib.sha256(fh.read()).digest())
    return h.hexdigest()[:24], len(files)


class Facts:
    """Lazy access to the extracted fact bases for one configuration of /repo's current tree."""

    def __init__(self, config="default"):
        self.config = config
        self.key, self.nfiles = tree_hash()
        self.dir = os.path.join(CACHE, "facts", self.key, config)
        self._ast = {}
        self._mir = {}
        self.extract_s = 0.0
        self._ensure()

    def _ensure(self):
        os.makedirs(os.path.join(CACHE, "facts"), exist_ok=True)
        lock = open(os.path.join(CACHE, "facts", ".lock"), "w")
        fcntl.flock(lock, fcntl.LOCK_EX)
        try:
            if os.path.exists(os.path.join(self.dir, "OK")):
                return
            t0 = time.time()
            os.makedirs(self.dir, exist_ok=True)
            self._run_wirex()
            self._run_mirx()
            with open(os.path.join(self.dir, "OK"), "w") as fh:
                fh.write("%f\n" % time.time())
            self.extract_s = time.time() - t0
            self._gc()
        finally:
            fcntl.flock(lock, fcntl.LOCK_UN)
            lock.close()

    def _gc(self):
        # keep the most recent tree keys (6; the corpus runners work on many trees at once and ask for more, so that a tree's
        # facts are not evicted while its twenty checks are still running)
        keep = int(os.environ.get("VERIF_FACTS_KEEP", "6") or 6)
        base = os.path.join(CACHE, "facts")
        ents = [os.path.join(base, d) for d in os.listdir(base) if os.path.isdir(os.path.join(base, d))]
        ents.sort(key=lambda p: os.path.getmtime(p), reverse=True)
        for p in ents[keep:]:
            sh(["rm", "-rf", p])

    def _run_wirex(self):
        feats = CONFIGS[self.config][1]
        for crate, root in CRATES.items():
            f = feats if crate == "insim" else ("serde" if self.config == "all" and crate == "insim_core" else "")
            r = subprocess.run([WIREX, os.path.join(REPO, root), crate, f], stdout=subprocess.PIPE, stderr=subprocess.PIPE, text=True)
            if r.returncode != 0 or not r.stdout.strip():
                raise SystemExit("FATAL: wirex failed on %s: %s" % (crate, r.stderr[-2000:]))
            with open(os.path.join(self.dir, crate + ".ast.json"), "w") as fh:
                fh.write(r.stdout)

    def _run_mirx(self):
        start = time.time()
        target = os.path.join(CACHE, "target")
        # force the workspace members through the wrapper (cargo's freshness cache would skip it)
        fp = os.path.join(target, "debug", ".fingerprint")
        if os.path.isdir(fp):
            for d in os.listdir(fp):
                if d.split("-")[0] in ("insim", "insim_core", "insim_pth", "insim_smx"):
                    sh(["rm", "-rf", os.path.join(fp, d)])
        env = dict(os.environ)
        env.update({
            "CARGO_NET_OFFLINE": "true",
            "LD_LIBRARY_PATH": nightly_sysroot() + "/lib",
            "RUSTFLAGS": "-Zmir-opt-level=0 -Awarnings",
            "RUSTC_WORKSPACE_WRAPPER": MIRX,
            "MIRX_CRATES": ",".join(CRATES),
            "MIRX_OUT": self.dir,
            "CARGO_TARGET_DIR": target,
        })
        cmd = ["cargo", "+nightly", "check", "--offline"] + CONFIGS[self.config][0]
        r = subprocess.run(cmd, cwd=REPO, env=env, stdout=subprocess.PIPE, stderr=subprocess.STDOUT, text=True)
        if r.returncode != 0:
            sys.stdout.write(r.stdout[-6000:])
            raise SystemExit("FATAL: cargo check under mirx failed (the tree does not build); no verdict")
        want = list(CRATES) if self.config in ("default", "all") else ["insim", "insim_core"]
        for c in want:
            p = os.path.join(self.dir, c + ".mir.json")
            if not os.path.exists(p) or os.path.getmtime(p) < start - 1:
                raise SystemExit("FATAL: mirx produced no fresh facts for %s (fail closed)" % c)

    def ast(self, crate):
        if crate not in self._ast:
            with open(os.path.join(self.dir, crate + ".ast.json")) as fh:
                self._ast[crate] = json.load(fh)
        return self._ast[crate]

    def mir(self, crate):
        if crate not in self._mir:
            with open(os.path.join(self.dir, crate + ".mir.json")) as fh:
                self._mir[crate] = json.load(fh)
        return self._mir[crate]


# ---------------------------------------------------------------------------- reports

class Report:
    def __init__(self, prop, tier):
        self.prop = prop
        self.tier = tier
        self.instances = []      # dicts: rule, key, ok, detail, loc, nontrivial
        self.floors = {}         # rule -> min instances
        self.functions = set()
        self.notes = []
        self.samples = []
        self.assumptions = []
        self.explanation = ""
        self.t0 = time.time()

    def check(self, rule, key, ok, detail="", loc=None, nontrivial=True, sample=None):
        """Record one rule instance.  key must not contain line numbers."""
        self.instances.append({"rule": rule, "key": "%s:%s" % (rule, key), "ok": bool(ok), "detail": detail,
                               "loc": loc, "nontrivial": nontrivial})
        if sample is not None and len([s for s in self.samples if s.get("rule") == rule]) < 3:
            s = {"rule": rule, "key": key, "ok": bool(ok)}
            s.update(sample if isinstance(sample, dict) else {"facts": sample})
            self.samples.append(s)
        return ok

    def fail(self, rule, key, detail, loc=None):
        return self.check(rule, key, False, detail, loc)

    def floor(self, rule, n):
        self.floors[rule] = n

    def fn(self, name):
        self.functions.add(name)

    def count(self, rule):
        return len([i for i in self.instances if i["rule"] == rule])


def load_known():
    p = os.path.join(VERIF, "known_findings.json")
    if not os.path.exists(p):
        return {"findings": [], "fixed": []}
    with open(p) as fh:
        return json.load(fh)


def finish(rep, facts, seed=0):
    """Apply floors, match known findings, write evidence, print verdict, return exit code."""
    for rule, n in sorted(rep.floors.items()):
        c = rep.count(rule)
        if c < n:
            rep.fail("anchor", "%s:floor" % rule, "rule %s matched %d instances, floor is %d (anchor lost)" % (rule, c, n))
    known = load_known()
    kf = {f["key"]: f for f in known.get("findings", []) if f.get("property") == rep.prop}
    viol, matched = [], []
    for i in rep.instances:
        if i["ok"]:
            continue
        if i["key"].split("@")[0] in kf:
            matched.append(i)
        else:
            viol.append(i)
    for i in matched:
        print("KNOWN-FINDING: property=%s %s — %s" % (rep.prop, i["key"], kf[i["key"].split("@")[0]].get("what", i["detail"])))
    stale = [k for k in kf if k not in {i["key"].split("@")[0] for i in matched}]
    for k in stale:
        print("note: known finding %s no longer reproduced (fixed or anchor moved)" % k)
    rules = {}
    for i in rep.instances:
        rules.setdefault(i["rule"], [0, 0])
        rules[i["rule"]][0] += 1
        rules[i["rule"]][1] += 0 if i["ok"] else 1
    distinct_nt = len({i["key"] for i in rep.instances if i["nontrivial"]})
    wall = time.time() - rep.t0
    ev = {
        "property_id": rep.prop,
        "tier": rep.tier,
        "seed": seed,
        "level": "other",
        "coverage": {
            "explanation": rep.explanation,
            "evaluations": len(rep.instances),
            "distinct_nontrivial": distinct_nt,
            "rule": "one evaluation = one rule instance (a field, table row, call site, path or guard obligation found in the "
                    "current source); non-trivial = the rule had a construct to compare or a path to enumerate; distinct by "
                    "instance key (rule:function/field/row, no line numbers)",
            "samples": rep.samples[:40],
            "rules": {k: {"instances": v[0], "failing": v[1], "floor": rep.floors.get(k)} for k, v in sorted(rules.items())},
            "functions_analysed": sorted(rep.functions),
            "known_findings_matched": [i["key"] for i in matched],
            "fact_cache_key": facts.key if facts else None,
            "source_files_hashed": facts.nfiles if facts else None,
            "config": facts.config if facts else None,
            "extraction_s": round(facts.extract_s, 2) if facts else None,
            "notes": rep.notes,
            "configs": getattr(rep, "configs", None),
            "rule_sensitivity": getattr(rep, "extra", {}).get("rule_sensitivity"),
            "exhaustive": False,
        },
        "assumptions": rep.assumptions,
        "wall_s": round(wall, 3),
        "violations": len(viol),
    }
    evdir = os.environ.get("VERIF_EVIDENCE_DIR") or os.path.join(VERIF, "evidence")          # the corpus runners divert evidence of patched trees
    os.makedirs(evdir, exist_ok=True)
    with open(os.path.join(evdir, rep.prop + ".json"), "w") as fh:
        json.dump(ev, fh, indent=1, sort_keys=False)
        fh.write("\n")
    print("%s: %d rule instances (%d distinct non-trivial) over %d functions; %d violation(s), %d known finding(s); %.1fs"
          % (rep.prop, len(rep.instances), distinct_nt, len(rep.functions), len(viol), len(matched), wall))
    if viol:
        rdir = os.path.join(CACHE, "replay")
        os.makedirs(rdir, exist_ok=True)
        for n, i in enumerate(viol):
            path = os.path.join(rdir, "%s-%d.json" % (rep.prop, n))
            with open(path, "w") as fh:
                json.dump({"property": rep.prop, "rule": i["rule"], "key": i["key"], "detail": i["detail"], "loc": i["loc"]}, fh, indent=1)
            print("  %s at %s: %s" % (i["key"], i["loc"], i["detail"]))
            print("VIOLATION property=%s replay=%s" % (rep.prop, path))
        return 1
    return 0
