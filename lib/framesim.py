"""Replay of Codec::encode's path table over an abstract frame buffer: a byte vector behind a cursor (length, write position,
what was stored at byte 0, where the packet was written).  Same construction as vecsim: the rows come from
Body.decision_rows(events=True) (conditions, calls and stores in execution order, arguments resolved per path); calls on the
buffer read or change the abstract state at the moment they execute.  Nothing of the analysed crate is executed."""
import re

import tabeval
from mirq import strip_refs


class FrameSim:
    def __init__(self, ctx, body, rows, array_len):
        self.ctx = ctx
        self.body = body
        self.rows = [r for r in rows if r[1][1] not in ("loop",)]
        self.array_len = array_len          # origin -> number of bytes of a byte array / slice literal, or None
        self.model = tabeval.Model(ctx, body, None, local_prefix="insim::net::codec::", extra_leaf=self._leaf)
        self.callvals = {}
        self.objs = {}

    def _leaf(self, o, m):
        if o[0] == "call" and len(o) > 4 and o[4] in self.callvals:
            v = self.callvals[o[4]]
            if v is None:
                raise tabeval.Unknown("result of %s" % (o[2] or o[1]))
            return v
        return None

    def run(self, packet_len):
        outs = []
        for r in self.rows:
            o = self._replay(r, packet_len)
            if o is not None:
                outs.append(o)
        return outs

    def _obj(self, ev, origin):
        try:
            v = ev.ev(strip_refs(origin))
        except (tabeval.Unknown, tabeval.Panic):
            return None
        if isinstance(v, tuple) and v and v[0] in ("vecobj", "cur"):
            return self.objs.get(v[1])
        return None

    def _replay(self, row, P):
        ev = self.model.ev
        ev.reset()
        self.callvals = {}
        self.objs = {}
        out = {"trap": None, "ops": [], "result": None, "final": None, "assumed": 0}
        for e in row[2]:
            if e[0] == "cond":
                try:
                    if not ev.cond_holds(e):
                        return None
                except tabeval.Unknown:
                    out["assumed"] += 1
                except tabeval.Panic:
                    return None
                continue
            if e[0] == "store":
                _k, bb, ref_o, val_o = e
                try:
                    slot = ev.ev(strip_refs(ref_o))
                except (tabeval.Unknown, tabeval.Panic):
                    slot = None
                if isinstance(slot, tuple) and slot and slot[0] == "slot":
                    st = self.objs.get(slot[1])
                    try:
                        v = ev.ev(val_o)
                    except (tabeval.Unknown, tabeval.Panic):
                        v = ("?",)
                    if st is not None:
                        if not isinstance(slot[2], int) or slot[2] >= st["len"]:
                            out["trap"] = "store at index %s of a buffer of %d bytes" % (slot[2], st["len"])
                            return out
                        if slot[2] == 0:
                            st["b0"] = v
                        out["ops"].append("store[%s]" % (slot[2],))
                continue
            _k, bb, d, rd, args, ga, dty = e
            d = d or ""
            try:
                if re.search(r"Vec::<T>::(with_capacity|new)$", d) or (re.search(r"Vec::<T, A>::(with_capacity_in|new_in)$", d)):
                    self.objs["o%d" % bb] = {"len": 0, "pos": 0, "b0": None, "pk": None, "writes": 0}
                    self.callvals[bb] = ("vecobj", "o%d" % bb)
                    continue
                if re.search(r"vec::from_elem$", d) and len(args) == 2:
                    try:
                        n0 = ev.ev(args[1])
                    except (tabeval.Unknown, tabeval.Panic):
                        n0 = None
                    if n0 == 0:
                        self.objs["o%d" % bb] = {"len": 0, "pos": 0, "b0": None, "pk": None, "writes": 0}
                        self.callvals[bb] = ("vecobj", "o%d" % bb)
                        continue
                    out["trap"] = "the frame buffer is created pre-filled (vec![_; n], n not known to be 0): whatever the packet writer does not overwrite is sent behind the frame"
                    return out
                if re.search(r"io::cursor::Cursor::<T>::new$", d):
                    st = self._obj(ev, args[0])
                    if st is None:
                        out["trap"] = "the cursor is not built over a fresh byte vector"
                        return out
                    v = ev.ev(strip_refs(args[0]))
                    self.callvals[bb] = ("cur", v[1])
                    continue
                st = self._obj(ev, args[0]) if args else None
                st1 = self._obj(ev, args[1]) if len(args) > 1 else None
                if st is not None and re.search(r"^std::io::Write::(write|write_all)$", d):
                    n = self.array_len(args[1])
                    if n is None:
                        out["trap"] = "a write of unknown size into the frame buffer"
                        return out
                    tag = ("?",)
                    if n[0] == 1 and n[1] is not None:
                        try:
                            tag = ev.ev(n[1])
                        except (tabeval.Unknown, tabeval.Panic):
                            tag = ("?",)
                    elif n[1] is None and n[0] >= 1:
                        tag = ("bytes",)
                    k = n[0]
                    if st["pos"] > st["len"]:
                        out["trap"] = "write beyond the end of the buffer"
                        return out
                    if st["pos"] == 0 and k >= 1:
                        st["b0"] = tag
                    st["len"] = max(st["len"], st["pos"] + k)
                    st["pos"] += k
                    st["writes"] += 1
                    out["ops"].append("write(%d)@%d" % (k, st["pos"] - k))
                    self.callvals[bb] = ("res", True, k)
                    continue
                if st1 is not None and d.endswith("binwrite::BinWrite::write"):
                    if st1["pos"] != st1["len"]:
                        out["trap"] = "the packet is written at position %d of a buffer of %d bytes" % (st1["pos"], st1["len"])
                        return out
                    st1["pk"] = st1["pos"]
                    st1["len"] += P
                    st1["pos"] += P
                    out["ops"].append("packet@%d" % st1["pk"])
                    self.callvals[bb] = ("res", True, 0)
                    continue
                if st is not None and re.search(r"Cursor::<T>::position$", d):
                    self.callvals[bb] = st["pos"]
                    continue
                if st is not None and re.search(r"Cursor::<T>::set_position$", d):
                    st["pos"] = ev.ev(args[1])
                    out["ops"].append("seek(%d)" % st["pos"])
                    continue
                if st is not None and re.search(r"Cursor::<T>::(into_inner|get_mut|get_ref)$", d):
                    v = ev.ev(strip_refs(args[0]))
                    self.callvals[bb] = ("vecobj", v[1])
                    continue
                if st is not None and re.search(r"Vec::<T(, A)?>::len$", d):
                    self.callvals[bb] = st["len"]
                    continue
                if st is not None and re.search(r"IndexMut::index_mut$", d):
                    v = ev.ev(strip_refs(args[0]))
                    try:
                        i = ev.ev(args[1])
                    except (tabeval.Unknown, tabeval.Panic):
                        i = None
                    self.callvals[bb] = ("slot", v[1], i)
                    continue
                if d.endswith("Mode::encode_length"):
                    n = ev.ev(args[1])
                    self.callvals[bb] = ("res", True, ("el", n))
                    out["ops"].append("encode_length(%s)" % (n,))
                    continue
                if st is not None and re.search(r"convert::(From::from|Into::into)$|Deref(Mut)?::deref(_mut)?$|Clone::clone$", d):
                    self.callvals[bb] = ev.ev(strip_refs(args[0]))
                    continue
                if st is not None and not re.search(r"fmt|tracing|Debug|::len$|capacity$", d):
                    out["trap"] = "unmodelled operation on the frame buffer: %s" % (rd or d)
                    return out
            except tabeval.Unknown as ex:
                out["trap"] = "cannot evaluate the arguments of %s (%s)" % (rd or d, ex)
                return out
            except tabeval.Panic as ex:
                out["trap"] = "traps in %s (%s)" % (rd or d, ex)
                return out
        out["result"] = row[1][1]
        if row[1][1] == "Ok" and len(row[1]) > 3 and row[1][3]:
            try:
                v = ev.ev(strip_refs(row[1][3][0]))
            except (tabeval.Unknown, tabeval.Panic):
                v = None
            if isinstance(v, tuple) and v and v[0] in ("vecobj", "cur"):
                out["final"] = dict(self.objs.get(v[1]) or {})
        return out
