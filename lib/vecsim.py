"""Replay of the path table of a small function that builds a byte vector, over an abstract vector (length, number of
trailing zero bytes appended by the function, number of leading bytes of the original content still present, number of
bytes appended) - for concrete values of the function's parameters and of the content length.

The rows come from Body.decision_rows(events=True): every path lists its switch conditions and its calls in execution
order with path-resolved argument origins.  A replay walks one path: calls that act on the vector (`len`, `truncate`,
`put_bytes`, `resize`, `push`, `write_options` ...) read or change the abstract vector at the moment they execute, and their
results are remembered per call site so that later conditions and arguments that mention them see the value of that
moment.  A condition that is false makes the path infeasible for this input; a condition that cannot be evaluated (it
depends on data this model does not fix) keeps the path, so several paths may be feasible and all of them are reported.
Nothing of the analysed crate is executed: the evaluation is over the extracted table."""
import re

import tabeval
from mirq import strip_refs

VEC_TY = re.compile(r"^alloc::vec::Vec<u8(, [^>]*)?>$")
READ_ONLY = re.compile(r"::(len|is_empty|as_slice|iter|first|last|get|ends_with|starts_with|capacity|as_ptr|deref|as_ref|borrow|clone|to_vec|fmt)$")
IDENTITY = re.compile(r"ops::deref::Deref(Mut)?::deref(_mut)?$|AsMut::as_mut$|AsRef::as_ref$|Borrow(Mut)?::borrow(_mut)?$")
HUGE = 1 << 40


class Outcome:
    def __init__(self):
        self.written = None          # snapshot of the vector at write_options
        self.trap = None
        self.assumed = []            # conditions that could not be evaluated (path kept)
        self.ops = []
        self.result = None

    def __repr__(self):
        return "Outcome(written=%s trap=%s ops=%s)" % (self.written, self.trap, self.ops)


class VecSim:
    def __init__(self, ctx, body, rows, local_prefix, leaf):
        """leaf(o, model) -> value | None fixes the function's inputs"""
        self.ctx = ctx
        self.body = body
        self.rows = [r for r in rows if r[1][1] not in ("loop",)]
        self.user_leaf = leaf
        self.model = tabeval.Model(ctx, body, None, local_prefix=local_prefix, extra_leaf=self._leaf)
        self.callvals = {}
        self.vecs = {}

    def _leaf(self, o, m):
        if o[0] == "call" and len(o) > 4 and o[4] in self.callvals:
            v = self.callvals[o[4]]
            if v is None:
                raise tabeval.Unknown("result of %s" % (o[2] or o[1]))
            return v
        return self.user_leaf(o, m)

    def run(self, content_len):
        """all feasible outcomes for the inputs fixed by leaf and a content of content_len bytes"""
        outs = []
        for r in self.rows:
            o = self._replay(r, content_len)
            if o is not None:
                outs.append(o)
        return outs

    def _replay(self, row, content_len):
        ev = self.model.ev
        ev.reset()
        self.callvals = {}
        self.vecs = {}
        out = Outcome()
        made = 0
        for e in row[2]:
            if e[0] == "cond":
                try:
                    if not ev.cond_holds(e):
                        return None
                except tabeval.Unknown as ex:
                    out.assumed.append(e[1])
                except tabeval.Panic:
                    return None
                continue
            _k, bb, d, rd, args, ga, dty = e
            d = d or ""
            name = rd or d

            def val(i):
                return ev.ev(args[i])

            def vec_of(i):
                try:
                    v = ev.ev(strip_refs(args[i]))
                except (tabeval.Unknown, tabeval.Panic):
                    return None
                return self.vecs.get(v[1]) if isinstance(v, tuple) and v and v[0] == "vec" else None
            try:
                v0 = vec_of(0) if args else None
                if v0 is not None:
                    if re.search(r"Vec::<T(, A)?>::len$", d):
                        self.callvals[bb] = v0["len"]
                    elif re.search(r"Vec::<T(, A)?>::is_empty$", d):
                        self.callvals[bb] = 1 if v0["len"] == 0 else 0
                    elif re.search(r"Vec::<T(, A)?>::truncate$", d):
                        self._truncate(v0, val(1))
                        out.ops.append("truncate(%d)" % val(1))
                    elif d.endswith("BufMut::put_bytes"):
                        self._append(v0, val(2), val(1) == 0)
                        out.ops.append("put_bytes(%d x %d)" % (val(2), val(1)))
                    elif d.endswith("BufMut::put_u8") or re.search(r"Vec::<T(, A)?>::push$", d):
                        self._append(v0, 1, val(1) == 0)
                        out.ops.append("push(%d)" % val(1))
                    elif re.search(r"Vec::<T(, A)?>::resize$", d):
                        n, fill = val(1), val(2)
                        if n > v0["len"]:
                            self._append(v0, n - v0["len"], fill == 0)
                        else:
                            self._truncate(v0, n)
                        out.ops.append("resize(%d, %d)" % (n, fill))
                    elif re.search(r"Vec::<T(, A)?>::clear$", d):
                        self._truncate(v0, 0)
                        out.ops.append("clear")
                    elif d.endswith("BinWrite::write_options"):
                        out.written = dict(v0)
                        self.callvals[bb] = None
                    elif IDENTITY.search(d):
                        self.callvals[bb] = ev.ev(strip_refs(args[0]))
                    elif READ_ONLY.search(d):
                        self.callvals[bb] = None
                    else:
                        out.trap = "unmodelled operation on the vector: %s" % name
                        return out
                    if v0["len"] > HUGE:
                        out.trap = "length arithmetic wrapped around (%s)" % out.ops[-1]
                        return out
                    continue
                if any(vec_of(i) is not None for i in range(1, len(args))):
                    out.trap = "the vector is handed to %s" % name
                    return out
                if dty and VEC_TY.match(dty):
                    # the call that makes the vector: `content_len` bytes of arbitrary content
                    made += 1
                    if made > 1:
                        out.trap = "more than one byte vector is made on this path"
                        return out
                    vid = "v%d" % bb
                    self.vecs[vid] = {"len": content_len, "zt": 0, "kept": content_len, "app": 0, "appended": 0, "orig": content_len}
                    self.callvals[bb] = ("vec", vid)
                # other calls: evaluated on demand by the model (pure helpers) or unknown (I/O)
            except tabeval.Unknown as ex:
                out.trap = "cannot evaluate the arguments of %s (%s)" % (name, ex)
                return out
            except tabeval.Panic as ex:
                out.trap = "traps in %s (%s)" % (name, ex)
                return out
        out.result = row[1][1]
        return out

    @staticmethod
    def _truncate(v, n):
        if n < v["len"]:
            cut = v["len"] - n
            v["zt"] = max(0, v["zt"] - cut)
            v["len"] = n
            v["kept"] = min(v["kept"], n)
            v["app"] = max(0, v["app"] - cut)

    @staticmethod
    def _append(v, n, zero):
        if n < 0:
            n = HUGE + 1
        if n == 0:
            return
        v["len"] += n
        v["app"] += n
        v["appended"] += n          # bytes appended at any time, also when a later truncation cuts them off again
        v["zt"] = v["zt"] + n if zero else 0
