"""Query helpers over mirx JSON facts: CFG, dominators, def chains (provenance), path/event
summaries, callee classification."""
import re


class Undecidable(Exception):
    pass


class Mir:
    """All crates' MIR facts; bodies indexed by canonical def path."""

    def __init__(self, facts, crates=("insim", "insim_core", "insim_pth", "insim_smx")):
        self.bodies = {}
        self.enums = {}
        self.consts = {}
        self.structs = {}
        self.raw = {}
        for c in crates:
            try:
                d = facts.mir(c)
            except FileNotFoundError:
                continue
            self.raw[c] = d
            for k, b in d["bodies"].items():
                self.bodies[k] = b
            self.enums.update(d["enums"])
            self.consts.update(d["consts"])
            self.structs.update(d["structs"])
        self._wrapped = {}

    def body(self, name):
        if name not in self.bodies:
            return None
        if name not in self._wrapped:
            self._wrapped[name] = Body(name, self.bodies[name], self)
        return self._wrapped[name]

    def find(self, pattern):
        r = re.compile(pattern)
        return [k for k in self.bodies if r.search(k)]

    def const_val(self, name):
        c = self.consts.get(name)
        if c is None or c["val"] is None:
            return None
        return int(c["val"])

    def enum_variants(self, name):
        e = self.enums.get(name)
        if not e:
            return None
        return {v["name"]: int(v["discr"]) for v in e["variants"]}


TRACING_KRATES = ("tracing", "tracing_core", "tracing_attributes")


def callee(term):
    """(declared def path, resolved def path or None, generic args list, fn dict) of a call terminator"""
    f = term["func"]
    if "const" in f and "fn" in f["const"]:
        fn = f["const"]["fn"]
        res = fn.get("resolved")
        return fn["def"], (res or {}).get("def"), fn["args"], fn
    return None, None, [], None


def is_tracing(term):
    d, r, a, fn = callee(term)
    if fn is None:
        return False
    if fn["krate"] in TRACING_KRATES:
        return True
    if d.startswith("tracing"):
        return True
    return False


def place_local(p):
    return p["l"]


def op_place(op):
    if "copy" in op:
        return op["copy"]
    if "move" in op:
        return op["move"]
    return None


def op_const(op):
    if "const" in op:
        return op["const"]
    return None


def op_int(op):
    c = op_const(op)
    if c is not None and c.get("val") is not None:
        return int(c["val"])
    return None


class Body:
    def __init__(self, name, raw, mir):
        self.name = name
        self.raw = raw
        self.mir = mir
        self.blocks = raw["blocks"]
        self.locals = raw["locals"]
        self.argc = raw["argc"]
        self.n = len(self.blocks)
        self._succ = None
        self._pred = None
        self._dom = None
        self._defs = None
        self._retp = None
        self.file = raw["span"]["file"]
        self.line = raw["span"]["line"]

    def loc(self, line=None):
        return "%s:%s" % (self.file, line if line is not None else self.line)

    # ------------------------------------------------------------ CFG
    def term(self, b):
        return self.blocks[b]["term"]

    def succ(self, b, unwind=False):
        t = self.blocks[b]["term"]
        if t is None:
            return []
        k = t["k"]
        out = []
        if k == "goto":
            out = [t["target"]]
        elif k == "switch":
            out = [x[1] for x in t["targets"]] + [t["otherwise"]]
        elif k in ("call", "drop", "assert"):
            if t.get("target") is not None:
                out = [t["target"]]
            if unwind and t.get("unwind") is not None:
                out.append(t["unwind"])
        elif k == "yield":
            out = [t["resume"]]
            # the drop edge models cancellation; excluded from normal flow
        return out

    def succs(self):
        if self._succ is None:
            self._succ = [self.succ(b) for b in range(self.n)]
        return self._succ

    def preds(self):
        if self._pred is None:
            p = [[] for _ in range(self.n)]
            for b, ss in enumerate(self.succs()):
                for s in ss:
                    p[s].append(b)
            self._pred = p
        return self._pred

    def reachable(self, start=0, avoid=()):
        seen = set()
        st = [start]
        while st:
            b = st.pop()
            if b in seen or b in avoid:
                continue
            seen.add(b)
            st.extend(self.succs()[b])
        return seen

    def dominators(self):
        """dom[b] = set of blocks dominating b (iterative; bodies are small)"""
        if self._dom is not None:
            return self._dom
        reach = self.reachable(0)
        allb = set(reach)
        dom = {b: set(allb) for b in reach}
        dom[0] = {0}
        preds = self.preds()
        changed = True
        order = sorted(reach)
        while changed:
            changed = False
            for b in order:
                if b == 0:
                    continue
                ps = [p for p in preds[b] if p in reach]
                if not ps:
                    continue
                new = set.intersection(*[dom[p] for p in ps]) | {b}
                if new != dom[b]:
                    dom[b] = new
                    changed = True
        self._dom = dom
        return dom

    def dominates(self, a, b):
        d = self.dominators()
        return b in d and a in d[b]

    def back_edges(self):
        """edges (u,v) where v dominates u"""
        out = set()
        for u in self.reachable(0):
            for v in self.succs()[u]:
                if self.dominates(v, u):
                    out.add((u, v))
        return out

    # ------------------------------------------------------------ calls
    def calls(self, include_tracing=False):
        for b, bl in enumerate(self.blocks):
            t = bl["term"]
            if t and t["k"] == "call":
                if not include_tracing and is_tracing(t):
                    continue
                yield b, t

    def calls_to(self, pattern, resolved=True):
        r = re.compile(pattern)
        out = []
        for b, t in self.calls():
            d, rd, a, fn = callee(t)
            if d is None:
                continue
            if r.search(d) or (resolved and rd and r.search(rd)):
                out.append((b, t))
        return out

    def bool_branch(self, call_bb):
        """(switch block, false target, true target) of the switch that tests the bool result of the call ending call_bb"""
        t = self.blocks[call_bb]["term"]
        dest = t["dest"]["l"]
        for b in sorted(self.reachable(t["target"]) if t.get("target") is not None else []):
            tt = self.blocks[b]["term"]
            if tt and tt["k"] == "switch":
                o = self.origin(tt["discr"])
                if o[0] == "call" and o[4] == call_bb:
                    tg = {int(v): bb for v, bb in tt["targets"]}
                    if 0 in tg:
                        return b, tg[0], tt["otherwise"]
                    if 1 in tg:
                        return b, tt["otherwise"], tg[1]
        return None

    def reach(self, start, avoid_blocks=(), avoid_edges=()):
        """blocks reachable from start (inclusive) without entering avoid_blocks / taking avoid_edges"""
        avoid_blocks = set(avoid_blocks)
        avoid_edges = set(avoid_edges)
        seen = set()
        st = [start]
        while st:
            b = st.pop()
            if b in seen or b in avoid_blocks:
                continue
            seen.add(b)
            for s in self.succs()[b]:
                if (b, s) not in avoid_edges:
                    st.append(s)
        return seen

    def reach_v(self, start=0, avoid_blocks=(), avoid_edges=(), via=None, avoid_after=()):
        """variant-sensitive reach from the function entry; with via=<block>: blocks reachable after passing through it.
        Falls back to plain reachability if the state space is too large."""
        try:
            r, rv = VariantReach(self).explore(0, avoid_blocks, avoid_edges, via, avoid_after)
            return rv if via is not None else r
        except Undecidable:
            if via is not None:
                return self.reach(via, set(avoid_blocks) | (set(avoid_after) - {via}), avoid_edges)
            return self.reach(0, avoid_blocks, avoid_edges)

    def switches(self):
        for b, bl in enumerate(self.blocks):
            t = bl["term"]
            if t and t["k"] == "switch":
                yield b, t

    def switch_on(self, pred):
        """[(bb, {value:int -> target}, otherwise, origin)] for switches whose discriminant origin satisfies pred"""
        out = []
        for b, t in self.switches():
            o = self.origin(t["discr"])
            if pred(o):
                out.append((b, {int(v): tb for v, tb in t["targets"]}, t["otherwise"], o))
        return out

    def discr_switch_of_call(self, call_bb):
        """switch on discriminant(<result of the call ending call_bb>) (possibly through a downcast-free copy, or after the
        value travelled through a helper's `Ok(..)` and the caller's `?`: every alternative the tested value can stand for, under
        the projections applied to it, is that call's result)"""
        def pred(o):
            if o[0] == "discr" and o[1][0] == "call" and o[1][4] == call_bb:
                return True
            if o[0] == "discr" and isinstance(o[1], tuple) and o[1] and o[1][0] in ("field", "downcast", "phi"):
                try:
                    alts = [strip_refs(a) for a in self.alternatives(o[1])]
                except Exception:
                    return False
                return bool(alts) and all(a[0] == "call" and len(a) > 4 and a[4] == call_bb for a in alts)
            return False
        r = self.switch_on(pred)
        if len(r) > 1:
            # drop elaboration re-tests the same discriminant later: take the test that dominates the others
            first = [x for x in r if all(self.dominates(x[0], y[0]) for y in r)]
            if len(first) != 1:
                # exit paths that bypass the call re-test a drop flag: keep tests dominated by the call, earliest first
                cand = [x for x in r if self.dominates(call_bb, x[0])]
                first = [x for x in cand if all(y[0] in self.reach(x[0]) for y in cand)]
            if len(first) != 1:
                # the call sits in an inlined helper with a second exit (its `?`): it does not dominate the test; take the test
                # from which all the others are reachable and which none of them reaches back
                back = self.back_edges()
                first = [x for x in r if all(y[0] in self.reach(x[0], avoid_edges=back) for y in r)]
            if len(first) != 1:
                # tests on different exits (the value's own match, and a drop-flag re-test on an error exit): the one closest to
                # the call in the forward CFG
                dist = {call_bb: 0}
                work = [call_bb]
                back = self.back_edges()
                while work:
                    u = work.pop(0)
                    for v in self.succs()[u]:
                        if (u, v) not in back and v not in dist:
                            dist[v] = dist[u] + 1
                            work.append(v)
                ds = sorted((dist[x[0]], i) for i, x in enumerate(r) if x[0] in dist)
                if ds and (len(ds) == 1 or ds[0][0] < ds[1][0]):
                    first = [r[ds[0][1]]]
            return first[0] if len(first) == 1 else None
        return r[0] if len(r) == 1 else None

    def _via_back_edge(self, a, b2):
        """is b2 reachable from a only by taking a loop back edge"""
        return b2 not in self.reach(a, avoid_edges=self.back_edges())

    def try_of_call(self, call_bb):
        """for `call()?`: (branch call bb, switch bb, continue target, break target) or None"""
        for b, t in self.calls_to(r"ops::try_trait::Try::branch$"):
            o = self.origin(t["args"][0])
            if o[0] == "call" and o[4] == call_bb:
                sw = self.discr_switch_of_call(b)
                if sw:
                    return b, sw[0], sw[1].get(0), sw[1].get(1)
        return None

    def ret_places(self):
        """locals that hold this function's return value: _0 and, after inlining, the return place of every helper whose
        result is moved straight into one of them (`return helper(..)` / tail call)"""
        if getattr(self, "_retp", None) is None:
            self._ret_pass = set()
            r = {0}
            grew = True
            while grew:
                grew = False
                for bl in self.blocks:
                    # `return helper(..).map(Some)` / `.map_err(..)` / `.into()`: a failure of the receiver is the failure returned
                    t = bl["term"]
                    if t and t["k"] == "call" and t["dest"]["l"] in r and not t["dest"]["p"] and t["args"]:
                        d, rd, ga, fn = callee(t)
                        if d and re.search(r"Result::<T, E>::(map|map_err|or_else)$|convert::Into::into$|convert::From::from$", d):
                            x = t["args"][0].get("move") or t["args"][0].get("copy")
                            if x and not x["p"] and x["l"] not in r:
                                r.add(x["l"])
                                grew = True
                    for st in bl["stmts"]:
                        if st.get("inlined_return") and st["k"] == "assign" and st["place"]["l"] in r and not st["place"]["p"] and st["rv"]["k"] == "use":
                            x = st["rv"]["x"].get("move") or st["rv"]["x"].get("copy")
                            if x and not x["p"] and x["l"] not in r:
                                r.add(x["l"])
                                grew = True
                        # an inlined `async fn`: poll result D = Poll::Ready(move L); `Y = move (D as Ready).0` and then
                        # `r = move Y` (or Y already a return place) make L a return place
                        if st.get("inlined_return") and st["k"] == "assign" and st["rv"]["k"] == "agg" and st["rv"].get("vname") == "Ready" and not st["place"]["p"]:
                            dl = st["place"]["l"]
                            x = st["rv"]["ops"][0].get("move") or st["rv"]["ops"][0].get("copy")
                            if x and not x["p"] and x["l"] not in r:
                                ys = set()
                                for bl2 in self.blocks:
                                    for s2 in bl2["stmts"]:
                                        if s2["k"] == "assign" and not s2["place"]["p"] and s2["rv"]["k"] == "use":
                                            y = s2["rv"]["x"].get("move") or s2["rv"]["x"].get("copy")
                                            if y and y["l"] == dl and y["p"]:
                                                ys.add(s2["place"]["l"])
                                hit = bool(ys & r)
                                for b2i, bl2 in enumerate(self.blocks):
                                    for s2i, s2 in enumerate(bl2["stmts"]):
                                        if s2["k"] == "assign" and s2["place"]["l"] in r and not s2["place"]["p"] and s2["rv"]["k"] == "use":
                                            y = s2["rv"]["x"].get("move") or s2["rv"]["x"].get("copy")
                                            if y and not y["p"] and y["l"] in ys:
                                                hit = True
                                                self._ret_pass.add((b2i, s2i))
                                if hit:
                                    r.add(x["l"])
                                    grew = True
            self._retp = r
        return self._retp

    def error_returned(self, call_bb):
        """the failure value of the call ending call_bb (possibly after await / `?` / a helper's return) is what some
        `?` of this function returns: a from_residual writing the function's own return place derives from that call"""
        rp = self.ret_places()
        for bb, t in self.calls_to(r"FromResidual::from_residual$"):
            if t["dest"]["l"] not in rp or t["dest"]["p"]:
                continue
            o = self.origin(t["args"][0])
            if any(c[4] == call_bb for c in self.may_calls(o)):
                return True
        # `match x { Err(e) => return Err(e) }` form
        for i, bl in enumerate(self.blocks):
            for st in bl["stmts"]:
                if st["k"] == "assign" and st["place"]["l"] in rp and not st["place"]["p"] and st["rv"]["k"] == "agg" and st["rv"].get("vname") == "Err":
                    if any(c[4] == call_bb for o in st["rv"]["ops"] for c in self.may_calls(self.origin(o))):
                        return True
        return False

    def ret_kinds(self, start):
        """how the function can return when control is at `start`: subset of {'Ok','Err','residual','call:<def>','other','diverge'}"""
        rp = self.ret_places()

        def classify(kind, bb, idx, node):
            if kind == "stmt" and node["k"] == "assign" and node["place"]["l"] in rp and not node["place"]["p"]:
                rv = node["rv"]
                if node.get("inlined_return") or (bb, idx) in self._ret_pass:
                    return None           # the helper's own assignment to its return place was the event
                if rv["k"] == "agg" and rv["agg"] == "adt" and rv["adt"] in ("core::result::Result", "core::option::Option", "core::task::poll::Poll"):
                    return ("ret", rv["vname"])
                return ("ret", "other")
            if kind == "term" and node["k"] == "call" and node["dest"]["l"] in rp and not node["dest"]["p"]:
                d, rd, ga, fn = callee(node)
                if d and d.endswith("from_residual"):
                    return ("ret", "residual")
                return ("ret", "call:%s" % d)
            return None
        kinds = set()
        for s in self.event_paths(classify, start=start):
            if s and s[-1][0] in ("unreachable",):
                continue
            if s and s[-1][0] in ("diverge", "resume", "terminate", "coroutine_drop"):
                kinds.add("diverge")
                continue
            if s and s[-1][0] == "loop":
                kinds.add("loop")
                continue
            rets = [e for e in s if e[0] == "ret"]
            kinds.add(rets[-1][1] if rets else "none")
        return kinds

    def ret_kinds_v(self, start):
        """variant-sensitive variant of ret_kinds: kinds of the values assigned to the return place(s) in blocks that can be
        reached after passing through `start`, pruning switches on discriminants / constants that are known on the way
        (so `x = None; match x { .. }` after an expanded adaptor does not fan out again)"""
        rp = self.ret_places()
        blocks = self.reach_v(via=start)
        kinds = set()
        for bb in blocks:
            bl = self.blocks[bb]
            for idx, st in enumerate(bl["stmts"]):
                if st["k"] == "assign" and st["place"]["l"] in rp and not st["place"]["p"]:
                    if st.get("inlined_return") or (bb, idx) in self._ret_pass:
                        continue
                    rv = st["rv"]
                    if rv["k"] == "agg" and rv["agg"] == "adt" and rv["adt"] in ("core::result::Result", "core::option::Option", "core::task::poll::Poll"):
                        kinds.add(rv["vname"])
                    else:
                        kinds.add("other")
            t = bl["term"]
            if t and t["k"] == "call" and t["dest"]["l"] in rp and not t["dest"]["p"]:
                d, rd, ga, fn = callee(t)
                kinds.add("residual" if d and d.endswith("from_residual") else "call:%s" % d)
        return kinds

    def operand_ty(self, op):
        """declared type of an operand that is a plain local or a typed constant (None otherwise)"""
        if not isinstance(op, dict):
            return None
        p = op.get("copy") or op.get("move")
        if p is not None:
            if not p["p"] and 0 <= p["l"] < len(self.raw["locals"]):
                return self.raw["locals"][p["l"]].get("ty")
            return None
        c = op.get("const")
        if isinstance(c, dict):
            return c.get("ty")
        return None

    def decision_rows_dp(self, start=0, extra_classify=None):
        """finite decision table of a small function: set of (conditions, result) where conditions is a tuple of
        (printed discriminant origin, origin, 'eq'|'ne', value(s)) taken on switch edges whose discriminant is a program value
        (constant switches are folded, drop-flag/tracing switches are ignored) and result describes the value assigned to _0."""
        def noise(o):
            s = str(o)
            return "tracing" in s or o[0] in ("phi", "deep", "unknown", "rv")

        def edge(b, s, t):
            if t["k"] != "switch":
                return None
            o = self.origin(t["discr"])
            tg = [(int(v), tb) for v, tb in t["targets"]]
            if o[0] == "const" and o[1] is not None:
                want = [tb for v, tb in tg if v == o[1]]
                want = want[0] if want else t["otherwise"]
                return None if s == want else "infeasible"
            if noise(o):
                return None
            vals = [v for v, tb in tg if tb == s]
            if vals and s != t["otherwise"]:
                return ("cond", fmt_origin(o), "eq", tuple(vals))
            if s == t["otherwise"] and not vals:
                return ("cond", fmt_origin(o), "ne", tuple(v for v, _tb in tg))
            return ("cond", fmt_origin(o), "any", tuple(vals))

        def classify(kind, bb, idx, node):
            if extra_classify is not None:
                e = extra_classify(kind, bb, idx, node)
                if e is not None:
                    return e
            if kind == "stmt" and node["k"] == "assign" and node["place"]["l"] == 0 and not node["place"]["p"]:
                rv = node["rv"]
                if rv["k"] == "agg":
                    return ("ret", rv.get("vname") or rv["agg"], tuple(fmt_origin(self.origin(x)) for x in rv["ops"]))
                if rv["k"] == "use":
                    return ("ret", "use", (fmt_origin(self.origin(rv["x"])),))
                return ("ret", rv["k"], ())
            if kind == "term" and node["k"] == "call" and node["dest"]["l"] == 0 and not node["dest"]["p"] and not is_tracing(node):
                d, rd, ga, fn = callee(node)
                return ("ret", "call:%s" % (rd or d), tuple(fmt_origin(self.origin(x)) for x in node["args"]))
            return None

        rows = set()
        for s in self.event_paths(classify, start=start, edge_classify=edge):
            if s and s[-1][0] == "unreachable":
                continue
            conds = tuple(e for e in s if e[0] == "cond")
            rets = [e for e in s if e[0] == "ret"]
            end = s[-1][0] if s else "none"
            others = tuple(e for e in s if e[0] not in ("cond", "ret", "return", "loop", "diverge", "unreachable", "resume", "terminate"))
            rows.add((conds, rets[-1] if rets else ("ret", end, ()), others))
        return rows

    def decision_rows(self, start=0, limit=40000, events=False):
        """path-sensitive decision table of a small (acyclic) function: every path is enumerated explicitly and a
        multiply-assigned local (a phi: drop flags, `a && b` temporaries, an inlined helper's return value) is resolved
        to the definition that was executed on that path.  Rows: (conditions, result, ()) like decision_rows_dp."""
        multi = {l for l, ds in self.defs().items() if len([d for d in ds if d[0] in ("stmt", "call") and not (d[0] == "stmt" and d[3]["place"]["p"])]) > 1}
        back = self.back_edges()
        rows = set()
        count = [0]

        def resolve(op, last, depth=0):
            """origin of an operand with phi locals replaced by their definition on this path"""
            p = op.get("copy") or op.get("move") if isinstance(op, dict) else None
            if p is not None and not p["p"] and p["l"] in multi and p["l"] in last and depth < 12:
                kind, bb, idx = last[p["l"]]
                if kind == "stmt":
                    rv = self.blocks[bb]["stmts"][idx]["rv"]
                    return resolve_rv(rv, last, depth + 1)
                t = self.blocks[bb]["term"]
                dd, rd, ga, fn = callee(t)
                return ("call", dd, rd, [resolve(a, last, depth + 1) for a in t["args"]], bb, ga)
            o = self.origin(op)
            return subst_phi(o, last, depth)

        def subst_phi(o, last, depth):
            if depth > 12 or not isinstance(o, tuple):
                return o
            if o and o[0] == "phi" and o[1] in last:
                return resolve({"copy": {"l": o[1], "p": []}}, last, depth + 1)
            # structural descent does not count against the resolution depth (deeply nested projections are common after inlining)
            return tuple(subst_phi(x, last, depth) if isinstance(x, tuple) else ([subst_phi(y, last, depth) for y in x] if isinstance(x, list) else x) for x in o)

        def resolve_rv(rv, last, depth):
            k = rv["k"]
            if k == "use":
                return resolve(rv["x"], last, depth)
            if k == "bin":
                return ("bin", rv["op"], resolve(rv["l"], last, depth), resolve(rv["r"], last, depth), rv.get("lty"))
            if k == "un":
                return ("un", rv["op"], resolve(rv["x"], last, depth), self.operand_ty(rv["x"]))
            if k == "cast":
                return ("cast", rv["kind"], rv["from"], rv["to"], resolve(rv["x"], last, depth))
            if k == "discr":
                return ("discr", subst_phi(self.origin(rv["place"]), last, depth), rv.get("of"))
            if k == "agg":
                desc = ("adt", rv["adt"], rv["variant"], rv["vname"], tuple(rv["fields"])) if rv["agg"] == "adt" else (rv["agg"],)
                return ("agg", desc, [resolve(o, last, depth) for o in rv["ops"]])
            if k == "ref":
                return ("ref", subst_phi(self.origin(rv["place"]), last, depth))
            return ("rv", k)

        def fold(o):
            """constant-fold the few shapes that matter: discr of a literal aggregate, comparisons of constants, Not"""
            if not isinstance(o, tuple):
                return o
            if o and o[0] == "discr" and isinstance(o[1], tuple) and o[1] and o[1][0] in ("field", "downcast"):
                # the discriminant of a value built on this path and taken apart again: `(Ready(Ok(x)) as Ready).0`
                o = ("discr", simplify(o[1])) + tuple(o[2:])
            if o[0] == "discr" and isinstance(o[1], tuple) and o[1] and o[1][0] == "call":
                # `?` applied to a value whose variant is known on this path: the failure value a failed `?` produced
                # (from_residual) or a literal Ok / Err / Some / None
                x = o[1]
                via_branch = (x[1] or "").endswith("ops::try_trait::Try::branch") and len(x[3]) == 1
                y = simplify(x[3][0]) if via_branch else x
                if isinstance(y, tuple) and y and y[0] == "call" and (y[1] or "").endswith("FromResidual::from_residual"):
                    head = (y[2] or "").split(" as ")[0]
                    if "task::poll::Poll" in head:
                        # `?` inside a poll function: the failure value is Poll::Ready(Err(..)) (variant 0); `?` on it breaks again
                        return ("const", 1 if via_branch else 0, None, None)
                    if "result::Result" in head:
                        return ("const", 1, None, None)                      # Err / Break
                    if "option::Option" in head:
                        return ("const", 1 if via_branch else 0, None, None)      # None is variant 0; `?` on it breaks
                if via_branch and isinstance(y, tuple) and y and y[0] == "agg" and y[1][0] == "adt" and y[1][1] in ("core::result::Result", "core::option::Option"):
                    return ("const", 0 if y[1][3] in ("Ok", "Some") else 1, None, None)
            if o[0] == "discr" and isinstance(o[1], tuple) and o[1][0] == "agg" and o[1][1][0] == "adt":
                en = self.mir.enums.get(o[1][1][1])
                if en:
                    for v in en["variants"]:
                        if v["idx"] == o[1][1][2]:
                            return ("const", int(v["discr"]), None, None)
                return ("const", o[1][1][2], None, None)
            if o[0] == "bin" and o[1] in ("Eq", "Ne", "Lt", "Le", "Gt", "Ge"):
                a, b2 = fold(o[2]), fold(o[3])
                if a[0] == "const" and b2[0] == "const" and a[1] is not None and b2[1] is not None:
                    r = {"Eq": a[1] == b2[1], "Ne": a[1] != b2[1], "Lt": a[1] < b2[1], "Le": a[1] <= b2[1], "Gt": a[1] > b2[1], "Ge": a[1] >= b2[1]}[o[1]]
                    return ("const", 1 if r else 0, None, None)
                return ("bin", o[1], a, b2, o[4] if len(o) > 4 else None)
            if o[0] == "un" and o[1] == "Not":
                a = fold(o[2])
                if a[0] == "const" and a[1] in (0, 1) and (len(o) < 4 or o[3] in (None, "bool")):
                    return ("const", 1 - a[1], None, None)
                return ("un", "Not", a) + tuple(o[3:])
            return o

        def norm_cond(o, kind, vals, listed):
            """(text, 'eq'|'ne', values) with `X Eq const` / `X Ne const` / Not rewritten to a condition on X"""
            o = fold(o)
            if o[0] == "un" and o[1] == "Not" and kind in ("eq", "ne") and set(vals) <= {0, 1} and len(vals) == 1:
                return norm_cond(o[2], kind, (1 - vals[0],), listed)
            if o[0] == "bin" and o[1] in ("Eq", "Ne") and len(vals) == 1 and vals[0] in (0, 1):
                a, b2 = o[2], o[3]
                if b2[0] != "const" and a[0] == "const":
                    a, b2 = b2, a
                if b2[0] == "const" and b2[1] is not None and a[0] != "const":
                    truth = (vals[0] != 0) if kind == "eq" else (vals[0] == 0)
                    equal = truth if o[1] == "Eq" else not truth
                    return ("cond", fmt_origin(a), "eq" if equal else "ne", (b2[1],), freeze(a))
            return ("cond", fmt_origin(o), kind, tuple(vals), freeze(o))

        def go(bb, last, conds, visited, trace=()):
            count[0] += 1
            if count[0] > limit:
                raise Undecidable("too many paths in %s" % self.name)
            bl = self.blocks[bb]
            last = dict(last)
            for i, st in enumerate(bl["stmts"]):
                if events and st["k"] == "assign" and st["place"]["p"] == ["deref"]:
                    # a store through a reference (`*slot = v`, e.g. the target of `data[0] = n` after index_mut)
                    try:
                        trace = trace + (("store", bb, freeze(resolve({"copy": {"l": st["place"]["l"], "p": []}}, last)), freeze(resolve_rv(st["rv"], last, 0))),)
                    except Exception:
                        pass
                if st["k"] == "assign" and not st["place"]["p"] and (st["place"]["l"] in multi or st["place"]["l"] == 0):
                    last[st["place"]["l"]] = ("stmt", bb, i)
            t = bl["term"]
            k = t["k"] if t else "none"
            if events and k == "call" and not is_tracing(t):
                dd_, rd_, ga_, _fn = callee(t)
                trace = trace + (("call", bb, dd_, rd_, freeze([resolve(a, last) for a in t["args"]]), freeze(list(ga_ or [])), t.get("dty")),)
            if k == "call" and not t["dest"]["p"] and (t["dest"]["l"] in multi or t["dest"]["l"] == 0):
                last[t["dest"]["l"]] = ("call", bb, -1)
            if k == "return":
                if 0 in last:
                    kind, b0, i0 = last[0]
                    if kind == "stmt":
                        rv = self.blocks[b0]["stmts"][i0]["rv"]
                        if rv["k"] == "agg":
                            oo = [resolve(x, last) for x in rv["ops"]]
                            ret = ("ret", rv.get("vname") or rv["agg"], tuple(fmt_origin(x) for x in oo), freeze(oo))
                        elif rv["k"] == "use":
                            oo = fold(resolve(rv["x"], last))
                            ret = ("ret", "use", (fmt_origin(oo),), freeze([oo]))
                        else:
                            oo = fold(resolve_rv(rv, last, 0))
                            ret = ("ret", rv["k"], (fmt_origin(oo),), freeze([oo]))
                    else:
                        tt = self.blocks[b0]["term"]
                        dd, rd, ga, fn = callee(tt)
                        oo = [resolve(x, last) for x in tt["args"]]
                        ret = ("ret", "call:%s" % (rd or dd), tuple(fmt_origin(x) for x in oo), freeze(oo))
                else:
                    ret = ("ret", "none", ())
                rows.add((tuple(conds), ret, trace))
                return
            if k in ("unreachable",):
                return
            if k in ("resume", "terminate", "coroutine_drop") or (k == "call" and t.get("target") is None):
                rows.add((tuple(conds), ("ret", "diverge", ()), trace))
                return
            if k == "switch":
                o = fold(resolve(t["discr"], last))
                tg = [(int(v), tb) for v, tb in t["targets"]]
                listed = [v for v, _ in tg]
                if o[0] == "const" and o[1] is not None:
                    want = [tb for v, tb in tg if v == o[1]]
                    nxt = want[0] if want else t["otherwise"]
                    if (bb, nxt) in back or nxt in visited:
                        rows.add((tuple(conds), ("ret", "loop", ()), trace))
                        return
                    return go(nxt, last, conds, visited | {bb}, trace)
                noise = "tracing" in str(o) or o[0] in ("phi", "deep", "unknown", "rv")
                for s in sorted(set(self.succs()[bb])):
                    vals = [v for v, tb in tg if tb == s]
                    c = None
                    if not noise:
                        if vals and s != t["otherwise"]:
                            c = norm_cond(o, "eq", vals, listed)
                        elif s == t["otherwise"] and not vals:
                            c = norm_cond(o, "ne", listed, listed)
                        else:
                            c = ("cond", fmt_origin(o), "any", tuple(vals), freeze(o))
                    if (bb, s) in back or s in visited:
                        rows.add((tuple(conds + ([c] if c else [])), ("ret", "loop", ()), trace))
                        continue
                    go(s, last, conds + ([c] if c else []), visited | {bb}, (trace + (c,)) if (events and c) else trace)
                    if noise:
                        break        # one representative edge of a tracing / undecidable switch is enough
                return
            for s in self.succs()[bb]:
                if (bb, s) in back or s in visited:
                    rows.add((tuple(conds), ("ret", "loop", ()), trace))
                    continue
                go(s, last, conds, visited | {bb}, trace)

        import sys
        old = sys.getrecursionlimit()
        sys.setrecursionlimit(max(old, 10000))
        try:
            go(start, {}, [], frozenset())
        finally:
            sys.setrecursionlimit(old)
        # merge rows that differ only in duplicated conditions
        out = set()
        for conds, ret, oth in rows:
            seen = []
            for c in conds:
                if c not in seen:
                    seen.append(c)
            out.add((tuple(seen), ret, oth))
        return out

    def loop_heads(self):
        return {v for (_u, v) in self.back_edges()}

    def reach_within_iteration(self, start):
        """blocks reachable from `start` without passing through a loop head (the start itself is expanded even if it is one)"""
        heads = self.loop_heads()
        seen = set()
        st = [start]
        first = True
        while st:
            b = st.pop()
            if b in seen:
                continue
            if b in heads and not first:
                continue
            first = False
            seen.add(b)
            st.extend(self.succs()[b])
        return seen

    # ------------------------------------------------------------ def chains
    def defs(self):
        """local -> list of ('stmt', bb, idx, stmt) | ('call', bb, term) | ('arg',) definitions (whole-local writes only)"""
        if self._defs is None:
            d = {}
            for i in range(1, self.argc + 1):
                d.setdefault(i, []).append(("arg", i))
            for b, bl in enumerate(self.blocks):
                for i, st in enumerate(bl["stmts"]):
                    if st["k"] == "assign":
                        d.setdefault(st["place"]["l"], []).append(("stmt", b, i, st))
                t = bl["term"]
                if t and t["k"] == "call":
                    d.setdefault(t["dest"]["l"], []).append(("call", b, t))
                if t and t["k"] == "yield":
                    d.setdefault(t["resume_arg"]["l"], []).append(("yield", b, t))
            self._defs = d
        return self._defs

    def reaching_defs(self, local, use_bb):
        """whole-local definitions of `local` that can reach the *terminator* of use_bb: a definition reaches it when
        some path from the definition to use_bb passes through no other definition of the same local (definitions in
        use_bb itself shadow everything earlier; a call's destination is defined on the edge to its successor)."""
        ds = [x for x in self.defs().get(local, []) if not (x[0] == "stmt" and x[3]["place"]["p"])]
        if not ds:
            return []
        # last definition by statement inside a block
        in_block = {}
        for d in ds:
            if d[0] == "stmt":
                if d[1] not in in_block or in_block[d[1]][2] < d[2]:
                    in_block[d[1]] = d
        term_def = {d[1]: d for d in ds if d[0] in ("call", "yield")}
        if use_bb in in_block:
            return [in_block[use_bb]]
        out = []
        # walk backwards from use_bb; stop at blocks that define the local
        seen = set()
        work = [use_bb]
        while work:
            x = work.pop()
            for p in self.preds()[x]:
                if p in term_def:
                    if term_def[p] not in out:
                        out.append(term_def[p])
                    continue
                if p in in_block:
                    if in_block[p] not in out:
                        out.append(in_block[p])
                    continue
                if p not in seen:
                    seen.add(p)
                    work.append(p)
        if (0 in seen or use_bb == 0) :
            for d in ds:
                if d[0] == "arg":
                    out.append(d)
        return out

    def def_origin(self, d):
        """origin of one definition as returned by defs()/reaching_defs()"""
        if d[0] == "arg":
            return ("arg", d[1])
        if d[0] == "call":
            t = d[2]
            dd, rd, ga, fn = callee(t)
            return ("call", dd, rd, [self.origin(a) for a in t["args"]], d[1], ga)
        if d[0] == "stmt":
            rv = d[3]["rv"]
            if rv["k"] == "use":
                return self.origin(rv["x"])
            if rv["k"] == "ref":
                return ("ref", self.origin(rv["place"]))
            return ("rv", rv["k"])
        return ("rv", d[0])

    def single_def(self, local):
        ds = [x for x in self.defs().get(local, []) if not (x[0] == "stmt" and x[3]["place"]["p"])]
        if len(ds) == 1:
            return ds[0]
        return None

    def origin(self, op, depth=0, seen=None):
        """symbolic origin of an operand/place: a small expression tree following single-definition locals.
        ('const', int|None, text) ('fnconst', def) ('arg', i, proj) ('call', def, resolved, [args], bb)
        ('bin', op, a, b) ('un', op, a) ('cast', kind, from, to, a) ('field', base, idx, name) ('deref', base)
        ('ref', base) ('agg', kind-desc, [ops]) ('discr', base) ('local', n, proj) ('phi', n)"""
        if seen is None:
            seen = set()
        if depth > 40:
            return ("deep",)
        if isinstance(op, dict) and "const" in op:
            c = op["const"]
            if "fn" in c:
                return ("fnconst", c["fn"]["def"], (c["fn"].get("resolved") or {}).get("def"))
            v = int(c["val"]) if c.get("val") is not None else None
            if v is None and c.get("promoted") is not None and self.raw.get("promoted"):
                pb = self.promoted(c["promoted"])
                if pb is not None:
                    return pb.ret_origin()
            return ("const", v, c.get("text"), c.get("ty"))
        p = op_place(op) if isinstance(op, dict) and ("copy" in op or "move" in op) else op
        if p is None or "l" not in p:
            return ("unknown", str(op)[:80])
        base = self._origin_local(p["l"], depth, seen)
        for pr in p["p"]:
            if pr == "deref":
                base = self._deref(base)
            elif isinstance(pr, dict) and "f" in pr:
                base = self._field(base, pr["f"], pr.get("name"))
            elif isinstance(pr, dict) and "downcast" in pr:
                if base[0] == "agg" and base[1][0] == "adt" and base[1][2] == pr["downcast"]:
                    pass          # downcast of a value built as that very variant: the aggregate itself (store-to-load forwarding)
                else:
                    base = ("downcast", base, pr["downcast"], pr.get("name"))
            elif isinstance(pr, dict) and "index" in pr:
                base = ("index", base, self._origin_local(pr["index"], depth + 1, seen))
            elif isinstance(pr, dict) and "cidx" in pr:
                base = ("cindex", base, pr["cidx"], pr["from_end"])
            elif isinstance(pr, dict) and "sub_from" in pr:
                # `[a, rest @ .., z]`: elements from..to (to counted from the end when from_end)
                base = ("subslice", base, pr["sub_from"], pr["sub_to"], pr["from_end"])
            else:
                base = ("proj", base, str(pr))
        return base

    def _deref(self, base):
        if base[0] == "ref":
            return base[1]
        return ("deref", base)

    def _field(self, base, idx, name):
        if base[0] == "agg" and base[1][0] in ("tuple", "adt") and idx < len(base[2]):
            return base[2][idx]
        return ("field", base, idx, name)

    def _origin_local(self, l, depth, seen):
        if l in seen:
            return ("phi", l)
        d = self.single_def(l)
        if d is None:
            ds = self.defs().get(l, [])
            if not ds and l == 0:
                return ("ret",)
            return ("phi", l)
        if d[0] == "arg":
            return ("arg", d[1])
        seen = seen | {l}
        if d[0] == "call":
            t = d[2]
            dd, rd, ga, fn = callee(t)
            args = [self.origin(a, depth + 1, seen) for a in t["args"]]
            if dd and dd.endswith("ops::try_trait::Try::branch") and args and args[0][0] == "agg" and args[0][1][0] == "adt":
                # `?` applied to a value whose variant is known: Ok(v) / Some(v) continue with v, Err / None break
                adt, vn = args[0][1][1], args[0][1][3]
                cf = "core::ops::control_flow::ControlFlow"
                if adt in ("core::result::Result", "core::option::Option") and vn in ("Ok", "Some"):
                    return ("agg", ("adt", cf, 0, "Continue", ("0",)), list(args[0][2]))
                if adt in ("core::result::Result", "core::option::Option") and vn in ("Err", "None"):
                    return ("agg", ("adt", cf, 1, "Break", ("0",)), [args[0]])
            return ("call", dd, rd, args, d[1], ga)
        if d[0] == "yield":
            return ("resume", d[1])
        st = d[3]
        rv = st["rv"]
        k = rv["k"]
        if k == "use":
            return self.origin(rv["x"], depth + 1, seen)
        if k == "ref" or k == "rawptr":
            return ("ref", self.origin(rv["place"], depth + 1, seen))
        if k == "cast":
            return ("cast", rv["kind"], rv["from"], rv["to"], self.origin(rv["x"], depth + 1, seen))
        if k == "bin":
            return ("bin", rv["op"], self.origin(rv["l"], depth + 1, seen), self.origin(rv["r"], depth + 1, seen), rv.get("lty"))
        if k == "un":
            return ("un", rv["op"], self.origin(rv["x"], depth + 1, seen), self.operand_ty(rv["x"]))
        if k == "discr":
            return ("discr", self.origin(rv["place"], depth + 1, seen), rv.get("of"))
        if k == "agg":
            if rv["agg"] == "adt":
                desc = ("adt", rv["adt"], rv["variant"], rv["vname"], tuple(rv["fields"]))
            elif rv["agg"] in ("closure", "coroutine"):
                desc = (rv["agg"], rv["def"])
            else:
                desc = (rv["agg"],)
            return ("agg", desc, [self.origin(o, depth + 1, seen) for o in rv["ops"]])
        if k == "repeat":
            return ("repeat", self.origin(rv["x"], depth + 1, seen), rv["len"])
        return ("rv", k, rv.get("text", "")[:80])

    def promoted(self, idx):
        ps = self.raw.get("promoted") or []
        if idx >= len(ps):
            return None
        key = "%s#const%d" % (self.name, idx)
        if key not in self.mir._wrapped:
            self.mir._wrapped[key] = Body(key, ps[idx], self.mir)
        return self.mir._wrapped[key]

    def ret_origin(self):
        """origin of the value a (promoted constant) body returns"""
        ds = [d for d in self.defs().get(0, []) if d[0] == "stmt" and not d[3]["place"]["p"]]
        if len(ds) != 1:
            return ("phi", 0)
        rv = ds[0][3]["rv"]
        if rv["k"] == "ref":
            return ("ref", self.origin(rv["place"]))
        if rv["k"] == "use":
            return self.origin(rv["x"])
        return ("rv", rv["k"])

    def phi_alternatives(self, local):
        """origins of every definition of a multiply-assigned local"""
        out = []
        for d in self.defs().get(local, []):
            if d[0] == "arg":
                out.append(("arg", d[1]))
            elif d[0] == "call":
                t = d[2]
                dd, rd, ga, fn = callee(t)
                out.append(("call", dd, rd, [self.origin(a) for a in t["args"]], d[1], ga))
            elif d[0] == "stmt" and not d[3]["place"]["p"]:
                rv = d[3]["rv"]
                if rv["k"] == "use":
                    out.append(self.origin(rv["x"]))
                elif rv["k"] == "agg":
                    out.append(("agg", (rv["agg"], rv.get("adt"), rv.get("variant"), rv.get("vname")) if rv["agg"] == "adt" else (rv["agg"],), [self.origin(o) for o in rv["ops"]]))
                elif rv["k"] == "ref":
                    out.append(("ref", self.origin(rv["place"])))
                else:
                    out.append(("rv", rv["k"]))
        return out

    def alternatives(self, o, depth=0, seen=None):
        """the origins `o` can stand for when multiply-assigned locals are expanded, with variant projections pushed through:
        `(phi as Continue.0 as Some.0)` keeps only the alternatives built as Continue(Some(x)) and yields x for them; an
        alternative built as another variant is infeasible under that projection and is dropped; opaque alternatives (calls)
        are kept with the projection applied.  `?` on an alternative of known variant is folded like in origin()."""
        if seen is None:
            seen = frozenset()
        if depth > 12 or not isinstance(o, tuple) or not o:
            return [o]
        k = o[0]
        if k == "phi" and isinstance(o[1], int):
            if o[1] in seen:
                return []
            out = []
            for a in self.phi_alternatives(o[1]):
                out.extend(self.alternatives(a, depth + 1, seen | {o[1]}))
            return out
        if k in ("ref", "deref"):
            return [(k, a) for a in self.alternatives(o[1], depth + 1, seen)]
        if k == "call" and (o[1] or "").endswith("ops::try_trait::Try::branch") and o[3]:
            out = []
            cf = "core::ops::control_flow::ControlFlow"
            for a in self.alternatives(o[3][0], depth + 1, seen):
                if a[0] == "agg" and a[1][0] == "adt" and a[1][1] in ("core::result::Result", "core::option::Option"):
                    if a[1][3] in ("Ok", "Some"):
                        out.append(("agg", ("adt", cf, 0, "Continue", ("0",)), list(a[2])))
                    else:
                        out.append(("agg", ("adt", cf, 1, "Break", ("0",)), [a]))
                else:
                    out.append(("call", o[1], o[2], [a] + list(o[3][1:]), o[4], o[5] if len(o) > 5 else None))
            return out
        if k == "call" and (o[1] or "").endswith("FromResidual::from_residual"):
            # `?` taken on its failure edge: the function's own failure variant (Err(..) / None), payload opaque
            rd = o[2] or ""
            if "result::Result" in rd.split(" as ")[0]:
                return [("agg", ("adt", "core::result::Result", 1, "Err", ("0",)), [o])]
            if "option::Option" in rd.split(" as ")[0]:
                return [("agg", ("adt", "core::option::Option", 0, "None", ()), [])]
            return [o]
        if k == "downcast":
            out = []
            for a in self.alternatives(o[1], depth + 1, seen):
                if a[0] == "agg" and a[1][0] == "adt":
                    if a[1][2] == o[2]:
                        out.append(a)
                    # else: built as another variant -> infeasible under this downcast
                else:
                    out.append(("downcast", a, o[2], o[3]))
            return out
        if k == "field":
            out = []
            for a in self.alternatives(o[1], depth + 1, seen):
                if a[0] == "agg" and a[1][0] in ("adt", "tuple") and o[2] < len(a[2]):
                    out.extend(self.alternatives(a[2][o[2]], depth + 1, seen))
                else:
                    out.append(("field", a, o[2], o[3]))
            return out
        return [o]

    def derives_via(self, o, call_bb, forbid=None, limit=400):
        """(found, clean): found = the origin may derive from the result of the call ending call_bb (looking through
        multiply-assigned locals); clean = the leaf `forbid` (e.g. ('arg', 2)) is not reachable except through that call"""
        seen_phi = set()
        found, clean = False, True
        work = list(self.alternatives(o))
        n = 0
        while work and n < limit:
            x = work.pop()
            n += 1
            if not isinstance(x, tuple) or not x:
                continue
            if x[0] in ("field", "downcast") and x is not o:
                ex = self.alternatives(x)
                if ex != [x]:
                    work.extend(ex)
                    continue
            if x[0] == "call" and len(x) > 4 and x[4] == call_bb:
                found = True
                continue
            if forbid is not None and x == forbid:
                clean = False
                continue
            if x[0] == "phi" and isinstance(x[1], int):
                if x[1] not in seen_phi:
                    seen_phi.add(x[1])
                    work.extend(self.phi_alternatives(x[1]))
                continue
            for y in x:
                if isinstance(y, tuple):
                    work.append(y)
                elif isinstance(y, list):
                    work.extend(z for z in y if isinstance(z, tuple))
        return found, clean

    def may_calls(self, o, limit=200):
        """all call nodes an origin may derive from, looking through multiply-assigned locals (phis)"""
        seen_phi = set()
        out = []
        work = [o]
        n = 0
        while work and n < limit:
            x = work.pop()
            n += 1
            if isinstance(x, tuple):
                if x and x[0] == "call":
                    out.append(x)
                if x and x[0] == "phi" and isinstance(x[1], int):
                    if x[1] not in seen_phi:
                        seen_phi.add(x[1])
                        work.extend(self.phi_alternatives(x[1]))
                    continue
                for y in x:
                    if isinstance(y, (tuple, list)):
                        work.append(y)
            elif isinstance(x, list):
                work.extend(x)
        return out

    def may_mention(self, o, pattern):
        r = re.compile(pattern)
        return any(r.search(c[1] or "") or r.search(c[2] or "") for c in self.may_calls(o))

    # ------------------------------------------------------------ path/event summaries
    def event_paths(self, classify, start=0, limit=4000, stop_at_back_edge=True, edge_classify=None):
        """Set of event sequences (tuples) over all acyclic paths start->Return.
        classify(kind, bb, idx, node) -> event (hashable) or None; kind in 'stmt','term'.
        Back edges end the path with ('loop', target)."""
        back = self.back_edges() if stop_at_back_edge else set()
        memo = {}
        onstack = set()

        def ev_block(b):
            evs = []
            bl = self.blocks[b]
            for i, st in enumerate(bl["stmts"]):
                e = classify("stmt", b, i, st)
                if e is not None:
                    evs.append(e)
            t = bl["term"]
            if t is not None:
                e = classify("term", b, -1, t)
                if e is not None:
                    evs.append(e)
            return tuple(evs)

        def go(b):
            if b in memo:
                return memo[b]
            if b in onstack:
                return {(("loop", b),)}
            onstack.add(b)
            head = ev_block(b)
            t = self.blocks[b]["term"]
            out = set()
            k = t["k"] if t else "none"
            if k == "return":
                out.add(head + (("return",),))
            elif k in ("unreachable", "resume", "terminate", "coroutine_drop"):
                out.add(head + ((k,),))
            else:
                ss = self.succs()[b]
                if not ss:
                    out.add(head + (("diverge",),))
                for s in ss:
                    ee = ()
                    if edge_classify is not None:
                        ev = edge_classify(b, s, t)
                        if ev == "infeasible":
                            continue
                        if ev is not None:
                            ee = (ev,)
                    if (b, s) in back:
                        out.add(head + ee + (("loop", s),))
                        continue
                    for tail in go(s):
                        out.add(head + ee + tail)
                        if len(out) > limit:
                            raise Undecidable("path set too large in %s" % self.name)
            onstack.discard(b)
            memo[b] = out
            return out

        return go(start)


def freeze(o):
    """hashable copy of an origin tree (lists -> tuples)"""
    if isinstance(o, (list, tuple)):
        return tuple(freeze(x) for x in o)
    return o


def fmt_origin(o, depth=0):
    """compact printable form of an origin tree"""
    if depth > 6:
        return "…"
    k = o[0]
    if k == "const":
        return str(o[1]) if o[1] is not None else "const(%s)" % (o[2],)
    if k == "arg":
        return "arg%d" % o[1]
    if k == "call":
        return "%s(%s)" % ((o[2] or o[1]).split("::")[-1] if True else "", ", ".join(fmt_origin(a, depth + 1) for a in o[3]))
    if k == "field":
        return "%s.%s" % (fmt_origin(o[1], depth + 1), o[3] if o[3] else o[2])
    if k == "deref":
        return "*%s" % fmt_origin(o[1], depth + 1)
    if k == "ref":
        return "&%s" % fmt_origin(o[1], depth + 1)
    if k == "bin":
        return "(%s %s %s)" % (fmt_origin(o[2], depth + 1), o[1], fmt_origin(o[3], depth + 1))
    if k == "un":
        return "%s(%s)" % (o[1], fmt_origin(o[2], depth + 1))
    if k == "cast":
        return "(%s as %s)" % (fmt_origin(o[4], depth + 1), o[3])
    if k == "agg":
        return "%s{%s}" % (o[1][-2] if o[1][0] == "adt" else o[1][0], ", ".join(fmt_origin(a, depth + 1) for a in o[2]))
    if k == "downcast":
        return "%s as %s" % (fmt_origin(o[1], depth + 1), o[3])
    if k == "discr":
        return "discr(%s)" % fmt_origin(o[1], depth + 1)
    return "%s" % (o,)


def origin_calls(o, out=None):
    """all ('call', def, resolved, ...) nodes inside an origin tree"""
    if out is None:
        out = []
    if isinstance(o, tuple):
        if o and o[0] == "call":
            out.append(o)
        for x in o:
            if isinstance(x, (tuple, list)):
                origin_calls(x, out)
    elif isinstance(o, list):
        for x in o:
            origin_calls(x, out)
    return out


def origin_mentions_call(o, pattern):
    r = re.compile(pattern)
    return any(r.search(c[1] or "") or r.search(c[2] or "") for c in origin_calls(o))


def origin_fields(o, out=None):
    """names of all struct fields projected anywhere inside an origin tree"""
    if out is None:
        out = set()
    if isinstance(o, tuple):
        if o and o[0] == "field" and o[3]:
            out.add(o[3])
        for x in o:
            if isinstance(x, (tuple, list)):
                origin_fields(x, out)
    elif isinstance(o, list):
        for x in o:
            origin_fields(x, out)
    return out


def strip_refs(o):
    while isinstance(o, tuple) and o and o[0] in ("ref", "deref"):
        o = o[1]
    return o


def is_self_field(o, field, self_roots=(("arg", 1),)):
    """origin is (a reference to) <self>.field where self is arg1 (or arg1.0 for a coroutine's captured self)"""
    o = strip_refs(o)
    if not (isinstance(o, tuple) and o[0] == "field" and o[3] == field):
        return False
    base = strip_refs(o[1])
    if base in self_roots or (base[0] == "arg" and base[1] == 1):
        return True
    # coroutine: arg1 is the coroutine state; upvar 0 is `self`
    if base[0] == "field" and strip_refs(base[1])[0] == "arg":
        return True
    return False


# ---------------------------------------------------------------------------- inlining of private helpers

def _rewrite(node, loff, boff, poff, callee_def):
    """deep copy of a MIR JSON fragment with locals shifted by loff (block numbers are shifted by the caller)"""
    if isinstance(node, dict):
        if "l" in node and "p" in node and isinstance(node.get("p"), list):
            out = {"l": node["l"] + loff, "p": [_rewrite(x, loff, boff, poff, callee_def) for x in node["p"]]}
            return out
        out = {}
        for k, v in node.items():
            if k == "index" and isinstance(v, int):
                out[k] = v + loff
            elif k == "promoted" and isinstance(v, int) and node.get("uneval") == callee_def:
                out[k] = v + poff
            else:
                out[k] = _rewrite(v, loff, boff, poff, callee_def)
        return out
    if isinstance(node, list):
        return [_rewrite(x, loff, boff, poff, callee_def) for x in node]
    return node


_BLOCK_KEYS = ("target", "unwind", "otherwise", "resume", "drop", "imaginary")


def _shift_blocks(term, boff):
    if term is None:
        return None
    t = dict(term)
    for k in _BLOCK_KEYS:
        if isinstance(t.get(k), int):
            t[k] = t[k] + boff
    if "targets" in t:
        t["targets"] = [[v, b + boff] for v, b in t["targets"]]
    return t


def simplify(o):
    """normalise an origin expression: `Variant{x} as Variant.0` -> x (a value built as a variant and taken apart again),
    `(a, b).1` -> b; works on the frozen (tuple) form used in decision rows as well"""
    if not isinstance(o, (tuple, list)) or not o:
        return o
    if isinstance(o, list):
        return [simplify(x) for x in o]
    o = tuple(simplify(x) if isinstance(x, (tuple, list)) else x for x in o)
    if o[0] == "downcast" and isinstance(o[1], tuple) and o[1] and o[1][0] == "agg" and o[1][1][0] == "adt" and o[1][1][2] == o[2]:
        return o[1]
    if o[0] == "field" and isinstance(o[1], tuple) and o[1] and o[1][0] == "agg" and o[1][1][0] in ("adt", "tuple") and isinstance(o[2], int) and o[2] < len(o[1][2]):
        return o[1][2][o[2]]
    # `Ok(x)?` / `Some(x)?` on a literal: the payload
    if o[0] == "field" and o[2] == 0 and isinstance(o[1], tuple) and o[1] and o[1][0] == "downcast" and o[1][3] == "Continue":
        x = o[1][1]
        if isinstance(x, tuple) and x and x[0] == "call" and (x[1] or "").endswith("ops::try_trait::Try::branch") and len(x[3]) == 1:
            a = x[3][0]
            if isinstance(a, tuple) and a and a[0] == "agg" and a[1][0] == "adt" and a[1][3] in ("Ok", "Some") and len(a[2]) == 1:
                return a[2][0]
    return o


def inline_calls(body, want, depth=2):
    """new Body in which every call whose resolved callee satisfies want(def path) and has a (non-coroutine) body in the
    fact base is replaced by the callee's blocks.  Used so that extracting part of a function into a private helper does
    not hide the helper's statements from path rules."""
    mir = body.mir
    raw = body.raw
    changed = False
    for _ in range(depth):
        blocks = [dict(b, stmts=list(b["stmts"])) for b in raw["blocks"]]
        locals_ = list(raw["locals"])
        promoted = list(raw.get("promoted") or [])
        did = False
        for bi in range(len(blocks)):
            t = blocks[bi]["term"]
            if not t or t["k"] != "call":
                continue
            d, rd, ga, fn = callee(t)
            name = rd or d
            if not name or not want(name) or name == body.name.split("#")[0]:
                continue
            cb = mir.bodies.get(name)
            if cb is None or cb.get("coroutine") or t.get("target") is None:
                continue
            if len(cb["blocks"]) == 1 and any(st["k"] == "assign" and st["rv"]["k"] == "agg" and st["rv"].get("agg") == "coroutine" for st in cb["blocks"][0]["stmts"]):
                continue          # the shell of an `async fn`: see inline_async
            loff, boff, poff = len(locals_), len(blocks), len(promoted)
            locals_.extend(cb["locals"])
            promoted.extend(cb.get("promoted") or [])
            new_blocks = []
            for cblk in cb["blocks"]:
                nb = {"stmts": _rewrite(cblk["stmts"], loff, boff, poff, name), "cleanup": cblk.get("cleanup", False),
                      "term": _shift_blocks(_rewrite(cblk["term"], loff, boff, poff, name), boff)}
                if nb["term"] and nb["term"]["k"] == "return":
                    nb["stmts"] = nb["stmts"] + [{"k": "assign", "place": t["dest"], "rv": {"k": "use", "x": {"move": {"l": loff, "p": []}}},
                                                  "line": t.get("line"), "exp": False, "inlined_return": name}]
                    nb["term"] = {"k": "goto", "target": t["target"], "line": t.get("line")}
                new_blocks.append(nb)
            pre = blocks[bi]
            call_args = list(t["args"])
            argc = cb.get("argc")
            if "{closure" in name and re.search(r"ops::function::Fn(Mut|Once)?::call(_mut|_once)?$", d or "") and len(call_args) == 2 and argc is not None:
                # rust-call ABI: the closure body takes the elements of the argument tuple as separate arguments
                tup = call_args[1]
                tp = tup.get("move") or tup.get("copy")
                if tp is None:
                    continue
                call_args = [call_args[0]] + [{"copy": {"l": tp["l"], "p": list(tp["p"]) + [{"f": i, "name": str(i), "ty": cb["locals"][2 + i]["ty"]}]}} for i in range(argc - 1)]
            for i, a in enumerate(call_args):
                pre["stmts"].append({"k": "assign", "place": {"l": loff + 1 + i, "p": []}, "rv": {"k": "use", "x": a}, "line": t.get("line"), "exp": False,
                                     "inlined_arg": name})
            pre["term"] = {"k": "goto", "target": boff, "line": t.get("line"), "inlined_call": name}
            blocks.extend(new_blocks)
            did = True
        if not did:
            break
        changed = True
        raw = dict(raw, blocks=blocks, locals=locals_, promoted=promoted)
    if not changed:
        return body
    return Body(body.name + "#inlined", raw, mir)


def _subst_upvars(node, self_local, upmap):
    """rewrite places `(_self.k).rest` to `(_u_k).rest` in an (already local-shifted) MIR JSON fragment"""
    if isinstance(node, dict):
        if "l" in node and "p" in node and isinstance(node.get("p"), list):
            p = node["p"]
            if node["l"] == self_local and p and isinstance(p[0], dict) and "f" in p[0] and p[0]["f"] in upmap:
                return {"l": upmap[p[0]["f"]], "p": [_subst_upvars(x, self_local, upmap) for x in p[1:]]}
            return {"l": node["l"], "p": [_subst_upvars(x, self_local, upmap) for x in p]}
        return {k: _subst_upvars(v, self_local, upmap) for k, v in node.items()}
    if isinstance(node, list):
        return [_subst_upvars(x, self_local, upmap) for x in node]
    return node


def inline_async(body, want, depth=2):
    """Like inline_calls, for `async fn` helpers inside the pre-transform MIR of a coroutine: `helper(args).await` is a call
    that builds the helper's coroutine, into_future, and a poll loop.  The Future::poll call on that coroutine is replaced by
    the helper's own (pre-transform) coroutine body: its captured arguments become copies of the call's arguments, its
    `return` becomes `poll result = Poll::Ready(value)` followed by the Ready arm of the caller's match, and its own awaits
    (Yield terminators) stay suspension points of the combined body."""
    mir = body.mir
    raw = body.raw
    if not raw.get("coroutine"):
        return body
    changed = False
    for _ in range(depth):
        cur = Body(body.name + "#tmp", raw, mir)
        blocks = [dict(b, stmts=list(b["stmts"])) for b in raw["blocks"]]
        locals_ = list(raw["locals"])
        promoted = list(raw.get("promoted") or [])
        did = False
        for bi in range(len(raw["blocks"])):
            t = raw["blocks"][bi]["term"]
            if not t or t["k"] != "call":
                continue
            d, rd, ga, fn = callee(t)
            name = rd or d
            if not name or not want(name):
                continue
            shell = mir.bodies.get(name)
            if shell is None or shell.get("coroutine") or len(shell["blocks"]) != 1:
                continue
            made = [st for st in shell["blocks"][0]["stmts"] if st["k"] == "assign" and st["rv"]["k"] == "agg" and st["rv"].get("agg") == "coroutine"]
            if len(made) != 1:
                continue
            cdef = made[0]["rv"].get("def")
            cb = mir.bodies.get("%s#promoted" % cdef)
            if cb is None or not cb.get("coroutine"):
                continue
            # upvar k of the coroutine <- operand k of the aggregate, which is the async fn's own parameter (local k+1)
            ops = made[0]["rv"]["ops"]
            upsrc = {}
            for k, opnd in enumerate(ops):
                pl = opnd.get("move") or opnd.get("copy")
                if pl is None or pl["p"] or not (1 <= pl["l"] <= shell["argc"]):
                    upsrc = None
                    break
                upsrc[k] = pl["l"] - 1          # index into the call's argument list
            if upsrc is None:
                continue
            # the poll of that coroutine
            polls = []
            for pb, pt in cur.calls_to(r"future::Future::poll$"):
                o = cur.origin(pt["args"][0])
                # the future being polled must BE the coroutine built at bi (pinned / into_future'd), not merely derive from it
                for _peel in range(8):
                    if o[0] in ("ref", "deref"):
                        o = o[1]
                    elif o[0] == "call" and re.search(r"Pin::<Ptr>::(new_unchecked|new|as_mut)$|IntoFuture::into_future$|DerefMut::deref_mut$", o[1] or "") and o[3]:
                        o = o[3][0]
                    else:
                        break
                if o[0] == "call" and o[4] == bi:
                    polls.append((pb, pt))
            if len(polls) != 1 or polls[0][1].get("target") is None:
                continue
            pb, pt = polls[0]
            loff, boff, poff = len(locals_), len(blocks), len(promoted)
            locals_.extend(cb["locals"])
            promoted.extend(cb.get("promoted") or [])
            upmap = {}
            for k in sorted(upsrc):
                upmap[k] = len(locals_)
                locals_.append({"ty": t.get("argtys", [None] * 8)[upsrc[k]] if upsrc[k] < len(t.get("argtys", [])) else "?", "name": None})
                blocks[bi]["stmts"].append({"k": "assign", "place": {"l": upmap[k], "p": []}, "rv": {"k": "use", "x": t["args"][upsrc[k]]}, "line": t.get("line"), "exp": False,
                                            "inlined_arg": name})
            # where the caller continues with a Ready value
            cont = pt["target"]
            tb = raw["blocks"][cont]
            if tb["term"] and tb["term"]["k"] == "switch":
                dis = [st for st in tb["stmts"] if st["k"] == "assign" and st["rv"]["k"] == "discr" and st["rv"]["place"] == pt["dest"]]
                ready = [b2 for v, b2 in tb["term"]["targets"] if str(v) == "0"]
                if dis and ready:
                    cont = ready[0]
            for cblk in cb["blocks"]:
                stmts = _subst_upvars(_rewrite(cblk["stmts"], loff, boff, poff, cdef), loff + 1, upmap)
                term = _subst_upvars(_shift_blocks(_rewrite(cblk["term"], loff, boff, poff, cdef), boff), loff + 1, upmap)
                if term and term["k"] == "return":
                    stmts = stmts + [{"k": "assign", "place": pt["dest"],
                                      "rv": {"k": "agg", "agg": "adt", "adt": "core::task::poll::Poll", "variant": 0, "vname": "Ready", "fields": ["0"], "gargs": [], "union_field": None,
                                             "ops": [{"move": {"l": loff, "p": []}}]}, "line": pt.get("line"), "exp": False, "inlined_return": name}]
                    term = {"k": "goto", "target": cont, "line": pt.get("line")}
                elif term and term["k"] == "coroutine_drop":
                    term = {"k": "goto", "target": boff + len(cb["blocks"]), "line": pt.get("line")}      # joins a synthetic drop exit
                blocks.append({"stmts": stmts, "term": term, "cleanup": cblk.get("cleanup", False)})
            blocks.append({"stmts": [], "term": {"k": "coroutine_drop", "line": pt.get("line")}, "cleanup": False})
            # the resume argument (task context) of the helper is the caller's
            blocks[pb] = dict(blocks[pb], stmts=list(blocks[pb]["stmts"]) + [
                {"k": "assign", "place": {"l": loff + 2, "p": []}, "rv": {"k": "use", "x": {"copy": {"l": 2, "p": []}}}, "line": pt.get("line"), "exp": False, "inlined_arg": name}],
                term={"k": "goto", "target": boff, "line": pt.get("line"), "inlined_call": name})
            did = True
            raw = dict(raw, blocks=blocks, locals=locals_, promoted=promoted)
            break            # block indices changed: rescan
        if not did:
            break
        changed = True
    if not changed:
        return body
    return Body(body.name.replace("#tmp", "") + "#inlined", raw, mir)


def _subst_env(node, env_local, upmap):
    """rewrite closure-environment places `(_1.k).rest` / `((*_1).k).rest` to `(_u_k).rest`"""
    if isinstance(node, dict):
        if "l" in node and "p" in node and isinstance(node.get("p"), list):
            p = node["p"]
            if node["l"] == env_local and p:
                q = p[1:] if p[0] == "deref" else p
                if q and isinstance(q[0], dict) and "f" in q[0] and q[0]["f"] in upmap:
                    return {"l": upmap[q[0]["f"]], "p": [_subst_env(x, env_local, upmap) for x in q[1:]]}
            return {"l": node["l"], "p": [_subst_env(x, env_local, upmap) for x in p]}
        return {k: _subst_env(v, env_local, upmap) for k, v in node.items()}
    if isinstance(node, list):
        return [_subst_env(x, env_local, upmap) for x in node]
    return node


def _agg(adt, variant, vname, ops):
    return {"k": "agg", "agg": "adt", "adt": adt, "variant": variant, "vname": vname, "fields": [str(i) for i in range(len(ops))], "gargs": [], "union_field": None, "ops": ops}


OPT, RES = "core::option::Option", "core::result::Result"
# adaptor -> (receiver kind, arms): arms maps a receiver variant (or 'true'/'false') to what the result is:
#   ('same',)            the receiver unchanged            ('payload',)        the receiver's payload
#   ('wrap', adt, i, n, X) variant (i, n) of adt around X, X in {'payload', 'call', 'none'}
#   ('call',)            the closure's result             ('arg', k)          operand k of the adaptor call
_ADAPT = [
    (r"Option::<T>::map$", "opt", 1, {"None": ("wrap", OPT, 0, "None", "none"), "Some": ("wrap", OPT, 1, "Some", "call")}),
    (r"Option::<T>::and_then$", "opt", 1, {"None": ("wrap", OPT, 0, "None", "none"), "Some": ("call",)}),
    (r"Option::<T>::map_or$", "opt", 2, {"None": ("arg", 1), "Some": ("call",)}),
    (r"Option::<T>::unwrap_or_else$", "opt", 1, {"None": ("call0",), "Some": ("payload",)}),
    (r"Option::<T>::ok_or_else$", "opt", 1, {"None": ("wrap", RES, 1, "Err", "call0"), "Some": ("wrap", RES, 0, "Ok", "payload")}),
    (r"Option::<T>::filter$", None, 1, None),
    (r"Result::<T, E>::map$", "res", 1, {"Ok": ("wrap", RES, 0, "Ok", "call"), "Err": ("wrap", RES, 1, "Err", "payload")}),
    (r"Result::<T, E>::map_err$", "res", 1, {"Ok": ("wrap", RES, 0, "Ok", "payload"), "Err": ("wrap", RES, 1, "Err", "call")}),
    (r"Result::<T, E>::and_then$", "res", 1, {"Ok": ("call",), "Err": ("wrap", RES, 1, "Err", "payload")}),
    (r"cmp::Ordering::then_with$", "ord", 1, {"Equal": ("call0",), "other": ("same",)}),
    (r"<impl bool>::then$|bool::then$", "bool", 1, {"false": ("wrap", OPT, 0, "None", "none"), "true": ("wrap", OPT, 1, "Some", "call0")}),
]


def expand_adaptors(body, depth=3, values=False):
    """New Body in which calls to the closure-taking Option / Result / bool adaptors (map, and_then, map_or, unwrap_or_else,
    ok_or_else, map_err, then) whose closure is a literal of this function, and `transpose`, are replaced by the match they
    stand for, with the closure's body spliced in.  `x.map(|n| f(n))` and `match x { Some(n) => Some(f(n)), None => None }`
    then have the same control-flow graph, so path, dominance and provenance rules see through combinator style."""
    mir = body.mir
    raw = body.raw
    changed = False
    for _ in range(depth * 4):
        blocks = [dict(b, stmts=list(b["stmts"])) for b in raw["blocks"]]
        locals_ = list(raw["locals"])
        promoted = list(raw.get("promoted") or [])
        did = False
        for bi in range(len(blocks)):
            t = blocks[bi]["term"]
            if not t or t["k"] != "call" or t.get("target") is None or not t["args"]:
                continue
            d, rd, ga, fn = callee(t)
            name = d or ""
            recv = t["args"][0].get("move") or t["args"][0].get("copy")
            if recv is None or recv["p"]:
                continue
            aty = (t.get("argtys") or [""])[0]
            line = t.get("line")

            def new_local(ty):
                locals_.append({"ty": ty, "name": None})
                return len(locals_) - 1

            def payload(vidx, vname):
                return {"move": {"l": recv["l"], "p": [{"downcast": vidx, "name": vname}, {"f": 0, "name": "0", "ty": "?"}]}}

            def assign(place, rv):
                return {"k": "assign", "place": place, "rv": rv, "line": line, "exp": False, "expanded": name}
            arms = None
            kind = None
            clo_idx = None
            if values and re.search(r"Option::<T>::unwrap_or$|Result::<T, E>::unwrap_or$", name) and (aty.startswith(OPT) or aty.startswith(RES)) and len(t["args"]) == 2:
                # the payload when there is one, the given value otherwise
                is_opt = aty.startswith(OPT)
                dl = new_local("isize")
                b_dflt, b_val, b_unr = len(blocks), len(blocks) + 1, len(blocks) + 2
                dest, target = t["dest"], t["target"]
                blocks[bi]["stmts"].append(assign({"l": dl, "p": []}, {"k": "discr", "place": {"l": recv["l"], "p": []}, "of": aty}))
                tg = [["0", b_dflt], ["1", b_val]] if is_opt else [["0", b_val], ["1", b_dflt]]
                blocks[bi]["term"] = {"k": "switch", "discr": {"move": {"l": dl, "p": []}}, "dty": "isize", "targets": tg, "otherwise": b_unr, "line": line, "exp": False}
                blocks.append({"stmts": [assign(dest, {"k": "use", "x": t["args"][1]})], "term": {"k": "goto", "target": target, "line": line}, "cleanup": False})
                blocks.append({"stmts": [assign(dest, {"k": "use", "x": payload(1, "Some") if is_opt else payload(0, "Ok")})], "term": {"k": "goto", "target": target, "line": line}, "cleanup": False})
                blocks.append({"stmts": [], "term": {"k": "unreachable", "line": line}, "cleanup": False})
                did = True
                break
            if re.search(r"Option::<T>::ok_or$", name) and aty.startswith(OPT) and len(t["args"]) == 2:
                # Option<T> -> Result<T, E> with an already built error value
                dl = new_local("isize")
                b_none, b_some, b_unr = len(blocks), len(blocks) + 1, len(blocks) + 2
                dest, target = t["dest"], t["target"]
                blocks[bi]["stmts"].append(assign({"l": dl, "p": []}, {"k": "discr", "place": {"l": recv["l"], "p": []}, "of": aty}))
                blocks[bi]["term"] = {"k": "switch", "discr": {"move": {"l": dl, "p": []}}, "dty": "isize", "targets": [["0", b_none], ["1", b_some]], "otherwise": b_unr, "line": line, "exp": False}
                blocks.append({"stmts": [assign(dest, _agg(RES, 1, "Err", [t["args"][1]]))], "term": {"k": "goto", "target": target, "line": line}, "cleanup": False})
                blocks.append({"stmts": [assign(dest, _agg(RES, 0, "Ok", [payload(1, "Some")]))], "term": {"k": "goto", "target": target, "line": line}, "cleanup": False})
                blocks.append({"stmts": [], "term": {"k": "unreachable", "line": line}, "cleanup": False})
                did = True
                break
            if re.search(r"Result::<T, E>::(ok|err)$", name) and aty.startswith(RES):
                # Result<T, E> -> Option<T> (ok) / Option<E> (err): a two-arm match without a closure
                which = name.rsplit("::", 1)[1]
                dl = new_local("isize")
                b_ok, b_err, b_unr = len(blocks), len(blocks) + 1, len(blocks) + 2
                dest, target = t["dest"], t["target"]
                blocks[bi]["stmts"].append(assign({"l": dl, "p": []}, {"k": "discr", "place": {"l": recv["l"], "p": []}, "of": aty}))
                blocks[bi]["term"] = {"k": "switch", "discr": {"move": {"l": dl, "p": []}}, "dty": "isize", "targets": [["0", b_ok], ["1", b_err]], "otherwise": b_unr, "line": line, "exp": False}
                some_ok = assign(dest, _agg(OPT, 1, "Some", [payload(0, "Ok")]))
                some_err = assign(dest, _agg(OPT, 1, "Some", [payload(1, "Err")]))
                none = assign(dest, _agg(OPT, 0, "None", []))
                blocks.append({"stmts": [some_ok if which == "ok" else none], "term": {"k": "goto", "target": target, "line": line}, "cleanup": False})
                blocks.append({"stmts": [none if which == "ok" else some_err], "term": {"k": "goto", "target": target, "line": line}, "cleanup": False})
                blocks.append({"stmts": [], "term": {"k": "unreachable", "line": line}, "cleanup": False})
                did = True
                break
            if name.endswith("::transpose") and aty.startswith(OPT):
                # Option<Result<T, E>> -> Result<Option<T>, E>
                kind = "transpose_opt"
            elif name.endswith("::transpose") and aty.startswith(RES):
                kind = "transpose_res"
            else:
                for rx, k, ci, am in _ADAPT:
                    if re.search(rx, name) and am is not None:
                        kind, clo_idx, arms = k, ci, am
                        break
            if kind is None:
                continue
            dest, target = t["dest"], t["target"]
            if kind in ("transpose_opt", "transpose_res"):
                dl = new_local("isize")
                d2 = new_local("isize")
                inner = new_local("?")
                b_none, b_some, b_ok, b_err, b_unr = len(blocks), len(blocks) + 1, len(blocks) + 2, len(blocks) + 3, len(blocks) + 4
                tmp = new_local("?")
                if kind == "transpose_opt":
                    # None -> Ok(None); Some(Ok(v)) -> Ok(Some(v)); Some(Err(e)) -> Err(e)
                    blocks[bi]["stmts"].append(assign({"l": dl, "p": []}, {"k": "discr", "place": {"l": recv["l"], "p": []}, "of": aty}))
                    blocks[bi]["term"] = {"k": "switch", "discr": {"move": {"l": dl, "p": []}}, "dty": "isize", "targets": [["0", b_none], ["1", b_some]], "otherwise": b_unr, "line": line, "exp": False}
                    blocks.append({"stmts": [assign({"l": tmp, "p": []}, _agg(OPT, 0, "None", [])), assign(dest, _agg(RES, 0, "Ok", [{"move": {"l": tmp, "p": []}}]))],
                                   "term": {"k": "goto", "target": target, "line": line}, "cleanup": False})
                    blocks.append({"stmts": [assign({"l": inner, "p": []}, {"k": "use", "x": payload(1, "Some")}),
                                             assign({"l": d2, "p": []}, {"k": "discr", "place": {"l": inner, "p": []}, "of": "core::result::Result<?, ?>"})],
                                   "term": {"k": "switch", "discr": {"move": {"l": d2, "p": []}}, "dty": "isize", "targets": [["0", b_ok], ["1", b_err]], "otherwise": b_unr, "line": line, "exp": False},
                                   "cleanup": False})
                    blocks.append({"stmts": [assign({"l": tmp, "p": []}, _agg(OPT, 1, "Some", [{"move": {"l": inner, "p": [{"downcast": 0, "name": "Ok"}, {"f": 0, "name": "0", "ty": "?"}]}}])),
                                             assign(dest, _agg(RES, 0, "Ok", [{"move": {"l": tmp, "p": []}}]))], "term": {"k": "goto", "target": target, "line": line}, "cleanup": False})
                    blocks.append({"stmts": [assign(dest, _agg(RES, 1, "Err", [{"move": {"l": inner, "p": [{"downcast": 1, "name": "Err"}, {"f": 0, "name": "0", "ty": "?"}]}}]))],
                                   "term": {"k": "goto", "target": target, "line": line}, "cleanup": False})
                else:
                    # Ok(None) -> None; Ok(Some(v)) -> Some(Ok(v)); Err(e) -> Some(Err(e))
                    blocks[bi]["stmts"].append(assign({"l": dl, "p": []}, {"k": "discr", "place": {"l": recv["l"], "p": []}, "of": aty}))
                    blocks[bi]["term"] = {"k": "switch", "discr": {"move": {"l": dl, "p": []}}, "dty": "isize", "targets": [["0", b_some], ["1", b_none]], "otherwise": b_unr, "line": line, "exp": False}
                    blocks.append({"stmts": [assign({"l": tmp, "p": []}, _agg(RES, 1, "Err", [payload(1, "Err")])), assign(dest, _agg(OPT, 1, "Some", [{"move": {"l": tmp, "p": []}}]))],
                                   "term": {"k": "goto", "target": target, "line": line}, "cleanup": False})
                    blocks.append({"stmts": [assign({"l": inner, "p": []}, {"k": "use", "x": payload(0, "Ok")}),
                                             assign({"l": d2, "p": []}, {"k": "discr", "place": {"l": inner, "p": []}, "of": "core::option::Option<?>"})],
                                   "term": {"k": "switch", "discr": {"move": {"l": d2, "p": []}}, "dty": "isize", "targets": [["1", b_ok], ["0", b_err]], "otherwise": b_unr, "line": line, "exp": False},
                                   "cleanup": False})
                    blocks.append({"stmts": [assign({"l": tmp, "p": []}, _agg(RES, 0, "Ok", [{"move": {"l": inner, "p": [{"downcast": 1, "name": "Some"}, {"f": 0, "name": "0", "ty": "?"}]}}])),
                                             assign(dest, _agg(OPT, 1, "Some", [{"move": {"l": tmp, "p": []}}]))], "term": {"k": "goto", "target": target, "line": line}, "cleanup": False})
                    blocks.append({"stmts": [assign(dest, _agg(OPT, 0, "None", []))], "term": {"k": "goto", "target": target, "line": line}, "cleanup": False})
                blocks.append({"stmts": [], "term": {"k": "unreachable", "line": line}, "cleanup": False})
                did = True
                break
            # closure-taking adaptors: the closure must be a literal built in this function
            if clo_idx >= len(t["args"]):
                continue
            cop = t["args"][clo_idx].get("move") or t["args"][clo_idx].get("copy")
            if cop is None or cop["p"]:
                continue
            mk = None
            for bl in raw["blocks"]:
                for st in bl["stmts"]:
                    if st["k"] == "assign" and st["place"] == {"l": cop["l"], "p": []} and st["rv"]["k"] == "agg" and st["rv"].get("agg") == "closure":
                        mk = st
            if mk is None:
                continue
            cname = mk["rv"].get("def")
            cb = mir.bodies.get(cname)
            if cb is None or cb.get("coroutine"):
                continue
            variants = {"opt": [("None", 0), ("Some", 1)], "res": [("Ok", 0), ("Err", 1)], "bool": [("false", 0), ("true", 1)], "ord": [("Equal", 0), ("other", None)]}[kind]
            dl = new_local("isize")
            first_new = len(blocks)
            unr = None
            entry = {}
            for vn, vi in variants:
                arm = arms[vn]
                uses_call = arm[0] in ("call", "call0") or (arm[0] == "wrap" and arm[4] in ("call", "call0"))
                with_param = arm[0] == "call" or (arm[0] == "wrap" and arm[4] == "call")
                stmts = []
                if not uses_call:
                    if arm[0] == "same":
                        stmts.append(assign(dest, {"k": "use", "x": {"move": {"l": recv["l"], "p": []}}}))
                    elif arm[0] == "payload":
                        stmts.append(assign(dest, {"k": "use", "x": payload(vi, vn)}))
                    elif arm[0] == "arg":
                        stmts.append(assign(dest, {"k": "use", "x": t["args"][arm[1]]}))
                    elif arm[0] == "wrap":
                        ops = [] if arm[4] == "none" else [payload(vi, vn)]
                        stmts.append(assign(dest, _agg(arm[1], arm[2], arm[3], ops)))
                    entry[vn] = len(blocks)
                    blocks.append({"stmts": stmts, "term": {"k": "goto", "target": target, "line": line}, "cleanup": False})
                    continue
                # splice the closure body
                loff, poff = len(locals_), len(promoted)
                locals_.extend(cb["locals"])
                promoted.extend(cb.get("promoted") or [])
                upmap = {}
                pre = []
                for k, opnd in enumerate(mk["rv"]["ops"]):
                    upmap[k] = new_local("?")
                    pre.append(assign({"l": upmap[k], "p": []}, {"k": "use", "x": opnd}))
                if with_param and cb["argc"] >= 2:
                    pre.append(assign({"l": loff + 2, "p": []}, {"k": "use", "x": payload(vi, vn)}))
                entry[vn] = len(blocks)
                boff = len(blocks) + 1
                blocks.append({"stmts": pre, "term": {"k": "goto", "target": boff, "line": line, "inlined_call": cname}, "cleanup": False})
                for cblk in cb["blocks"]:
                    st2 = _subst_env(_rewrite(cblk["stmts"], loff, boff, poff, cname), loff + 1, upmap)
                    tm2 = _subst_env(_shift_blocks(_rewrite(cblk["term"], loff, boff, poff, cname), boff), loff + 1, upmap)
                    if tm2 and tm2["k"] == "return":
                        r = {"move": {"l": loff, "p": []}}
                        if arm[0] in ("call", "call0"):
                            st2 = st2 + [dict(assign(dest, {"k": "use", "x": r}), inlined_return=cname)]
                        else:
                            st2 = st2 + [assign(dest, _agg(arm[1], arm[2], arm[3], [r]))]
                        tm2 = {"k": "goto", "target": target, "line": line}
                    blocks.append({"stmts": st2, "term": tm2, "cleanup": cblk.get("cleanup", False)})
            unr = len(blocks)
            blocks.append({"stmts": [], "term": {"k": "unreachable", "line": line}, "cleanup": False})
            if kind == "bool":
                blocks[bi]["term"] = {"k": "switch", "discr": {"copy": {"l": recv["l"], "p": []}}, "dty": "bool", "targets": [["0", entry["false"]]], "otherwise": entry["true"], "line": line, "exp": False}
            elif kind == "ord":
                blocks[bi]["stmts"].append(assign({"l": dl, "p": []}, {"k": "discr", "place": {"l": recv["l"], "p": []}, "of": aty}))
                blocks[bi]["term"] = {"k": "switch", "discr": {"move": {"l": dl, "p": []}}, "dty": "i8", "targets": [["0", entry["Equal"]]], "otherwise": entry["other"], "line": line, "exp": False}
            else:
                blocks[bi]["stmts"].append(assign({"l": dl, "p": []}, {"k": "discr", "place": {"l": recv["l"], "p": []}, "of": aty}))
                blocks[bi]["term"] = {"k": "switch", "discr": {"move": {"l": dl, "p": []}}, "dty": "isize",
                                      "targets": [[str(vi), entry[vn]] for vn, vi in variants], "otherwise": unr, "line": line, "exp": False}
            did = True
            break          # indices changed: rescan
        if not did:
            break
        changed = True
        raw = dict(raw, blocks=blocks, locals=locals_, promoted=promoted)
    if not changed:
        return body
    return Body(body.name.split("#expanded")[0] + "#expanded", raw, mir)


# ---------------------------------------------------------------------------- variant-sensitive reachability
# A small path-sensitive dataflow over "which enum variant does this local hold": facts are learned from aggregates,
# from_residual / Try::branch / Option::as_ref results and from taking a SwitchInt edge on a discriminant; they prune
# later switches on the same value.  Used so that a helper's `return Ok(None)` is not confused with `Ok(Some(..))`
# after the helper has been inlined.  State space is (block, facts, passed-via flag), explored breadth first with a cap.

class VariantReach:
    MAXSTATES = 60000

    def __init__(self, body):
        self.b = body

    # facts: dict local -> nested fact ('v', variant index, {field index: fact})
    @staticmethod
    def _freeze(f):
        if f is None:
            return None
        return ("v", f[1], tuple(sorted((k, VariantReach._freeze(v)) for k, v in f[2].items())))

    @staticmethod
    def _key(facts):
        return tuple(sorted((l, VariantReach._freeze(f)) for l, f in facts.items()))

    def _fact_of_place(self, facts, p):
        """fact of a place: local, optionally through (downcast v).field i projections"""
        f = facts.get(p["l"])
        proj = [x for x in p["p"] if x != "deref"]
        i = 0
        while i < len(proj):
            x = proj[i]
            if isinstance(x, dict) and "downcast" in x:
                if f is None or f[1] != x["downcast"]:
                    return None
                i += 1
                continue
            if isinstance(x, dict) and "f" in x:
                if f is None:
                    return None
                f = f[2].get(x["f"])
                i += 1
                continue
            return None
        return f

    def _op_fact(self, facts, op):
        p = op.get("copy") or op.get("move")
        if p is None:
            return None
        return self._fact_of_place(facts, p)

    def _step_block(self, bb, facts, alias, dvals):
        b = self.b
        bl = b.blocks[bb]
        for st in bl["stmts"]:
            if st["k"] != "assign":
                continue
            pl = st["place"]
            rv = st["rv"]
            if pl["p"]:
                # partial write invalidates the base
                facts.pop(pl["l"], None)
                continue
            l = pl["l"]
            facts.pop(l, None)
            alias.pop(l, None)
            dvals.pop(l, None)
            k = rv["k"]
            if k == "agg" and rv["agg"] == "adt":
                sub = {}
                for i, o in enumerate(rv["ops"]):
                    f = self._op_fact(facts, o)
                    if f is not None:
                        sub[i] = f
                facts[l] = ("v", rv["variant"], sub)
            elif k == "use":
                c = rv["x"].get("const") if isinstance(rv["x"], dict) else None
                if c is not None and c.get("val") is not None:
                    # a constant bool / integer (e.g. a helper's `return false`): a later switch on it takes one edge only
                    try:
                        dvals[l] = ("known", int(c["val"]))
                    except (TypeError, ValueError):
                        pass
                f = self._op_fact(facts, rv["x"])
                if f is not None:
                    facts[l] = f
                p = rv["x"].get("copy") or rv["x"].get("move")
                if p is not None and not [x for x in p["p"] if x != "deref"]:
                    alias[l] = p["l"]
                if p is not None and not p["p"] and p["l"] in dvals:
                    dvals[l] = dvals[p["l"]]
            elif k == "ref":
                p = rv["place"]
                if not [x for x in p["p"] if x != "deref"]:
                    alias[l] = p["l"]
                    if p["l"] in facts:
                        facts[l] = facts[p["l"]]
            elif k == "discr":
                p = rv["place"]
                f = self._fact_of_place(facts, p)
                if f is not None:
                    dvals[l] = ("known", f[1])
                else:
                    base = p["l"]
                    if not [x for x in p["p"] if x != "deref"]:
                        dvals[l] = ("of", base)
        t = bl["term"]
        if t and t["k"] == "call":
            d, rd, ga, fn = callee(t)
            dest = t["dest"]
            if not dest["p"]:
                l = dest["l"]
                facts.pop(l, None)
                alias.pop(l, None)
                dvals.pop(l, None)
                name = d or ""
                if name.endswith("FromResidual::from_residual"):
                    # Result / Option residuals: always the failure variant (Err = 1 / None = 0); Poll<Result> not modelled
                    ty = t.get("dty") or ""
                    if ty.startswith("core::result::Result"):
                        facts[l] = ("v", 1, {})
                    elif ty.startswith("core::option::Option"):
                        facts[l] = ("v", 0, {})
                elif name.endswith("Try::branch") and t["args"]:
                    f = self._op_fact(facts, t["args"][0])
                    aty = (t.get("argtys") or [""])[0]
                    if f is not None and aty.startswith("core::result::Result"):
                        # Ok(x) -> Continue(x) (0), Err(e) -> Break(Err(e)) (1)
                        facts[l] = ("v", 0, {0: f[2][0]} if 0 in f[2] else {}) if f[1] == 0 else ("v", 1, {})
                    elif f is not None and aty.startswith("core::option::Option"):
                        facts[l] = ("v", 0, {0: f[2][0]} if 0 in f[2] else {}) if f[1] == 1 else ("v", 1, {})
                elif re.search(r"Option::<T>::(as_ref|as_mut|as_deref)$", name) and t["args"]:
                    p = t["args"][0].get("copy") or t["args"][0].get("move")
                    f = self._op_fact(facts, t["args"][0])
                    if f is not None:
                        facts[l] = ("v", f[1], {})
                    if p is not None and not p["p"]:
                        alias[l] = p["l"]
            # a call taking &mut x may change x
            for a, ty in zip(t["args"], t.get("argtys") or []):
                if ty.startswith("&mut"):
                    p = a.get("copy") or a.get("move")
                    if p is not None and not p["p"]:
                        tgt = alias.get(p["l"])
                        if tgt is not None:
                            facts.pop(tgt, None)
        return t

    def _learn(self, facts, alias, local, variant):
        seen = set()
        while local is not None and local not in seen:
            seen.add(local)
            old = facts.get(local)
            if old is not None and old[1] != variant:
                return False
            if old is None:
                facts[local] = ("v", variant, {})
            local = alias.get(local)
        return True

    def explore(self, start=0, avoid_blocks=(), avoid_edges=(), via=None, avoid_after=()):
        """set of blocks reachable from `start` (facts empty); if via is given, the second result is the set of blocks
        reachable after having passed through block `via`"""
        b = self.b
        avoid_blocks = set(avoid_blocks)
        avoid_edges = set(avoid_edges)
        avoid_after = set(avoid_after)
        seen = set()
        reached, reached_via = set(), set()
        work = [(start, {}, {}, {}, via is None or start == via)]
        n = 0
        while work:
            bb, facts, alias, dvals, passed = work.pop()
            if bb in avoid_blocks or (passed and bb in avoid_after and bb != via):
                continue
            key = (bb, self._key(facts), tuple(sorted(alias.items())), tuple(sorted(dvals.items())), passed)
            if key in seen:
                continue
            seen.add(key)
            n += 1
            if n > self.MAXSTATES:
                raise Undecidable("variant-sensitive exploration of %s exceeds %d states" % (b.name, self.MAXSTATES))
            reached.add(bb)
            if passed:
                reached_via.add(bb)
            facts, alias, dvals = dict(facts), dict(alias), dict(dvals)
            t = self._step_block(bb, facts, alias, dvals)
            if t is None:
                continue
            succs = b.succs()[bb]
            if t["k"] == "switch":
                p = t["discr"].get("copy") or t["discr"].get("move")
                dv = dvals.get(p["l"]) if p is not None and not p["p"] else None
                tg = [(int(v), tb) for v, tb in t["targets"]]
                listed = [v for v, _ in tg]
                for s in set(succs):
                    if (bb, s) in avoid_edges:
                        continue
                    vals = [v for v, tb in tg if tb == s]
                    is_other = s == t["otherwise"]
                    f2, a2, d2 = facts, alias, dvals
                    if dv is not None and dv[0] == "known":
                        ok = (dv[1] in vals) or (is_other and dv[1] not in listed)
                        if not ok:
                            continue
                    elif dv is not None and dv[0] == "of":
                        if len(vals) == 1 and not (is_other and len(set(listed)) > 1):
                            f2 = dict(facts)
                            if not self._learn(f2, alias, dv[1], vals[0]):
                                continue
                        elif is_other and not vals:
                            # exactly one unlisted variant can be inferred only when the enum has two variants
                            if len(listed) == 1 and listed[0] in (0, 1):
                                f2 = dict(facts)
                                if not self._learn(f2, alias, dv[1], 1 - listed[0]):
                                    continue
                    nxt_passed = passed or (via is not None and s == via)
                    work.append((s, f2, a2, d2, nxt_passed))
            else:
                for s in succs:
                    if (bb, s) in avoid_edges:
                        continue
                    work.append((s, facts, alias, dvals, passed or (via is not None and s == via)))
        return reached, reached_via
