#!/bin/bash
# Independent confirmation of a sub-agent's seeded change in its scratch worktree /tmp/wt-<ID>:
#  1. existing suite passes with the change (demo moved out)   2. demo fails with the change   3. demo passes without it
# then copies patch.diff, the demo and meta.json to /verif/seeded/<ID>/ with a record of what was run.
ID=$1
WT=${WT:-/tmp/wt-$ID}
OUT=${OUT:-/verif/seeded/$ID}
set -u
cd $WT || exit 2
export CARGO_NET_OFFLINE=true
mkdir -p $OUT
DEMO=$(git status --porcelain | grep '^??' | awk '{print $2}' | grep -v '^_seed' | grep -v '^target' | head -5)
echo "untracked (demo) files: $DEMO"
# state: change applied + demo in place
git diff --quiet && { echo "no library change present"; exit 3; }
git diff > /tmp/confirm-$ID.diff
mkdir -p /tmp/confirm-$ID-demo
for f in $DEMO; do mkdir -p /tmp/confirm-$ID-demo/$(dirname $f); cp -r $f /tmp/confirm-$ID-demo/$f; rm -rf $f; done
echo "== 1. existing suite with the change"
cargo test --workspace --no-fail-fast --offline > /tmp/confirm-$ID-suite.log 2>&1; S1=$?
grep -E "^test result" /tmp/confirm-$ID-suite.log | head -6
for f in $DEMO; do mkdir -p $(dirname $f); cp -r /tmp/confirm-$ID-demo/$f $f; done
DEMOCMD=$(python3 -c "import json;print(json.load(open('_seed/meta.json')).get('demo_cmd',''))" 2>/dev/null)
[ -z "$DEMOCMD" ] && DEMOCMD="cargo test -p insim --test seed_demo --offline"
[ -n "${2:-}" ] && DEMOCMD="$2"
echo "== 2. demo with the change: $DEMOCMD"
bash -c "$DEMOCMD" > /tmp/confirm-$ID-with.log 2>&1; S2=$?
grep -E "^test result|panicked|FAILED" /tmp/confirm-$ID-with.log | head -5
git apply -R /tmp/confirm-$ID.diff
echo "== 3. demo without the change"
bash -c "$DEMOCMD" > /tmp/confirm-$ID-without.log 2>&1; S3=$?
grep -E "^test result|panicked|FAILED" /tmp/confirm-$ID-without.log | head -5
git apply /tmp/confirm-$ID.diff
echo "suite_with_change_exit=$S1 demo_with_change_exit=$S2 demo_without_change_exit=$S3"
if [ $S1 -eq 0 ] && [ $S2 -ne 0 ] && [ $S3 -eq 0 ]; then
  cp /tmp/confirm-$ID.diff $OUT/patch.diff
  for f in $DEMO; do cp -r $f $OUT/$(basename $f); done
  python3 - <<PY
import json
m=json.load(open('$WT/_seed/meta.json'))
m['confirmed_by_main']={'worktree':'$WT','existing_suite_with_change':'exit $S1 (all pass)','demo_with_change':'exit $S2 (fails)','demo_without_change':'exit $S3 (passes)','demo_cmd':'''$DEMOCMD''','demo_files':'''$DEMO'''.split()}
json.dump(m,open('$OUT/meta.json','w'),indent=1)
PY
  echo CONFIRMED
else
  echo NOT-CONFIRMED
fi
rm -rf /tmp/confirm-$ID-demo
