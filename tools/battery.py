#!/usr/bin/env python3
"""Run the whole corpus in parallel: every seeded change must be reported by at least one check, every neutral refactoring
by none.  Each item gets its own scratch copy of /repo's committed tree (outside /repo and /verif, removed afterwards) with the
patch applied; the checks are pointed at it with VERIF_REPO, their evidence goes to a scratch directory.  /repo itself is
never touched.  Usage: tools/battery.py [-j N] [-p C01,C04] [seeded|neutral|all] [id-suffix-filter...]   (-p: only these checks, merged into the record)"""
import json
import os
import shutil
import subprocess
import sys
import tempfile
from concurrent.futures import ThreadPoolExecutor

HERE = os.path.dirname(os.path.dirname(os.path.abspath(__file__)))
PROPS = ["C%02d" % i for i in range(1, 21)]


ONLY = []


def run_item(base, sid):
    tmp = tempfile.mkdtemp(prefix="verif-bat-")
    try:
        dst = os.path.join(tmp, "repo")
        os.makedirs(dst)
        ar = subprocess.run("git -C /repo archive HEAD | tar -x -C %s" % dst, shell=True)
        if ar.returncode != 0:
            return sid, None, "archive failed"
        subprocess.run(["git", "init", "-q"], cwd=dst)
        r = subprocess.run(["git", "apply", os.path.join(HERE, base, sid, "patch.diff")], cwd=dst, stdout=subprocess.PIPE, stderr=subprocess.STDOUT, text=True)
        if r.returncode != 0:
            return sid, None, "patch does not apply: " + r.stdout[:200]
        env = dict(os.environ, VERIF_REPO=dst, VERIF_EVIDENCE_DIR=os.path.join(tmp, "ev"), VERIF_FACTS_KEEP="48")
        res = {}
        # the first check extracts the facts; the others reuse them
        for p in (ONLY or PROPS):
            r = subprocess.run([os.path.join(HERE, "check"), p], stdout=subprocess.PIPE, stderr=subprocess.STDOUT, text=True, env=env)
            keys = [l.strip().split(" at ")[0] for l in r.stdout.splitlines() if l.startswith("  R") or l.startswith("  anchor")]
            res[p] = {"exit": r.returncode, "keys": keys[:6], "fatal": "FATAL" in r.stdout or r.returncode not in (0, 1)}
        out = os.path.join(HERE, base, sid, "detection.json")
        if ONLY and os.path.exists(out):
            old = json.load(open(out)).get("results", {})          # partial run: merge into the recorded results
            old.update(res)
            res = old
        fired = sorted(p for p, v in res.items() if v["exit"] != 0)
        json.dump({"seed": sid, "fired": fired, "results": res}, open(os.path.join(HERE, base, sid, "detection.json"), "w"), indent=1)
        return sid, fired, ""
    finally:
        shutil.rmtree(tmp, ignore_errors=True)


def main():
    args = sys.argv[1:]
    jobs = 5
    if args and args[0] == "-j":
        jobs = int(args[1])
        args = args[2:]
    if args and args[0] == "-p":
        ONLY.extend(args[1].split(","))
        args = args[2:]
    which = args[0] if args else "all"
    filt = args[1:]
    items = []
    for base in ("neutral", "seeded"):
        if which not in ("all", base):
            continue
        for sid in sorted(os.listdir(os.path.join(HERE, base))):
            if os.path.exists(os.path.join(HERE, base, sid, "patch.diff")) and (not filt or any(sid.endswith(f) or sid == f for f in filt)):
                items.append((base, sid))
    bad = 0
    with ThreadPoolExecutor(max_workers=jobs) as ex:
        for (base, sid), (sid2, fired, err) in zip(items, ex.map(lambda it: run_item(*it), items)):
            ok = fired is not None and ((base == "neutral" and not fired) or (base == "seeded" and fired))
            crashed = fired is not None and False
            print("%s %-5s %s %s %s" % ("N" if base == "neutral" else "S", sid, "ok  " if ok else "BAD ", fired, err), flush=True)
            bad += 0 if ok else 1
    print("battery: %d items, %d not as expected" % (len(items), bad))
    return 1 if bad else 0


if __name__ == "__main__":
    sys.exit(main())
