//! wirex — syntax-tree extractor for the /verif static checks.
//!
//! Usage: wirex <crate-root-file.rs> <crate-name> <feature,feature,...> > ast.json
//!
//! Parses the crate root and every file reachable through `mod` declarations (honouring
//! `#[cfg(feature = ...)]`, `#[cfg(test)]` is always false) with `syn` and dumps a generic JSON
//! syntax tree: items, attributes (binrw-style directive lists parsed into key/value/args),
//! function bodies as expression trees, patterns, and the bodies of the macro DSLs the
//! repository uses (`bitflags!`, `matches!`, `if_chain!`, `write!`, `format!`, `unreachable!`,
//! `panic!`).  Nothing is decided here; the Python rules interpret the tree.
//! Anything the dumper does not understand is emitted as {"k":"Other","text":...} so that a
//! rule touching it fails closed.

use proc_macro2::{Span, TokenStream, TokenTree};
use quote::ToTokens;
use serde_json::{json, Value};
use std::collections::BTreeSet;
use std::path::{Path, PathBuf};
use syn::parse::{Parse, ParseStream, Parser};
use syn::punctuated::Punctuated;
use syn::spanned::Spanned;
use syn::*;

struct Ctx {
    features: BTreeSet<String>,
    files: Vec<String>,
}

fn ln(sp: Span) -> usize {
    sp.start().line
}

fn toks<T: ToTokens>(t: &T) -> String {
    let s = t.to_token_stream().to_string();
    s
}

// ---------------------------------------------------------------- cfg evaluation

fn cfg_eval(ctx: &Ctx, ts: TokenStream) -> bool {
    // grammar: feature = "x" | test | not(..) | all(..) | any(..) | other-ident (false)
    fn pred(ctx: &Ctx, input: ParseStream) -> Result<bool> {
        let id: Ident = input.call(Ident::parse_any_compat)?;
        let name = id.to_string();
        if input.peek(Token![=]) {
            let _: Token![=] = input.parse()?;
            let lit: LitStr = input.parse()?;
            if name == "feature" {
                return Ok(ctx.features.contains(&lit.value()));
            }
            return Ok(false);
        }
        if input.peek(token::Paren) {
            let content;
            parenthesized!(content in input);
            let mut vals = vec![];
            while !content.is_empty() {
                vals.push(pred(ctx, &content)?);
                if content.peek(Token![,]) {
                    let _: Token![,] = content.parse()?;
                }
            }
            return Ok(match name.as_str() {
                "not" => !vals.first().copied().unwrap_or(false),
                "all" => vals.iter().all(|x| *x),
                "any" => vals.iter().any(|x| *x),
                _ => false,
            });
        }
        Ok(match name.as_str() {
            "test" => false,
            "debug_assertions" => true,
            "unix" => true,
            _ => false,
        })
    }
    let p = |input: ParseStream| pred(ctx, input);
    p.parse2(ts).unwrap_or(false)
}

trait IdentAny {
    fn parse_any_compat(input: ParseStream) -> Result<Ident>;
}
impl IdentAny for Ident {
    fn parse_any_compat(input: ParseStream) -> Result<Ident> {
        use syn::ext::IdentExt;
        input.call(Ident::parse_any)
    }
}

/// true if every #[cfg] on the item holds
fn cfg_ok(ctx: &Ctx, attrs: &[Attribute]) -> bool {
    for a in attrs {
        if a.path().is_ident("cfg") {
            if let Meta::List(l) = &a.meta {
                if !cfg_eval(ctx, l.tokens.clone()) {
                    return false;
                }
            }
        }
    }
    true
}

// ---------------------------------------------------------------- attributes

/// one directive inside #[brw(...)] etc:  key | key = expr | key(expr, ...) | key { .. }
struct Directive {
    key: String,
    value: Option<Expr>,
    args: Option<Vec<Expr>>,
    raw: String,
    line: usize,
}

impl Parse for Directive {
    fn parse(input: ParseStream) -> Result<Self> {
        let start = input.span();
        let id: Ident = input.call(Ident::parse_any_compat)?;
        let key = id.to_string();
        let mut value = None;
        let mut args = None;
        let mut raw = key.clone();
        if input.peek(Token![=]) {
            let _: Token![=] = input.parse()?;
            let e: Expr = input.parse()?;
            raw = format!("{} = {}", key, toks(&e));
            value = Some(e);
        } else if input.peek(token::Paren) {
            let content;
            parenthesized!(content in input);
            let ts: TokenStream = content.parse()?;
            raw = format!("{}({})", key, ts);
            let p = Punctuated::<Expr, Token![,]>::parse_terminated;
            match p.parse2(ts.clone()) {
                Ok(list) => args = Some(list.into_iter().collect()),
                Err(_) => {
                    // e.g. repr(u8): a type, or a cfg predicate; keep as single path/verbatim
                    args = Some(vec![Expr::Verbatim(ts)]);
                }
            }
        } else if input.peek(token::Brace) {
            let content;
            braced!(content in input);
            let ts: TokenStream = content.parse()?;
            raw = format!("{} {{ {} }}", key, ts);
            args = Some(vec![Expr::Verbatim(ts)]);
        }
        Ok(Directive {
            key,
            value,
            args,
            raw,
            line: ln(start),
        })
    }
}

fn attr_json(ctx: &Ctx, a: &Attribute) -> Value {
    let name = toks(a.path()).replace(' ', "");
    let line = ln(a.span());
    match &a.meta {
        Meta::Path(_) => json!({"name": name, "ln": line, "form": "path"}),
        Meta::NameValue(nv) => {
            json!({"name": name, "ln": line, "form": "nv", "value": expr_json(ctx, &nv.value)})
        }
        Meta::List(l) => {
            let p = Punctuated::<Directive, Token![,]>::parse_terminated;
            match p.parse2(l.tokens.clone()) {
                Ok(ds) => {
                    let items: Vec<Value> = ds
                        .iter()
                        .map(|d| {
                            json!({
                                "key": d.key,
                                "ln": d.line,
                                "raw": d.raw,
                                "value": d.value.as_ref().map(|e| expr_json(ctx, e)),
                                "args": d.args.as_ref().map(|v| v.iter().map(|e| expr_json(ctx, e)).collect::<Vec<_>>()),
                            })
                        })
                        .collect();
                    json!({"name": name, "ln": line, "form": "list", "items": items, "raw": l.tokens.to_string()})
                }
                Err(_) => {
                    json!({"name": name, "ln": line, "form": "raw", "raw": l.tokens.to_string()})
                }
            }
        }
    }
}

fn attrs_json(ctx: &Ctx, attrs: &[Attribute]) -> Value {
    Value::Array(
        attrs
            .iter()
            .filter(|a| !a.path().is_ident("doc"))
            .map(|a| attr_json(ctx, a))
            .collect(),
    )
}

// ---------------------------------------------------------------- types, patterns, exprs

fn type_json(t: &Type) -> Value {
    match t {
        Type::Array(a) => {
            json!({"k":"Array","elem": type_json(&a.elem), "len": toks(&a.len), "text": norm(&toks(t))})
        }
        Type::Reference(r) => {
            json!({"k":"Ref","mut": r.mutability.is_some(), "elem": type_json(&r.elem), "text": norm(&toks(t))})
        }
        Type::Path(p) => {
            let last = p.path.segments.last();
            let name = last.map(|s| s.ident.to_string()).unwrap_or_default();
            let mut gen = vec![];
            if let Some(s) = last {
                if let PathArguments::AngleBracketed(ab) = &s.arguments {
                    for g in &ab.args {
                        match g {
                            GenericArgument::Type(t) => gen.push(type_json(t)),
                            other => gen.push(json!({"k":"Arg","text": norm(&toks(other))})),
                        }
                    }
                }
            }
            json!({"k":"Path","name": name, "path": norm(&toks(&p.path)), "generics": gen, "text": norm(&toks(t))})
        }
        Type::Tuple(tt) => {
            json!({"k":"Tuple","elems": tt.elems.iter().map(type_json).collect::<Vec<_>>(), "text": norm(&toks(t))})
        }
        Type::Slice(s) => json!({"k":"Slice","elem": type_json(&s.elem), "text": norm(&toks(t))}),
        _ => json!({"k":"Other","text": norm(&toks(t))}),
    }
}

/// normalise token-stream spacing so that text comparisons do not depend on formatting
fn norm(s: &str) -> String {
    let mut out = String::new();
    let cs: Vec<char> = s.chars().collect();
    let mut i = 0;
    while i < cs.len() {
        let c = cs[i];
        if c == ' ' {
            // drop spaces around punctuation
            let prev = out.chars().last().unwrap_or(' ');
            let next = cs.get(i + 1).copied().unwrap_or(' ');
            let keep = (prev.is_alphanumeric() || prev == '_') && (next.is_alphanumeric() || next == '_');
            if keep {
                out.push(' ');
            }
        } else {
            out.push(c);
        }
        i += 1;
    }
    out
}

fn lit_json(l: &Lit) -> Value {
    match l {
        Lit::Int(i) => {
            let v = i.base10_parse::<u128>().ok();
            json!({"k":"Lit","t":"int","v": v.map(|x| x.to_string()), "suffix": i.suffix(), "ln": ln(i.span())})
        }
        Lit::Byte(b) => json!({"k":"Lit","t":"byte","v": (b.value() as u64).to_string(), "ln": ln(b.span())}),
        Lit::Char(c) => json!({"k":"Lit","t":"char","v": c.value().to_string(), "ln": ln(c.span())}),
        Lit::Str(s) => json!({"k":"Lit","t":"str","v": s.value(), "ln": ln(s.span())}),
        Lit::ByteStr(s) => json!({"k":"Lit","t":"bytestr","v": s.value(), "ln": ln(s.span())}),
        Lit::Bool(b) => json!({"k":"Lit","t":"bool","v": b.value, "ln": ln(b.span())}),
        Lit::Float(f) => json!({"k":"Lit","t":"float","v": f.base10_digits(), "ln": ln(f.span())}),
        _ => json!({"k":"Lit","t":"other","v": toks(l)}),
    }
}

fn pat_json(ctx: &Ctx, p: &Pat) -> Value {
    let line = ln(p.span());
    match p {
        Pat::Ident(i) => json!({"k":"Ident","name": i.ident.to_string(), "byref": i.by_ref.is_some(), "mut": i.mutability.is_some(),
            "sub": i.subpat.as_ref().map(|(_, s)| pat_json(ctx, s)), "ln": line}),
        Pat::Lit(l) => {
            let mut v = lit_json(&l.lit);
            v["ln"] = json!(line);
            v
        }
        Pat::Or(o) => json!({"k":"Or","cases": o.cases.iter().map(|c| pat_json(ctx, c)).collect::<Vec<_>>(), "ln": line}),
        Pat::Path(pp) => json!({"k":"Path","path": norm(&toks(&pp.path)), "ln": line}),
        Pat::Range(r) => json!({"k":"Range","lo": r.start.as_ref().map(|e| expr_json(ctx, e)), "hi": r.end.as_ref().map(|e| expr_json(ctx, e)),
            "inclusive": matches!(r.limits, RangeLimits::Closed(_)), "ln": line}),
        Pat::Reference(r) => json!({"k":"Ref","pat": pat_json(ctx, &r.pat), "ln": line}),
        Pat::Slice(s) => json!({"k":"Slice","elems": s.elems.iter().map(|c| pat_json(ctx, c)).collect::<Vec<_>>(), "ln": line}),
        Pat::Struct(s) => json!({"k":"Struct","path": norm(&toks(&s.path)),
            "fields": s.fields.iter().map(|f| json!({"member": toks(&f.member), "pat": pat_json(ctx, &f.pat)})).collect::<Vec<_>>(),
            "rest": s.rest.is_some(), "ln": line}),
        Pat::Tuple(t) => json!({"k":"Tuple","elems": t.elems.iter().map(|c| pat_json(ctx, c)).collect::<Vec<_>>(), "ln": line}),
        Pat::TupleStruct(t) => json!({"k":"TupleStruct","path": norm(&toks(&t.path)),
            "elems": t.elems.iter().map(|c| pat_json(ctx, c)).collect::<Vec<_>>(), "ln": line}),
        Pat::Wild(_) => json!({"k":"Wild","ln": line}),
        Pat::Rest(_) => json!({"k":"Rest","ln": line}),
        Pat::Paren(pp) => pat_json(ctx, &pp.pat),
        Pat::Type(t) => json!({"k":"Typed","pat": pat_json(ctx, &t.pat), "ty": type_json(&t.ty), "ln": line}),
        Pat::Const(c) => json!({"k":"Const","text": norm(&toks(c)), "ln": line}),
        _ => json!({"k":"Other","text": norm(&toks(p)), "ln": line}),
    }
}

fn block_json(ctx: &Ctx, b: &Block) -> Value {
    Value::Array(b.stmts.iter().map(|s| stmt_json(ctx, s)).collect())
}

fn stmt_json(ctx: &Ctx, s: &Stmt) -> Value {
    match s {
        Stmt::Local(l) => {
            let (init, els) = match &l.init {
                Some(i) => (
                    Some(expr_json(ctx, &i.expr)),
                    i.diverge.as_ref().map(|(_, e)| expr_json(ctx, e)),
                ),
                None => (None, None),
            };
            json!({"k":"Let","pat": pat_json(ctx, &l.pat), "init": init, "else": els, "ln": ln(l.span())})
        }
        Stmt::Item(i) => json!({"k":"Item","item": item_json(ctx, i, Path::new("")).unwrap_or(Value::Null)}),
        Stmt::Expr(e, semi) => json!({"k":"Expr","semi": semi.is_some(), "e": expr_json(ctx, e), "ln": ln(e.span())}),
        Stmt::Macro(m) => json!({"k":"Expr","semi": m.semi_token.is_some(), "e": macro_json(ctx, &m.mac), "ln": ln(m.span())}),
    }
}

/// if_chain! { if a; if let P = e; then { .. } else { .. } }
fn if_chain_json(ctx: &Ctx, ts: TokenStream) -> Option<Value> {
    struct Chain {
        conds: Vec<Expr>,
        then: Block,
        els: Option<Block>,
    }
    impl Parse for Chain {
        fn parse(input: ParseStream) -> Result<Self> {
            let mut conds = vec![];
            loop {
                if input.peek(Token![if]) {
                    let _: Token![if] = input.parse()?;
                    // parse an expression (possibly `let PAT = EXPR`) up to `;`
                    let e = Expr::parse_without_eager_brace(input)?;
                    let _: Token![;] = input.parse()?;
                    conds.push(e);
                } else {
                    let id: Ident = input.parse()?;
                    if id != "then" {
                        return Err(input.error("expected then"));
                    }
                    let then: Block = input.parse()?;
                    let els = if input.peek(Token![else]) {
                        let _: Token![else] = input.parse()?;
                        Some(input.parse::<Block>()?)
                    } else {
                        None
                    };
                    return Ok(Chain { conds, then, els });
                }
            }
        }
    }
    let c: Chain = syn::parse2(ts).ok()?;
    Some(json!({
        "k":"IfChain",
        "conds": c.conds.iter().map(|e| expr_json(ctx, e)).collect::<Vec<_>>(),
        "then": block_json(ctx, &c.then),
        "else": c.els.as_ref().map(|b| block_json(ctx, b)),
    }))
}

fn bitflags_json(ctx: &Ctx, ts: TokenStream) -> Option<Value> {
    struct Flag {
        attrs: Vec<Attribute>,
        name: Ident,
        value: Expr,
    }
    struct BF {
        attrs: Vec<Attribute>,
        name: Ident,
        ty: Type,
        flags: Vec<Flag>,
    }
    struct BFs(Vec<BF>);
    impl Parse for BFs {
        fn parse(input: ParseStream) -> Result<Self> {
            let mut out = vec![];
            while !input.is_empty() {
                let attrs = input.call(Attribute::parse_outer)?;
                let _vis: Visibility = input.parse()?;
                let _: Token![struct] = input.parse()?;
                let name: Ident = input.parse()?;
                let _: Token![:] = input.parse()?;
                let ty: Type = input.parse()?;
                let content;
                braced!(content in input);
                let mut flags = vec![];
                while !content.is_empty() {
                    let fattrs = content.call(Attribute::parse_outer)?;
                    let _: Token![const] = content.parse()?;
                    let fname: Ident = content.parse()?;
                    let _: Token![=] = content.parse()?;
                    let value: Expr = content.parse()?;
                    let _: Token![;] = content.parse()?;
                    flags.push(Flag { attrs: fattrs, name: fname, value });
                }
                out.push(BF { attrs, name, ty, flags });
            }
            Ok(BFs(out))
        }
    }
    let b: BFs = syn::parse2(ts).ok()?;
    Some(Value::Array(
        b.0.iter()
            .map(|bf| {
                json!({
                    "k":"Bitflags",
                    "name": bf.name.to_string(),
                    "ty": type_json(&bf.ty),
                    "attrs": attrs_json(ctx, &bf.attrs),
                    "ln": ln(bf.name.span()),
                    "flags": bf.flags.iter().map(|f| json!({
                        "name": f.name.to_string(),
                        "value": expr_json(ctx, &f.value),
                        "attrs": attrs_json(ctx, &f.attrs),
                        "ln": ln(f.name.span()),
                    })).collect::<Vec<_>>(),
                })
            })
            .collect(),
    ))
}

fn macro_json(ctx: &Ctx, m: &Macro) -> Value {
    let name = m.path.segments.last().map(|s| s.ident.to_string()).unwrap_or_default();
    let line = ln(m.span());
    match name.as_str() {
        "if_chain" => {
            if let Some(v) = if_chain_json(ctx, m.tokens.clone()) {
                let mut v = v;
                v["ln"] = json!(line);
                return v;
            }
        }
        "matches" => {
            struct M {
                e: Expr,
                p: Pat,
                guard: Option<Expr>,
            }
            impl Parse for M {
                fn parse(input: ParseStream) -> Result<Self> {
                    let e: Expr = input.parse()?;
                    let _: Token![,] = input.parse()?;
                    let p = Pat::parse_multi_with_leading_vert(input)?;
                    let guard = if input.peek(Token![if]) {
                        let _: Token![if] = input.parse()?;
                        Some(input.parse::<Expr>()?)
                    } else {
                        None
                    };
                    if input.peek(Token![,]) {
                        let _: Token![,] = input.parse()?;
                    }
                    Ok(M { e, p, guard })
                }
            }
            if let Ok(mm) = syn::parse2::<M>(m.tokens.clone()) {
                return json!({"k":"Matches","e": expr_json(ctx, &mm.e), "pat": pat_json(ctx, &mm.p),
                    "guard": mm.guard.as_ref().map(|g| expr_json(ctx, g)), "ln": line});
            }
        }
        "bitflags" => {
            if let Some(v) = bitflags_json(ctx, m.tokens.clone()) {
                return json!({"k":"MacroBitflags","defs": v, "ln": line});
            }
        }
        _ => {}
    }
    // generic: comma separated expressions if parseable
    let p = Punctuated::<Expr, Token![,]>::parse_terminated;
    let args = match p.parse2(m.tokens.clone()) {
        Ok(list) => Some(list.iter().map(|e| expr_json(ctx, e)).collect::<Vec<_>>()),
        Err(_) => None,
    };
    json!({"k":"Macro","name": name, "path": norm(&toks(&m.path)), "args": args, "text": m.tokens.to_string(), "ln": line})
}

fn expr_json(ctx: &Ctx, e: &Expr) -> Value {
    let line = ln(e.span());
    match e {
        Expr::Array(a) => json!({"k":"Array","elems": a.elems.iter().map(|x| expr_json(ctx, x)).collect::<Vec<_>>(), "ln": line}),
        Expr::Assign(a) => json!({"k":"Assign","lhs": expr_json(ctx, &a.left), "rhs": expr_json(ctx, &a.right), "ln": line}),
        Expr::Binary(b) => json!({"k":"Binary","op": toks(&b.op), "lhs": expr_json(ctx, &b.left), "rhs": expr_json(ctx, &b.right), "ln": line}),
        Expr::Block(b) => json!({"k":"Block","label": b.label.as_ref().map(|l| toks(&l.name)), "stmts": block_json(ctx, &b.block), "ln": line}),
        Expr::Unsafe(b) => json!({"k":"Unsafe","stmts": block_json(ctx, &b.block), "ln": line}),
        Expr::Async(b) => json!({"k":"Async","stmts": block_json(ctx, &b.block), "ln": line}),
        Expr::Break(b) => json!({"k":"Break","label": b.label.as_ref().map(|l| toks(l)), "e": b.expr.as_ref().map(|x| expr_json(ctx, x)), "ln": line}),
        Expr::Continue(c) => json!({"k":"Continue","label": c.label.as_ref().map(|l| toks(l)), "ln": line}),
        Expr::Call(c) => json!({"k":"Call","func": expr_json(ctx, &c.func), "args": c.args.iter().map(|x| expr_json(ctx, x)).collect::<Vec<_>>(), "ln": line}),
        Expr::Cast(c) => json!({"k":"Cast","e": expr_json(ctx, &c.expr), "ty": type_json(&c.ty), "ln": line}),
        Expr::Closure(c) => json!({"k":"Closure","inputs": c.inputs.iter().map(|p| pat_json(ctx, p)).collect::<Vec<_>>(),
            "body": expr_json(ctx, &c.body), "text": norm(&toks(e)), "ln": line}),
        Expr::Field(f) => json!({"k":"Field","base": expr_json(ctx, &f.base), "member": toks(&f.member), "ln": line}),
        Expr::ForLoop(f) => json!({"k":"For","label": f.label.as_ref().map(|l| toks(&l.name)), "pat": pat_json(ctx, &f.pat), "iter": expr_json(ctx, &f.expr), "body": block_json(ctx, &f.body), "ln": line}),
        Expr::Group(g) => expr_json(ctx, &g.expr),
        Expr::If(i) => json!({"k":"If","cond": expr_json(ctx, &i.cond), "then": block_json(ctx, &i.then_branch),
            "else": i.else_branch.as_ref().map(|(_, x)| expr_json(ctx, x)), "ln": line}),
        Expr::Index(i) => json!({"k":"Index","base": expr_json(ctx, &i.expr), "index": expr_json(ctx, &i.index), "ln": line}),
        Expr::Let(l) => json!({"k":"LetCond","pat": pat_json(ctx, &l.pat), "e": expr_json(ctx, &l.expr), "ln": line}),
        Expr::Lit(l) => {
            let mut v = lit_json(&l.lit);
            v["ln"] = json!(line);
            v
        }
        Expr::Loop(l) => json!({"k":"Loop","label": l.label.as_ref().map(|x| toks(&x.name)), "body": block_json(ctx, &l.body), "ln": line}),
        Expr::Macro(m) => macro_json(ctx, &m.mac),
        Expr::Match(m) => json!({"k":"Match","e": expr_json(ctx, &m.expr),
            "arms": m.arms.iter().map(|a| json!({"pat": pat_json(ctx, &a.pat), "guard": a.guard.as_ref().map(|(_, g)| expr_json(ctx, g)),
                "body": expr_json(ctx, &a.body), "ln": ln(a.span())})).collect::<Vec<_>>(), "ln": line}),
        Expr::MethodCall(m) => json!({"k":"MethodCall","recv": expr_json(ctx, &m.receiver), "method": m.method.to_string(),
            "turbofish": m.turbofish.as_ref().map(|t| norm(&toks(t))),
            "args": m.args.iter().map(|x| expr_json(ctx, x)).collect::<Vec<_>>(), "ln": line}),
        Expr::Paren(p) => expr_json(ctx, &p.expr),
        Expr::Path(p) => {
            let segs: Vec<Value> = p.path.segments.iter().map(|s| {
                let gen = match &s.arguments {
                    PathArguments::AngleBracketed(ab) => Some(ab.args.iter().map(|g| norm(&toks(g))).collect::<Vec<_>>()),
                    _ => None,
                };
                json!({"id": s.ident.to_string(), "generics": gen})
            }).collect();
            json!({"k":"Path","path": norm(&toks(&p.path)), "qself": p.qself.as_ref().map(|q| norm(&toks(&q.ty))), "segs": segs, "ln": line})
        }
        Expr::Range(r) => json!({"k":"Range","lo": r.start.as_ref().map(|x| expr_json(ctx, x)), "hi": r.end.as_ref().map(|x| expr_json(ctx, x)),
            "inclusive": matches!(r.limits, RangeLimits::Closed(_)), "ln": line}),
        Expr::Reference(r) => json!({"k":"Ref","mut": r.mutability.is_some(), "e": expr_json(ctx, &r.expr), "ln": line}),
        Expr::Repeat(r) => json!({"k":"Repeat","e": expr_json(ctx, &r.expr), "len": expr_json(ctx, &r.len), "ln": line}),
        Expr::Return(r) => json!({"k":"Return","e": r.expr.as_ref().map(|x| expr_json(ctx, x)), "ln": line}),
        Expr::Struct(s) => json!({"k":"Struct","path": norm(&toks(&s.path)),
            "fields": s.fields.iter().map(|f| json!({"member": toks(&f.member), "e": expr_json(ctx, &f.expr), "ln": ln(f.span())})).collect::<Vec<_>>(),
            "rest": s.rest.as_ref().map(|x| expr_json(ctx, x)), "ln": line}),
        Expr::Try(t) => json!({"k":"Try","e": expr_json(ctx, &t.expr), "ln": line}),
        Expr::Tuple(t) => json!({"k":"Tuple","elems": t.elems.iter().map(|x| expr_json(ctx, x)).collect::<Vec<_>>(), "ln": line}),
        Expr::Unary(u) => json!({"k":"Unary","op": toks(&u.op), "e": expr_json(ctx, &u.expr), "ln": line}),
        Expr::While(w) => json!({"k":"While","label": w.label.as_ref().map(|x| toks(&x.name)), "cond": expr_json(ctx, &w.cond), "body": block_json(ctx, &w.body), "ln": line}),
        Expr::Await(a) => json!({"k":"Await","e": expr_json(ctx, &a.base), "ln": line}),
        Expr::Verbatim(ts) => json!({"k":"Verbatim","text": norm(&ts.to_string()), "ln": line}),
        _ => json!({"k":"Other","text": norm(&toks(e)), "ln": line}),
    }
}

// ---------------------------------------------------------------- items

fn sig_json(ctx: &Ctx, sig: &Signature) -> Value {
    let inputs: Vec<Value> = sig
        .inputs
        .iter()
        .map(|a| match a {
            FnArg::Receiver(r) => json!({"self": true, "ref": r.reference.is_some(), "mut": r.mutability.is_some(), "text": norm(&toks(r))}),
            FnArg::Typed(t) => json!({"self": false, "pat": pat_json(ctx, &t.pat), "ty": type_json(&t.ty)}),
        })
        .collect();
    let ret = match &sig.output {
        ReturnType::Default => Value::Null,
        ReturnType::Type(_, t) => type_json(t),
    };
    json!({"name": sig.ident.to_string(), "async": sig.asyncness.is_some(), "inputs": inputs, "ret": ret,
        "generics": norm(&toks(&sig.generics)),
        "gparams": sig.generics.params.iter().map(|g| norm(&toks(g))).collect::<Vec<_>>()})
}

fn fields_json(ctx: &Ctx, fields: &Fields) -> Value {
    let mut out = vec![];
    for (i, f) in fields.iter().enumerate() {
        if !cfg_ok(ctx, &f.attrs) {
            continue;
        }
        out.push(json!({
            "name": f.ident.as_ref().map(|x| x.to_string()).unwrap_or_else(|| i.to_string()),
            "ty": type_json(&f.ty),
            "vis": toks(&f.vis),
            "attrs": attrs_json(ctx, &f.attrs),
            "ln": ln(f.span()),
        }));
    }
    Value::Array(out)
}

fn item_json(ctx: &Ctx, it: &Item, dir: &Path) -> Option<Value> {
    match it {
        Item::Struct(s) => {
            if !cfg_ok(ctx, &s.attrs) {
                return None;
            }
            Some(json!({"k":"Struct","name": s.ident.to_string(), "attrs": attrs_json(ctx, &s.attrs),
                "generics": norm(&toks(&s.generics)),
                "tuple": matches!(s.fields, Fields::Unnamed(_)),
                "fields": fields_json(ctx, &s.fields), "ln": ln(s.ident.span())}))
        }
        Item::Enum(e) => {
            if !cfg_ok(ctx, &e.attrs) {
                return None;
            }
            let vars: Vec<Value> = e
                .variants
                .iter()
                .filter(|v| cfg_ok(ctx, &v.attrs))
                .map(|v| {
                    json!({"name": v.ident.to_string(), "attrs": attrs_json(ctx, &v.attrs),
                    "disc": v.discriminant.as_ref().map(|(_, d)| expr_json(ctx, d)),
                    "shape": match &v.fields { Fields::Unit => "unit", Fields::Unnamed(_) => "tuple", Fields::Named(_) => "struct" },
                    "fields": fields_json(ctx, &v.fields), "ln": ln(v.ident.span())})
                })
                .collect();
            Some(json!({"k":"Enum","name": e.ident.to_string(), "attrs": attrs_json(ctx, &e.attrs), "variants": vars, "ln": ln(e.ident.span())}))
        }
        Item::Fn(f) => {
            if !cfg_ok(ctx, &f.attrs) {
                return None;
            }
            Some(json!({"k":"Fn","sig": sig_json(ctx, &f.sig), "attrs": attrs_json(ctx, &f.attrs), "vis": toks(&f.vis),
                "body": block_json(ctx, &f.block), "ln": ln(f.sig.ident.span()), "end": f.block.span().end().line}))
        }
        Item::Impl(i) => {
            if !cfg_ok(ctx, &i.attrs) {
                return None;
            }
            let mut items = vec![];
            for ii in &i.items {
                match ii {
                    ImplItem::Fn(f) => {
                        if !cfg_ok(ctx, &f.attrs) {
                            continue;
                        }
                        items.push(json!({"k":"Fn","sig": sig_json(ctx, &f.sig), "attrs": attrs_json(ctx, &f.attrs), "vis": toks(&f.vis),
                            "body": block_json(ctx, &f.block), "ln": ln(f.sig.ident.span()), "end": f.block.span().end().line}));
                    }
                    ImplItem::Const(c) => {
                        if !cfg_ok(ctx, &c.attrs) {
                            continue;
                        }
                        items.push(json!({"k":"Const","name": c.ident.to_string(), "ty": type_json(&c.ty), "value": expr_json(ctx, &c.expr), "ln": ln(c.ident.span())}));
                    }
                    ImplItem::Type(t) => {
                        items.push(json!({"k":"Type","name": t.ident.to_string(), "text": norm(&toks(&t.ty))}));
                    }
                    other => items.push(json!({"k":"Other","text": norm(&toks(other))})),
                }
            }
            Some(json!({"k":"Impl","trait": i.trait_.as_ref().map(|(_, p, _)| norm(&toks(p))),
                "self_ty": type_json(&i.self_ty), "generics": norm(&toks(&i.generics)), "attrs": attrs_json(ctx, &i.attrs), "items": items, "ln": ln(i.span())}))
        }
        Item::Const(c) => {
            if !cfg_ok(ctx, &c.attrs) {
                return None;
            }
            Some(json!({"k":"Const","name": c.ident.to_string(), "ty": type_json(&c.ty), "value": expr_json(ctx, &c.expr), "vis": toks(&c.vis), "ln": ln(c.ident.span())}))
        }
        Item::Static(c) => Some(json!({"k":"Static","name": c.ident.to_string(), "ty": type_json(&c.ty), "value": expr_json(ctx, &c.expr), "ln": ln(c.ident.span())})),
        Item::Macro(m) => {
            if !cfg_ok(ctx, &m.attrs) {
                return None;
            }
            let mut v = macro_json(ctx, &m.mac);
            v["item"] = json!(true);
            v["ident"] = json!(m.ident.as_ref().map(|i| i.to_string()));
            Some(v)
        }
        Item::Mod(m) => {
            if !cfg_ok(ctx, &m.attrs) {
                return None;
            }
            let name = m.ident.to_string();
            if let Some((_, items)) = &m.content {
                let sub = dir.join(&name);
                let its: Vec<Value> = items.iter().filter_map(|i| item_json(ctx, i, &sub)).collect();
                return Some(json!({"k":"Mod","name": name, "inline": true, "items": its, "ln": ln(m.ident.span())}));
            }
            // external file: dir/name.rs or dir/name/mod.rs; #[path] is not used in this repo
            let mut path_attr = None;
            for a in &m.attrs {
                if a.path().is_ident("path") {
                    if let Meta::NameValue(nv) = &a.meta {
                        if let Expr::Lit(ExprLit { lit: Lit::Str(s), .. }) = &nv.value {
                            path_attr = Some(s.value());
                        }
                    }
                }
            }
            let cand: Vec<PathBuf> = if let Some(p) = path_attr {
                vec![dir.join(p)]
            } else {
                vec![dir.join(format!("{}.rs", name)), dir.join(&name).join("mod.rs")]
            };
            for c in cand {
                if c.exists() {
                    let subdir = if c.file_name().map(|f| f == "mod.rs").unwrap_or(false) {
                        c.parent().unwrap().to_path_buf()
                    } else {
                        c.parent().unwrap().join(&name)
                    };
                    return Some(file_json(ctx_mut(ctx), &c, &subdir, &name));
                }
            }
            Some(json!({"k":"Mod","name": name, "missing": true, "ln": ln(m.ident.span())}))
        }
        Item::Trait(t) => {
            if !cfg_ok(ctx, &t.attrs) {
                return None;
            }
            let mut items = vec![];
            for ti in &t.items {
                if let TraitItem::Fn(f) = ti {
                    items.push(json!({"k":"Fn","sig": sig_json(ctx, &f.sig), "body": f.default.as_ref().map(|b| block_json(ctx, b)), "ln": ln(f.sig.ident.span())}));
                }
            }
            Some(json!({"k":"Trait","name": t.ident.to_string(), "items": items, "ln": ln(t.ident.span())}))
        }
        Item::Use(u) => Some(json!({"k":"Use","text": norm(&toks(&u.tree)), "ln": ln(u.span())})),
        Item::Type(t) => Some(json!({"k":"TypeAlias","name": t.ident.to_string(), "ty": type_json(&t.ty), "ln": ln(t.ident.span())})),
        other => Some(json!({"k":"Other","text": norm(&toks(other)).chars().take(200).collect::<String>()})),
    }
}

// files list is append-only bookkeeping; interior mutability through a raw pointer is avoided by
// making the bookkeeping a global.
static FILES: std::sync::Mutex<Vec<String>> = std::sync::Mutex::new(Vec::new());
fn ctx_mut(ctx: &Ctx) -> &Ctx {
    ctx
}

fn file_json(ctx: &Ctx, path: &Path, dir: &Path, modname: &str) -> Value {
    let src = match std::fs::read_to_string(path) {
        Ok(s) => s,
        Err(e) => return json!({"k":"Mod","name": modname, "error": format!("{}", e)}),
    };
    FILES.lock().unwrap().push(path.display().to_string());
    let file = match syn::parse_file(&src) {
        Ok(f) => f,
        Err(e) => return json!({"k":"Mod","name": modname, "file": path.display().to_string(), "error": format!("parse: {}", e)}),
    };
    let items: Vec<Value> = file.items.iter().filter_map(|i| item_json(ctx, i, dir)).collect();
    json!({"k":"Mod","name": modname, "inline": false, "file": path.display().to_string(), "items": items,
        "attrs": attrs_json(ctx, &file.attrs)})
}

fn main() {
    let args: Vec<String> = std::env::args().collect();
    if args.len() < 3 {
        eprintln!("usage: wirex <root.rs> <crate-name> [features]");
        std::process::exit(2);
    }
    let root = PathBuf::from(&args[1]);
    let features: BTreeSet<String> = args
        .get(3)
        .map(|s| s.split(',').filter(|x| !x.is_empty()).map(|x| x.to_string()).collect())
        .unwrap_or_default();
    let ctx = Ctx { features: features.clone(), files: vec![] };
    let _ = &ctx.files;
    let dir = root.parent().unwrap().to_path_buf();
    let v = file_json(&ctx, &root, &dir, &args[2]);
    let files = FILES.lock().unwrap().clone();
    let out = json!({"crate": args[2], "features": features.iter().collect::<Vec<_>>(), "files": files, "root": v});
    println!("{}", serde_json::to_string(&out).unwrap());
    let _ = TokenTree::Punct(proc_macro2::Punct::new('.', proc_macro2::Spacing::Alone));
}
