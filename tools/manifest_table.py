# table of claimed properties; exec'd by gen_manifest.py
TB = "rustc nightly MIR/const-eval/type resolution; syn parser; binrw implements its directives as documented; "
CLAIMED.update({
    "C02": ("wire-model extraction (attribute directives + MIR read/write call sequences + const-evaluated enumerants) compared with a spec transcription",
            "Decides structurally, for all 73 kinds and both directions, type number, field order/width/class, pad positions, sizes, endianness directive, every enumerant and flag value and time units against an independent transcription of InSim v9; value-level helper behaviour is not decided.",
            TB + "spec/insim_v9.spec transcription of InSim.txt", "DESIGN.md §4 C02"),
})
