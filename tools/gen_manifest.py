#!/usr/bin/env python3
"""Generates /verif/MANIFEST.json from the table below (single source of truth for claimed properties)."""
import json
import os

HERE = os.path.dirname(os.path.dirname(os.path.abspath(__file__)))

CLAIMED = {
    # id: (technique, level text, level note, design ref)
}

NOT_APPLICABLE = {}

exec(open(os.path.join(HERE, "tools", "manifest_table.py")).read())

props = [json.loads(l)["id"] for l in open(os.path.join(HERE, "properties.jsonl"))]
checks = []
na = []
for p in props:
    if p in CLAIMED:
        tech, text, note, ref = CLAIMED[p]
        checks.append({
            "property_id": p,
            "quick_cmd": "./check %s --tier quick" % p,
            "thorough_cmd": "./check %s --tier thorough" % p,
            "evidence_file": "/verif/evidence/%s.json" % p,
            "replay_cmd_template": "./check %s --replay {path}" % p,
            "engine": "static-rules",
            "level_claimed": {"category": "other", "text": text, "design_ref": ref},
            "level_note": note,
            "technique": tech,
        })
    else:
        na.append({"property_id": p, "reason": NOT_APPLICABLE.get(p, "not built yet (breadth-first plan, DESIGN.md Appendix C)")})

m = {
    "version": 1,
    "setup_cmd": "./setup.sh",
    "hooks": {
        "guard": "none",
        "enable": "no hooks: static analysis reads /repo's sources and compiler IR, nothing is instrumented",
        "baseline_off_cmd": "cd /repo && cargo test --workspace --no-fail-fast --offline",
        "source_commits": [],
        "add_only": True,
    },
    "engines": [
        {"name": "wirex", "path": "tools/wirex", "serves_properties": sorted(CLAIMED), "kind_free_text": "syn 2 syntax-tree exporter (attributes, macro DSLs, literal tables)"},
        {"name": "mirx", "path": "tools/mirx", "serves_properties": sorted(CLAIMED), "kind_free_text": "rustc_private driver: MIR with resolved callees, const-evaluated constants, enum discriminants, coroutine layouts"},
        {"name": "static-rules", "path": "lib", "serves_properties": sorted(CLAIMED), "kind_free_text": "Python rules over the two fact bases: wire model, spec comparison, CFG/dominators, provenance, decision tables"},
    ],
    "checks": checks,
    "not_applicable": na,
    "notes": "Static analysis only. Every check re-extracts facts from /repo's current working tree (content-hash keyed cache). See DESIGN.md.",
}
with open(os.path.join(HERE, "MANIFEST.json"), "w") as fh:
    json.dump(m, fh, indent=1)
    fh.write("\n")
print("MANIFEST.json: %d checks, %d not_applicable" % (len(checks), len(na)))
