//! mirx — rustc_private driver exporting the resolved program (MIR, types, constants,
//! coroutine layouts) of the workspace crates as JSON facts for the /verif static rules.
//!
//! Invoked as RUSTC_WORKSPACE_WRAPPER: argv[1] is the real rustc path (dropped), the rest is
//! the rustc command line.  For crates whose name is listed in MIRX_CRATES (comma separated)
//! one JSON file `<MIRX_OUT>/<crate>.mir.json` is written (one write per process).  All other
//! crates are compiled normally.
#![feature(rustc_private)]
#![allow(clippy::all)]

extern crate rustc_abi;
extern crate rustc_driver;
extern crate rustc_hir;
extern crate rustc_interface;
extern crate rustc_middle;
extern crate rustc_span;

use rustc_driver::{Callbacks, Compilation};
use rustc_hir::def::DefKind;
use rustc_hir::def_id::{DefId, LocalDefId};
use rustc_interface::interface::Compiler;
use rustc_middle::mir::*;
use rustc_middle::ty::print::{with_no_trimmed_paths, with_no_visible_paths, with_resolve_crate_name, PrintTraitRefExt};
use rustc_middle::ty::{self, Instance, Ty, TyCtxt, TypeVisitableExt, TypingEnv};
use rustc_span::Span;
use std::collections::BTreeMap;
use std::fmt::Write as _;

// ------------------------------------------------------------------ tiny JSON writer

#[derive(Clone)]
enum J {
    Null,
    Bool(bool),
    Num(i128),
    Str(String),
    Arr(Vec<J>),
    Obj(Vec<(String, J)>),
}

fn jesc(s: &str, out: &mut String) {
    out.push('"');
    for c in s.chars() {
        match c {
            '"' => out.push_str("\\\""),
            '\\' => out.push_str("\\\\"),
            '\n' => out.push_str("\\n"),
            '\r' => out.push_str("\\r"),
            '\t' => out.push_str("\\t"),
            c if (c as u32) < 0x20 => {
                let _ = write!(out, "\\u{:04x}", c as u32);
            }
            c => out.push(c),
        }
    }
    out.push('"');
}

impl J {
    fn write(&self, out: &mut String) {
        match self {
            J::Null => out.push_str("null"),
            J::Bool(b) => out.push_str(if *b { "true" } else { "false" }),
            J::Num(n) => {
                let _ = write!(out, "{}", n);
            }
            J::Str(s) => jesc(s, out),
            J::Arr(v) => {
                out.push('[');
                for (i, x) in v.iter().enumerate() {
                    if i > 0 {
                        out.push(',');
                    }
                    x.write(out);
                }
                out.push(']');
            }
            J::Obj(v) => {
                out.push('{');
                for (i, (k, x)) in v.iter().enumerate() {
                    if i > 0 {
                        out.push(',');
                    }
                    jesc(k, out);
                    out.push(':');
                    x.write(out);
                }
                out.push('}');
            }
        }
    }
}

fn s<T: Into<String>>(x: T) -> J {
    J::Str(x.into())
}
fn n<T: TryInto<i128>>(x: T) -> J {
    J::Num(x.try_into().unwrap_or(-1))
}
macro_rules! obj {
    ($($k:expr => $v:expr),* $(,)?) => { J::Obj(vec![$(($k.to_string(), $v)),*]) };
}

// ------------------------------------------------------------------ exporter

struct Ex<'tcx> {
    tcx: TyCtxt<'tcx>,
}

impl<'tcx> Ex<'tcx> {
    fn loc(&self, sp: Span) -> J {
        let sm = self.tcx.sess.source_map();
        let lo = sm.lookup_char_pos(sp.lo());
        let hi = sm.lookup_char_pos(sp.hi());
        let file = match &lo.file.name {
            rustc_span::FileName::Real(r) => match r.local_path() {
                Some(p) => p.display().to_string(),
                None => format!("{:?}", lo.file.name),
            },
            other => format!("{:?}", other),
        };
        obj! {"file" => s(file), "line" => n(lo.line), "col" => n(lo.col.0), "eline" => n(hi.line), "exp" => J::Bool(sp.from_expansion())}
    }

    fn line(&self, sp: Span) -> J {
        let sm = self.tcx.sess.source_map();
        // for expanded code report the outermost call site line as well
        let lo = sm.lookup_char_pos(sp.lo());
        n(lo.line)
    }

    fn ty(&self, t: Ty<'tcx>) -> J {
        s(format!("{}", t))
    }

    fn def(&self, d: DefId) -> String {
        self.tcx.def_path_str(d)
    }

    fn place(&self, p: &Place<'tcx>, body: &Body<'tcx>) -> J {
        let mut proj = vec![];
        let mut cur = PlaceTy::from_ty(body.local_decls[p.local].ty);
        for el in p.projection.iter() {
            let j = match el {
                ProjectionElem::Deref => s("deref"),
                ProjectionElem::Field(f, t) => {
                    // field name if ADT
                    let mut name = J::Null;
                    if let ty::Adt(adt, _) = cur.ty.kind() {
                        let vidx = cur.variant_index.unwrap_or(rustc_abi::FIRST_VARIANT);
                        if adt.variants().len() > vidx.as_usize() {
                            let v = adt.variant(vidx);
                            if v.fields.len() > f.as_usize() {
                                name = s(v.fields[f].name.to_string());
                            }
                        }
                    }
                    obj! {"f" => n(f.as_usize()), "name" => name, "ty" => self.ty(t)}
                }
                ProjectionElem::Index(l) => obj! {"index" => n(l.as_usize())},
                ProjectionElem::ConstantIndex { offset, min_length, from_end } => {
                    obj! {"cidx" => n(offset), "min" => n(min_length), "from_end" => J::Bool(from_end)}
                }
                ProjectionElem::Subslice { from, to, from_end } => {
                    obj! {"sub_from" => n(from), "sub_to" => n(to), "from_end" => J::Bool(from_end)}
                }
                ProjectionElem::Downcast(name, v) => {
                    obj! {"downcast" => n(v.as_usize()), "name" => name.map(|x| s(x.to_string())).unwrap_or(J::Null)}
                }
                ProjectionElem::OpaqueCast(t) => obj! {"opaque" => self.ty(t)},
                ProjectionElem::UnwrapUnsafeBinder(t) => obj! {"unwrap_binder" => self.ty(t)},
            };
            proj.push(j);
            cur = cur.projection_ty(self.tcx, el);
        }
        obj! {"l" => n(p.local.as_usize()), "p" => J::Arr(proj)}
    }

    fn generic_args(&self, args: ty::GenericArgsRef<'tcx>) -> J {
        J::Arr(args.iter().map(|a| s(format!("{}", a))).collect())
    }

    fn fn_ref(&self, def: DefId, args: ty::GenericArgsRef<'tcx>, owner: DefId) -> J {
        let mut o = vec![
            ("def".to_string(), s(self.def(def))),
            ("args".to_string(), self.generic_args(args)),
            ("local".to_string(), J::Bool(def.is_local())),
            ("krate".to_string(), s(self.tcx.crate_name(def.krate).to_string())),
        ];
        // trait the method belongs to, and impl self type if inherent
        if let Some(tr) = self.tcx.trait_of_assoc(def) {
            o.push(("trait".to_string(), s(self.def(tr))));
        }
        // resolution
        let env = TypingEnv::post_analysis(self.tcx, owner);
        let mut res = J::Null;
        if matches!(self.tcx.def_kind(def), DefKind::Fn | DefKind::AssocFn) {
            // erase regions first: try_resolve asserts no late-bound/infer regions
            let args_e = self.tcx.erase_and_anonymize_regions(args);
            if !args_e.has_escaping_bound_vars() {
                if let Ok(Some(inst)) = Instance::try_resolve(self.tcx, env, def, args_e) {
                    let rd = inst.def_id();
                    let kind = match inst.def {
                        ty::InstanceKind::Item(_) => "item",
                        ty::InstanceKind::Virtual(..) => "virtual",
                        ty::InstanceKind::ClosureOnceShim { .. } => "closure_once_shim",
                        ty::InstanceKind::FnPtrShim(..) => "fnptr_shim",
                        ty::InstanceKind::DropGlue(..) => "drop_glue",
                        ty::InstanceKind::CloneShim(..) => "clone_shim",
                        ty::InstanceKind::Intrinsic(..) => "intrinsic",
                        ty::InstanceKind::ReifyShim(..) => "reify_shim",
                        ty::InstanceKind::VTableShim(..) => "vtable_shim",
                        _ => "other",
                    };
                    res = obj! {
                        "def" => s(self.def(rd)),
                        "args" => self.generic_args(inst.args),
                        "local" => J::Bool(rd.is_local()),
                        "kind" => s(kind),
                        "krate" => s(self.tcx.crate_name(rd.krate).to_string()),
                    };
                }
            }
        }
        o.push(("resolved".to_string(), res));
        J::Obj(o)
    }

    fn constant(&self, c: &ConstOperand<'tcx>, owner: DefId) -> J {
        let t = c.const_.ty();
        let mut o = vec![("ty".to_string(), self.ty(t))];
        match t.kind() {
            ty::FnDef(def, args) => {
                o.push(("fn".to_string(), self.fn_ref(*def, args, owner)));
            }
            _ => {
                let env = TypingEnv::post_analysis(self.tcx, owner);
                let mut val = J::Null;
                match c.const_ {
                    Const::Val(..) | Const::Ty(..) => {
                        if let Some(si) = c.const_.try_eval_scalar_int(self.tcx, env) {
                            val = s(format!("{}", si.to_bits_unchecked()));
                        }
                    }
                    Const::Unevaluated(uv, _) => {
                        o.push(("uneval".to_string(), s(self.def(uv.def))));
                        if let Some(p) = uv.promoted {
                            o.push(("promoted".to_string(), n(p.as_usize())));
                        } else if !c.const_.has_param() {
                            if let Some(si) = c.const_.try_eval_scalar_int(self.tcx, env) {
                                val = s(format!("{}", si.to_bits_unchecked()));
                            }
                        }
                    }
                }
                o.push(("val".to_string(), val));
                o.push(("text".to_string(), s(format!("{}", c.const_))));
            }
        }
        obj! {"const" => J::Obj(o)}
    }

    fn operand(&self, op: &Operand<'tcx>, body: &Body<'tcx>, owner: DefId) -> J {
        match op {
            Operand::Copy(p) => obj! {"copy" => self.place(p, body)},
            Operand::Move(p) => obj! {"move" => self.place(p, body)},
            Operand::Constant(c) => self.constant(c, owner),
            other => obj! {"other" => s(format!("{:?}", other))},
        }
    }

    fn rvalue(&self, rv: &Rvalue<'tcx>, body: &Body<'tcx>, owner: DefId) -> J {
        match rv {
            Rvalue::Use(op, _) => obj! {"k" => s("use"), "x" => self.operand(op, body, owner)},
            Rvalue::Repeat(op, c) => {
                obj! {"k" => s("repeat"), "x" => self.operand(op, body, owner), "len" => s(format!("{}", c))}
            }
            Rvalue::Ref(_, bk, p) => {
                let m = matches!(bk, BorrowKind::Mut { .. });
                obj! {"k" => s("ref"), "mut" => J::Bool(m), "place" => self.place(p, body)}
            }
            Rvalue::RawPtr(k, p) => {
                obj! {"k" => s("rawptr"), "mut" => J::Bool(matches!(k, RawPtrKind::Mut)), "place" => self.place(p, body)}
            }
            Rvalue::Cast(kind, op, t) => {
                let from = op.ty(&body.local_decls, self.tcx);
                obj! {"k" => s("cast"), "kind" => s(format!("{:?}", kind)), "x" => self.operand(op, body, owner),
                "to" => self.ty(*t), "from" => self.ty(from)}
            }
            Rvalue::BinaryOp(op, b) => {
                obj! {"k" => s("bin"), "op" => s(format!("{:?}", op)), "l" => self.operand(&b.0, body, owner), "r" => self.operand(&b.1, body, owner),
                "lty" => self.ty(b.0.ty(&body.local_decls, self.tcx))}
            }
            Rvalue::UnaryOp(op, x) => {
                obj! {"k" => s("un"), "op" => s(format!("{:?}", op)), "x" => self.operand(x, body, owner)}
            }
            Rvalue::Discriminant(p) => {
                let pt = p.ty(&body.local_decls, self.tcx).ty;
                obj! {"k" => s("discr"), "place" => self.place(p, body), "of" => self.ty(pt)}
            }
            Rvalue::Aggregate(kind, ops) => {
                let opsj = J::Arr(ops.iter().map(|o| self.operand(o, body, owner)).collect());
                match &**kind {
                    AggregateKind::Array(t) => obj! {"k" => s("agg"), "agg" => s("array"), "elem" => self.ty(*t), "ops" => opsj},
                    AggregateKind::Tuple => obj! {"k" => s("agg"), "agg" => s("tuple"), "ops" => opsj},
                    AggregateKind::Adt(def, vidx, args, _, active) => {
                        let adt = self.tcx.adt_def(*def);
                        let v = adt.variant(*vidx);
                        let fields = J::Arr(v.fields.iter().map(|f| s(f.name.to_string())).collect());
                        obj! {"k" => s("agg"), "agg" => s("adt"), "adt" => s(self.def(*def)), "variant" => n(vidx.as_usize()),
                        "vname" => s(v.name.to_string()), "fields" => fields, "gargs" => self.generic_args(args),
                        "union_field" => active.map(|f| n(f.as_usize())).unwrap_or(J::Null), "ops" => opsj}
                    }
                    AggregateKind::Closure(def, _) => obj! {"k" => s("agg"), "agg" => s("closure"), "def" => s(self.def(*def)), "ops" => opsj},
                    AggregateKind::Coroutine(def, _) => obj! {"k" => s("agg"), "agg" => s("coroutine"), "def" => s(self.def(*def)), "ops" => opsj},
                    AggregateKind::CoroutineClosure(def, _) => obj! {"k" => s("agg"), "agg" => s("coroutine_closure"), "def" => s(self.def(*def)), "ops" => opsj},
                    AggregateKind::RawPtr(t, _) => obj! {"k" => s("agg"), "agg" => s("rawptr"), "elem" => self.ty(*t), "ops" => opsj},
                }
            }
            Rvalue::CopyForDeref(p) => obj! {"k" => s("use"), "x" => obj!{"copy" => self.place(p, body)}, "deref_copy" => J::Bool(true)},
            other => obj! {"k" => s("other"), "text" => s(format!("{:?}", other))},
        }
    }

    fn statement(&self, st: &Statement<'tcx>, body: &Body<'tcx>, owner: DefId) -> Option<J> {
        match &st.kind {
            StatementKind::Assign(b) => {
                let (p, rv) = &**b;
                Some(obj! {"k" => s("assign"), "place" => self.place(p, body), "rv" => self.rvalue(rv, body, owner),
                "line" => self.line(st.source_info.span), "exp" => J::Bool(st.source_info.span.from_expansion())})
            }
            StatementKind::SetDiscriminant { place, variant_index } => Some(
                obj! {"k" => s("setdiscr"), "place" => self.place(place, body), "variant" => n(variant_index.as_usize()), "line" => self.line(st.source_info.span)},
            ),
            StatementKind::Intrinsic(i) => Some(obj! {"k" => s("intrinsic"), "text" => s(format!("{:?}", i)), "line" => self.line(st.source_info.span)}),
            StatementKind::StorageLive(_)
            | StatementKind::StorageDead(_)
            | StatementKind::Nop
            | StatementKind::FakeRead(..)
            | StatementKind::PlaceMention(..)
            | StatementKind::AscribeUserType(..)
            | StatementKind::Coverage(..)
            | StatementKind::ConstEvalCounter
            | StatementKind::BackwardIncompatibleDropHint { .. } => None,
        }
    }

    fn terminator(&self, t: &Terminator<'tcx>, body: &Body<'tcx>, owner: DefId) -> J {
        let line = self.line(t.source_info.span);
        let exp = J::Bool(t.source_info.span.from_expansion());
        let bb = |b: BasicBlock| n(b.as_usize());
        let obb = |b: Option<BasicBlock>| b.map(|x| n(x.as_usize())).unwrap_or(J::Null);
        let unwind = |u: &UnwindAction| match u {
            UnwindAction::Cleanup(b) => n(b.as_usize()),
            _ => J::Null,
        };
        match &t.kind {
            TerminatorKind::Goto { target } => obj! {"k" => s("goto"), "target" => bb(*target), "line" => line},
            TerminatorKind::SwitchInt { discr, targets } => {
                let ts = J::Arr(targets.iter().map(|(v, b)| J::Arr(vec![s(format!("{}", v)), bb(b)])).collect());
                obj! {"k" => s("switch"), "discr" => self.operand(discr, body, owner), "dty" => self.ty(discr.ty(&body.local_decls, self.tcx)),
                "targets" => ts, "otherwise" => bb(targets.otherwise()), "line" => line, "exp" => exp}
            }
            TerminatorKind::Return => obj! {"k" => s("return"), "line" => line},
            TerminatorKind::Unreachable => obj! {"k" => s("unreachable"), "line" => line},
            TerminatorKind::UnwindResume => obj! {"k" => s("resume"), "line" => line},
            TerminatorKind::UnwindTerminate(_) => obj! {"k" => s("terminate"), "line" => line},
            TerminatorKind::Drop { place, target, unwind: u, .. } => {
                obj! {"k" => s("drop"), "place" => self.place(place, body), "target" => bb(*target), "unwind" => unwind(u), "line" => line,
                "ty" => self.ty(place.ty(&body.local_decls, self.tcx).ty)}
            }
            TerminatorKind::Call { func, args, destination, target, unwind: u, fn_span, .. } => {
                let mut fj = self.operand(func, body, owner);
                let fty = func.ty(&body.local_decls, self.tcx);
                // indirect call through a local that holds a function item: the callee is still known from the type
                if !matches!(func, Operand::Constant(_)) {
                    if let ty::FnDef(def, args) = fty.kind() {
                        fj = obj! {"const" => obj!{"ty" => self.ty(fty), "fn" => self.fn_ref(*def, args, owner), "via_local" => J::Bool(true)}};
                    }
                }
                let argsj = J::Arr(args.iter().map(|a| self.operand(&a.node, body, owner)).collect());
                let argtys = J::Arr(args.iter().map(|a| self.ty(a.node.ty(&body.local_decls, self.tcx))).collect());
                obj! {"k" => s("call"), "func" => fj, "fty" => self.ty(fty), "args" => argsj, "argtys" => argtys,
                "dest" => self.place(destination, body), "target" => obb(*target), "unwind" => unwind(u),
                "line" => self.line(*fn_span), "exp" => J::Bool(fn_span.from_expansion()),
                "dty" => self.ty(destination.ty(&body.local_decls, self.tcx).ty)}
            }
            TerminatorKind::TailCall { func, args, .. } => {
                let argsj = J::Arr(args.iter().map(|a| self.operand(&a.node, body, owner)).collect());
                obj! {"k" => s("tailcall"), "func" => self.operand(func, body, owner), "args" => argsj, "line" => line}
            }
            TerminatorKind::Assert { cond, expected, msg, target, unwind: u } => {
                let kind = match &**msg {
                    AssertKind::BoundsCheck { .. } => "bounds",
                    AssertKind::Overflow(..) => "overflow",
                    AssertKind::OverflowNeg(..) => "overflow_neg",
                    AssertKind::DivisionByZero(..) => "div_zero",
                    AssertKind::RemainderByZero(..) => "rem_zero",
                    AssertKind::ResumedAfterReturn(..) => "resumed_after_return",
                    AssertKind::ResumedAfterPanic(..) => "resumed_after_panic",
                    AssertKind::ResumedAfterDrop(..) => "resumed_after_drop",
                    AssertKind::MisalignedPointerDereference { .. } => "misaligned",
                    AssertKind::NullPointerDereference => "null_deref",
                    AssertKind::InvalidEnumConstruction(..) => "invalid_enum",
                };
                let mut extra = vec![];
                match &**msg {
                    AssertKind::Overflow(op, l, r) => {
                        extra.push(("op".to_string(), s(format!("{:?}", op))));
                        extra.push(("l".to_string(), self.operand(l, body, owner)));
                        extra.push(("r".to_string(), self.operand(r, body, owner)));
                    }
                    AssertKind::BoundsCheck { len, index } => {
                        extra.push(("len".to_string(), self.operand(len, body, owner)));
                        extra.push(("index".to_string(), self.operand(index, body, owner)));
                    }
                    AssertKind::DivisionByZero(o) | AssertKind::RemainderByZero(o) | AssertKind::OverflowNeg(o) => {
                        extra.push(("l".to_string(), self.operand(o, body, owner)));
                    }
                    _ => {}
                }
                let mut o = vec![
                    ("k".to_string(), s("assert")),
                    ("cond".to_string(), self.operand(cond, body, owner)),
                    ("expected".to_string(), J::Bool(*expected)),
                    ("msg".to_string(), s(kind)),
                    ("target".to_string(), bb(*target)),
                    ("unwind".to_string(), unwind(u)),
                    ("line".to_string(), line),
                    ("exp".to_string(), exp),
                ];
                o.extend(extra);
                J::Obj(o)
            }
            TerminatorKind::Yield { value, resume, resume_arg, drop } => {
                obj! {"k" => s("yield"), "value" => self.operand(value, body, owner), "resume" => bb(*resume),
                "resume_arg" => self.place(resume_arg, body), "drop" => obb(*drop), "line" => line}
            }
            TerminatorKind::CoroutineDrop => obj! {"k" => s("coroutine_drop"), "line" => line},
            TerminatorKind::FalseEdge { real_target, imaginary_target } => {
                obj! {"k" => s("goto"), "target" => bb(*real_target), "imaginary" => bb(*imaginary_target), "line" => line, "false_edge" => J::Bool(true)}
            }
            TerminatorKind::FalseUnwind { real_target, .. } => {
                obj! {"k" => s("goto"), "target" => bb(*real_target), "line" => line, "false_unwind" => J::Bool(true)}
            }
            TerminatorKind::InlineAsm { .. } => obj! {"k" => s("asm"), "line" => line},
        }
    }

    /// ADT def paths contained by value in `t` (stop at references, raw pointers, fn pointers)
    fn adts_by_value(&self, t: Ty<'tcx>, out: &mut Vec<String>, depth: usize, seen: &mut Vec<Ty<'tcx>>) {
        if depth > 8 || seen.contains(&t) {
            return;
        }
        seen.push(t);
        match t.kind() {
            ty::Adt(adt, args) => {
                let name = format!("{}", t);
                let path = self.def(adt.did());
                if !out.contains(&path) {
                    out.push(path);
                }
                let _ = name;
                if adt.is_box() {
                    // owned heap content counts as by value
                    for a in args.types() {
                        self.adts_by_value(a, out, depth + 1, seen);
                    }
                    return;
                }
                // type arguments (covers Option<T>, Vec<T>, Timeout<F>, ...)
                for a in args.types() {
                    self.adts_by_value(a, out, depth + 1, seen);
                }
                // fields of local ADTs
                if adt.did().is_local() {
                    for v in adt.variants() {
                        for f in &v.fields {
                            let ft = f.ty(self.tcx, args);
                            self.adts_by_value(ft, out, depth + 1, seen);
                        }
                    }
                }
            }
            ty::Tuple(ts) => {
                for x in ts.iter() {
                    self.adts_by_value(x, out, depth + 1, seen);
                }
            }
            ty::Array(e, _) | ty::Slice(e) => self.adts_by_value(*e, out, depth + 1, seen),
            ty::Coroutine(def, args) => {
                out.push(format!("coroutine:{}", self.def(*def)));
                for x in args.as_coroutine().upvar_tys() {
                    self.adts_by_value(x, out, depth + 1, seen);
                }
            }
            ty::Closure(def, args) => {
                out.push(format!("closure:{}", self.def(*def)));
                for x in args.as_closure().upvar_tys() {
                    self.adts_by_value(x, out, depth + 1, seen);
                }
            }
            ty::Dynamic(..) => out.push(format!("dyn:{}", t)),
            _ => {}
        }
    }

    fn body_json(&self, did: LocalDefId, body: &Body<'tcx>, stage: &str) -> J {
        let owner = did.to_def_id();
        let tcx = self.tcx;
        let mut names: BTreeMap<usize, String> = BTreeMap::new();
        for vdi in &body.var_debug_info {
            if let VarDebugInfoContents::Place(p) = &vdi.value {
                if p.projection.is_empty() {
                    names.entry(p.local.as_usize()).or_insert_with(|| vdi.name.to_string());
                }
            }
        }
        let locals = J::Arr(
            body.local_decls
                .iter_enumerated()
                .map(|(l, d)| {
                    obj! {"ty" => self.ty(d.ty), "name" => names.get(&l.as_usize()).map(|x| s(x.clone())).unwrap_or(J::Null)}
                })
                .collect(),
        );
        let blocks = J::Arr(
            body.basic_blocks
                .iter()
                .map(|bb| {
                    let stmts = J::Arr(bb.statements.iter().filter_map(|st| self.statement(st, body, owner)).collect());
                    let term = match &bb.terminator {
                        Some(t) => self.terminator(t, body, owner),
                        None => J::Null,
                    };
                    obj! {"stmts" => stmts, "term" => term, "cleanup" => J::Bool(bb.is_cleanup)}
                })
                .collect(),
        );
        let kind = format!("{:?}", tcx.def_kind(owner));
        let is_coroutine = tcx.is_coroutine(owner);
        let mut o = vec![
            ("def".to_string(), s(self.def(owner))),
            ("kind".to_string(), s(kind)),
            ("stage".to_string(), s(stage)),
            ("coroutine".to_string(), J::Bool(is_coroutine)),
            ("span".to_string(), self.loc(body.span)),
            ("argc".to_string(), n(body.arg_count)),
            ("locals".to_string(), locals),
            ("blocks".to_string(), blocks),
        ];
        // parent (for closures / coroutines): the enclosing fn
        let parent = tcx.typeck_root_def_id(owner);
        if parent != owner {
            o.push(("root".to_string(), s(self.def(parent))));
        }
        // impl info
        if let Some(impl_did) = tcx.impl_of_assoc(parent) {
            let self_ty = tcx.type_of(impl_did).instantiate_identity().skip_norm_wip();
            o.push(("impl_self".to_string(), self.ty(self_ty)));
            if let Some(tr) = tcx.impl_opt_trait_ref(impl_did) {
                let tr = tr.instantiate_identity().skip_norm_wip();
                o.push(("impl_trait".to_string(), s(format!("{}", tr.print_only_trait_path()))));
            }
        }
        if let Some(layout) = body.coroutine_layout_raw() {
            let mut variants = vec![];
            for (v, fields) in layout.variant_fields.iter_enumerated() {
                let sp = layout.variant_source_info[v].span;
                let saved = J::Arr(
                    fields
                        .iter()
                        .map(|f| {
                            let ft = layout.field_tys[*f].ty;
                            let mut adts = vec![];
                            let mut seen = vec![];
                            self.adts_by_value(ft, &mut adts, 0, &mut seen);
                            let name = layout.field_names[*f].map(|x| s(x.to_string())).unwrap_or(J::Null);
                            obj! {"ty" => self.ty(ft), "name" => name, "adts" => J::Arr(adts.into_iter().map(s).collect())}
                        })
                        .collect(),
                );
                variants.push(obj! {"variant" => n(v.as_usize()), "at" => self.loc(sp), "saved" => saved});
            }
            o.push(("layout".to_string(), J::Arr(variants)));
        }
        J::Obj(o)
    }

    fn crate_facts(&self) -> (J, J, J) {
        let tcx = self.tcx;
        let mut enums = vec![];
        let mut consts = vec![];
        let mut adts = vec![];
        for id in tcx.hir_crate_items(()).definitions() {
            let did = id.to_def_id();
            match tcx.def_kind(did) {
                DefKind::Enum | DefKind::Struct => {
                    let adt = tcx.adt_def(did);
                    let mut vars = vec![];
                    if adt.is_enum() {
                        for (vidx, d) in adt.discriminants(tcx) {
                            let v = adt.variant(vidx);
                            let fields = J::Arr(
                                v.fields
                                    .iter()
                                    .map(|f| obj! {"name" => s(f.name.to_string()), "ty" => self.ty(tcx.type_of(f.did).instantiate_identity().skip_norm_wip())})
                                    .collect(),
                            );
                            vars.push(obj! {"name" => s(v.name.to_string()), "idx" => n(vidx.as_usize()), "discr" => s(format!("{}", d.val)), "fields" => fields});
                        }
                        let repr = adt.repr();
                        let rs = match repr.int {
                            Some(i) => format!("{:?}", i),
                            None => "none".to_string(),
                        };
                        enums.push((self.def(did), obj! {"variants" => J::Arr(vars), "repr" => s(rs), "at" => self.loc(tcx.def_span(did))}));
                    } else {
                        let v = adt.non_enum_variant();
                        let fields = J::Arr(
                            v.fields
                                .iter()
                                .map(|f| obj! {"name" => s(f.name.to_string()), "ty" => self.ty(tcx.type_of(f.did).instantiate_identity().skip_norm_wip())})
                                .collect(),
                        );
                        adts.push((self.def(did), obj! {"fields" => fields, "at" => self.loc(tcx.def_span(did))}));
                    }
                }
                DefKind::Const { .. } | DefKind::AssocConst { .. } => {
                    let t = tcx.type_of(did).instantiate_identity().skip_norm_wip();
                    let generics = tcx.generics_of(did);
                    if generics.count() != 0 || generics.parent_count != 0 && tcx.generics_of(did).requires_monomorphization(tcx) {
                        continue;
                    }
                    let mut val = J::Null;
                    if let Ok(v) = tcx.const_eval_poly(did) {
                        if let Some(si) = v.try_to_scalar_int() {
                            val = s(format!("{}", si.to_bits_unchecked()));
                        }
                    }
                    consts.push((self.def(did), obj! {"ty" => self.ty(t), "val" => val, "at" => self.loc(tcx.def_span(did))}));
                }
                _ => {}
            }
        }
        (
            J::Obj(enums.into_iter().collect()),
            J::Obj(consts.into_iter().collect()),
            J::Obj(adts.into_iter().collect()),
        )
    }
}

// ------------------------------------------------------------------ callbacks

struct Cb {
    out_dir: String,
    want: bool,
    promoted: Vec<(String, J)>,
}

impl Callbacks for Cb {
    fn after_expansion<'tcx>(&mut self, _c: &Compiler, tcx: TyCtxt<'tcx>) -> Compilation {
        if !self.want {
            return Compilation::Continue;
        }
        // analysis-phase MIR of coroutine bodies (Yield terminators still present)
        let ex = Ex { tcx };
        with_resolve_crate_name!(with_no_visible_paths!(with_no_trimmed_paths!(self.export_promoted(&ex))));
        Compilation::Continue
    }

    fn after_analysis<'tcx>(&mut self, _c: &Compiler, tcx: TyCtxt<'tcx>) -> Compilation {
        if !self.want {
            return Compilation::Continue;
        }
        let ex = Ex { tcx };
        with_resolve_crate_name!(with_no_visible_paths!(with_no_trimmed_paths!(self.export_all(&ex))));
        Compilation::Continue
    }
}

impl Cb {
    fn export_promoted<'tcx>(&mut self, ex: &Ex<'tcx>) {
        let tcx = ex.tcx;
        for ldid in tcx.hir_body_owners() {
            if tcx.is_coroutine(ldid.to_def_id()) {
                let (steal, _) = tcx.mir_promoted(ldid);
                let j = {
                    let body = steal.borrow();
                    ex.body_json(ldid, &body, "promoted")
                };
                self.promoted.push((format!("{}#promoted", tcx.def_path_str(ldid.to_def_id())), j));
            }
        }
    }

    fn export_all<'tcx>(&mut self, ex: &Ex<'tcx>) {
        let tcx = ex.tcx;
        let mut bodies: Vec<(String, J)> = std::mem::take(&mut self.promoted);
        for ldid in tcx.hir_body_owners() {
            let did = ldid.to_def_id();
            let kind = tcx.def_kind(did);
            match kind {
                DefKind::Fn | DefKind::AssocFn | DefKind::Closure => {}
                _ => continue, // consts / statics / anon consts: values come from const eval
            }
            let body = tcx.optimized_mir(did);
            let mut bj = ex.body_json(ldid, body, "optimized");
            let proms = tcx.promoted_mir(did);
            if !proms.is_empty() {
                let pj = J::Arr(proms.iter().map(|pb| ex.body_json(ldid, pb, "promoted_const")).collect());
                if let J::Obj(ref mut o) = bj {
                    o.push(("promoted".to_string(), pj));
                }
            }
            bodies.push((tcx.def_path_str(did), bj));
        }
        let (enums, consts, adts) = ex.crate_facts();
        let name = tcx.crate_name(rustc_hir::def_id::LOCAL_CRATE).to_string();
        let doc = obj! {
            "crate" => s(name.clone()),
            "bodies" => J::Obj(bodies),
            "enums" => enums,
            "consts" => consts,
            "structs" => adts,
        };
        let mut out = String::new();
        doc.write(&mut out);
        let path = format!("{}/{}.mir.json", self.out_dir, name);
        let tmp = format!("{}.tmp{}", path, std::process::id());
        std::fs::write(&tmp, out).expect("mirx: cannot write facts");
        std::fs::rename(&tmp, &path).expect("mirx: cannot rename facts");
    }
}

fn main() {
    let mut args: Vec<String> = std::env::args().collect();
    // RUSTC_WORKSPACE_WRAPPER protocol: argv[1] = path to rustc
    if args.len() > 1 && (args[1].ends_with("rustc") || args[1].contains("/rustc")) {
        args.remove(1);
    }
    let crates = std::env::var("MIRX_CRATES").unwrap_or_default();
    let out_dir = std::env::var("MIRX_OUT").unwrap_or_else(|_| ".".to_string());
    let mut crate_name = String::new();
    let mut i = 0;
    while i < args.len() {
        if args[i] == "--crate-name" && i + 1 < args.len() {
            crate_name = args[i + 1].clone();
        }
        i += 1;
    }
    let is_test = args.iter().any(|a| a == "--test");
    let want = !crate_name.is_empty() && !is_test && crates.split(',').any(|c| c == crate_name);
    let mut cb = Cb { out_dir, want, promoted: vec![] };
    rustc_driver::catch_with_exit_code(|| rustc_driver::run_compiler(&args, &mut cb));
}
