#!/usr/bin/env python3
"""Run the registered checks against a seeded change (or, with --neutral, a behaviour-preserving refactoring under
/verif/neutral/<id>/): apply /verif/seeded/<id>/patch.diff to /repo, run the quick checks,
undo it straight afterwards (git -C /repo checkout -- .).  Usage: tools/seeded.py <id> [props...]   (default: all 20)"""
import json
import os
import subprocess
import sys

HERE = os.path.dirname(os.path.dirname(os.path.abspath(__file__)))


def main():
    base = "seeded"
    if sys.argv[1] == "--neutral":          # behaviour-preserving refactorings: every check must stay silent
        base = "neutral"
        del sys.argv[1]
    sid = sys.argv[1]
    props = sys.argv[2:] or ["C%02d" % i for i in range(1, 21)]
    patch = os.path.join(HERE, base, sid, "patch.diff")
    st = subprocess.run(["git", "-C", "/repo", "status", "--porcelain", "--untracked-files=no"], stdout=subprocess.PIPE, text=True).stdout.strip()
    if st:
        print("refusing: /repo has local modifications:\n" + st)
        return 2
    evdir = os.path.join(HERE, "evidence")
    saved = {f: open(os.path.join(evdir, f)).read() for f in os.listdir(evdir) if f.endswith(".json")}
    r = subprocess.run(["git", "-C", "/repo", "apply", patch], stdout=subprocess.PIPE, stderr=subprocess.STDOUT, text=True)
    if r.returncode != 0:
        print("patch does not apply: " + r.stdout)
        return 2
    res = {}
    try:
        for p in props:
            r = subprocess.run([os.path.join(HERE, "check"), p], stdout=subprocess.PIPE, stderr=subprocess.STDOUT, text=True)
            keys = [l.strip().split(" at ")[0] for l in r.stdout.splitlines() if l.startswith("  R") or l.startswith("  anchor")]
            res[p] = {"exit": r.returncode, "keys": keys[:6], "fatal": "FATAL" in r.stdout}
            print(p, r.returncode, keys[:4], "FATAL" if "FATAL" in r.stdout else "")
    finally:
        subprocess.run(["git", "-C", "/repo", "checkout", "--", "."])
        for f, t in saved.items():
            open(os.path.join(evdir, f), "w").write(t)
    out = os.path.join(HERE, base, sid, "detection.json")
    if len(sys.argv) > 2 and os.path.exists(out):
        # partial run: merge into the recorded results
        old = json.load(open(out)).get("results", {})
        old.update(res)
        res = old
    fired = sorted(p for p, v in res.items() if v["exit"] == 1)
    print("FIRED:", fired)
    json.dump({"seed": sid, "fired": fired, "results": res}, open(out, "w"), indent=1)
    return 0


if __name__ == "__main__":
    sys.exit(main())
