#!/usr/bin/env python3
"""Checker self-test: apply source mutants to a scratch copy of /repo (outside /repo and /verif), run the named
property checks against the copy, and compare with the expectation (must-fire: the named rule reports; silent:
no violation).  Usage: tools/mutant.py [--tests] [id ...]   (no ids: all mutants in selftest/mutants.json)
The scratch copy and nothing else is modified; it is removed afterwards."""
import json
import os
import shutil
import subprocess
import sys
import tempfile

HERE = os.path.dirname(os.path.dirname(os.path.abspath(__file__)))


def run_one(m, with_tests=False):
    tmp = tempfile.mkdtemp(prefix="verif-mut-")
    dst = os.path.join(tmp, "repo")
    try:
        subprocess.check_call(["rsync", "-a", "--exclude", "target", "--exclude", ".git", "/repo/", dst + "/"])
        for ed in m["edits"]:
            p = os.path.join(dst, ed["file"])
            t = open(p).read()
            if t.count(ed["old"]) < 1:
                return {"id": m["id"], "status": "STALE", "detail": "pattern not found in %s" % ed["file"]}
            t = t.replace(ed["old"], ed["new"], ed.get("count", 1))
            open(p, "w").write(t)
        res = {"id": m["id"], "props": {}}
        env = dict(os.environ, VERIF_REPO=dst, VERIF_EVIDENCE_DIR=os.path.join(tmp, "ev"), VERIF_FACTS_KEEP="48")          # evidence of a mutated tree is scratch
        if with_tests:
            r = subprocess.run(["cargo", "test", "--workspace", "--no-fail-fast", "--offline"], cwd=dst, env=dict(os.environ, CARGO_TARGET_DIR=os.path.join(tmp, "t")),
                               stdout=subprocess.PIPE, stderr=subprocess.STDOUT, text=True)
            res["tests_pass"] = r.returncode == 0
        ok = True
        for prop in m["props"]:
            r = subprocess.run([os.path.join(HERE, "check"), prop], env=env, stdout=subprocess.PIPE, stderr=subprocess.STDOUT, text=True)
            keys = [l.strip().split(" at ")[0] for l in r.stdout.splitlines() if l.startswith("  R") or l.startswith("  anchor")]
            fatal = "FATAL" in r.stdout
            res["props"][prop] = {"exit": r.returncode, "keys": keys[:8], "fatal": fatal}
            if m["expect"] == "fire":
                want = m.get("rule", "")
                if not (r.returncode == 1 and any(k.startswith(want) for k in keys)):
                    ok = False
            else:
                if r.returncode != 0:
                    ok = False
        res["status"] = "OK" if ok else "MISMATCH"
        return res
    finally:
        shutil.rmtree(tmp, ignore_errors=True)


def main():
    argv = list(sys.argv[1:])
    jobs = 1
    if "-j" in argv:
        i = argv.index("-j")
        jobs = int(argv[i + 1])
        del argv[i:i + 2]
    args = [a for a in argv if not a.startswith("--")]
    with_tests = "--tests" in argv
    ms = json.load(open(os.path.join(HERE, "selftest", "mutants.json")))
    if args:
        ms = [m for m in ms if m["id"] in args or any(m["id"].startswith(a) for a in args)]
    bad = 0
    # evidence files of the real tree must not be clobbered by mutant runs: save and restore
    evdir = os.path.join(HERE, "evidence")
    saved = {f: open(os.path.join(evdir, f)).read() for f in os.listdir(evdir) if f.endswith(".json")}
    try:
        from concurrent.futures import ThreadPoolExecutor
        with ThreadPoolExecutor(max_workers=jobs) as ex:
            for r in ex.map(lambda m: run_one(m, with_tests), ms):
                print(json.dumps(r), flush=True)
                if r["status"] != "OK":
                    bad += 1
    finally:
        for f, t in saved.items():
            open(os.path.join(evdir, f), "w").write(t)
    print("mutants: %d run, %d mismatching" % (len(ms), bad))
    return 1 if bad else 0


if __name__ == "__main__":
    sys.exit(main())
